// Scenario grid of C20 (the "configurations" quantifier is enumerated here, never sampled).
//
// family "data"   finite faults (Drop / Dup / Delay) at every datagram index, bound k per scenario:
//                 sizes x read buffer x operation order x MTU
// family "jumbo"  MTU 16 384 and 32 000 (see below)
// family "vanish" one permanent fault at every datagram index: BlackholeFrom(i) = the peer / the path
//                 vanishes at datagram i; Forget(i) = the server forgets every path secret at datagram i
#![allow(dead_code)]
use crate::mccore::Tier;
use crate::net::Action;
use crate::scenario::*;

#[derive(Clone, Debug)]
pub struct Case {
    pub scn: Scenario,
    /// deviation menu (finite faults)
    pub menu: Vec<Action>,
    /// deviation bound
    pub k: usize,
    /// bound k > 1 applies only if the fault-free run has at most this many datagrams (else k = 1)
    pub k2_max_dgrams: usize,
    /// single-deviation extras applied at every index of the fault-free run (permanent faults)
    pub extra: Vec<Action>,
    /// the `extra` (permanent) actions are offered on top of schedules with up to this many menu
    /// deviations (0 = only on top of the fault-free run): "a datagram is lost, then the peer vanishes"
    pub extra_after: usize,
    /// tcp "bytes" mode: the offsets swept in each direction's wire stream are 1..=sweep, the last
    /// sweep/4 offsets and every dc packet boundary +-2 (usize::MAX = every offset)
    pub sweep: usize,
    /// tcp "bytes" mode: the second deviation of a pair ranges over the first `sweep2` offsets and the
    /// packet boundaries +-1 only
    pub sweep2: usize,
}

pub const FAMILIES: &[&str] = &["data", "vanish", "jumbo", "garble", "tcp"];

/// opt-in probe scenarios of the tcp family (DCMC_TCP_EXTRA=slow,silent): behaviours the pinned tree
/// is known to show and that the lead has to judge (notes/wK.md); not part of `run C20` by default
pub fn tcp_extra(what: &str) -> bool {
    std::env::var("DCMC_TCP_EXTRA").map(|v| v.split(',').any(|x| x == what)).unwrap_or(false)
}

fn tcp_calls_menu() -> Vec<Action> {
    vec![Action::One, Action::Half, Action::AllBut1, Action::Pend]
}

fn tcp_calls_extra() -> Vec<Action> {
    vec![Action::SeverEof, Action::SeverReset, Action::Forget]
}

fn tcp_bytes_menu() -> Vec<Action> {
    vec![Action::Split(0), Action::Split(1)]
}

fn tcp_bytes_extra() -> Vec<Action> {
    vec![Action::CutEof(0), Action::CutEof(1), Action::CutReset(0), Action::CutReset(1)]
}

const UNBOUNDED: usize = 1 << 20;
const ALL: usize = usize::MAX;

#[allow(clippy::too_many_arguments)]
fn tcp_calls(out: &mut Vec<Case>, req: usize, resp: usize, rbuf: usize, order: Order, cap: usize, rx: usize, tx: usize, prelude: bool, k: usize, k2_max: usize, menu: Vec<Action>, extra: Vec<Action>) {
    let mut p = TcpParams::new(TcpMode::Calls);
    p.cap = cap;
    p.rx_chunk = rx;
    p.tx_chunk = tx;
    p.prelude = prelude;
    out.push(Case { scn: Scenario::new_tcp(req, resp, rbuf, order, p), menu, k, k2_max_dgrams: k2_max, extra, extra_after: 0, sweep: 0, sweep2: 0 });
}

#[allow(clippy::too_many_arguments)]
fn tcp_bytes(out: &mut Vec<Case>, req: usize, resp: usize, rbuf: usize, order: Order, cap: usize, prelude: bool, k: usize, sweep: usize, sweep2: usize) {
    let mut p = TcpParams::new(TcpMode::Bytes);
    p.cap = cap;
    p.prelude = prelude;
    out.push(Case { scn: Scenario::new_tcp(req, resp, rbuf, order, p), menu: tcp_bytes_menu(), k, k2_max_dgrams: usize::MAX, extra: tcp_bytes_extra(), extra_after: 0, sweep, sweep2 });
}

pub fn menu() -> Vec<Action> {
    // Dup: the copy arrives 100 us after the original (back to back) ; Delay(3): 1.5 ms instead of
    // 0.5 ms, i.e. after the flight that was sent one RTT later (reordering + spurious loss detection)
    vec![Action::Drop, Action::Dup(100), Action::Delay(3)]
}

/// two deviations are explored on scenarios whose fault-free run has at most this many datagrams
/// (9 * C(n,2) executions: 7 020 at n = 40, 28 440 at n = 80); above that, one deviation
pub const K2_MAX_DGRAMS_QUICK: usize = 40;
pub const K2_MAX_DGRAMS_THOROUGH: usize = 80;
const SIZES: [usize; 4] = [1, 1000, 9000, 40_000];
const RBUFS: [usize; 3] = [1, 100, 65_536];
const ORDERS: [Order; 6] = [Order::Seq, Order::SeqFin, Order::Concurrent, Order::EarlyShutdown, Order::DropWriter, Order::DropReader];
const MTUS: [u16; 4] = [1250, 1500, 9000, 16_000];

pub fn family(name: &str, tier: Tier) -> Vec<Case> {
    let quick = tier == Tier::Quick;
    let mut out = Vec::new();
    match name {
        "data" => {
            if quick {
                // covering subset: every value of every dimension at least once, every order with a small
                // and a multi-packet transfer; k = 2 on the smallest scenarios
                let list: Vec<(usize, usize, usize, Order, u16, usize)> = vec![
                    (1, 1, 1, Order::Seq, 1250, 2),
                    (1000, 1, 100, Order::Seq, 1500, 2),
                    (1, 1000, 65_536, Order::Concurrent, 9000, 2),
                    (1000, 1000, 100, Order::DropWriter, 1250, 2),
                    (1000, 1000, 100, Order::DropReader, 1500, 2),
                    (9000, 1000, 65_536, Order::Seq, 1250, 1),
                    (1000, 9000, 100, Order::Concurrent, 1500, 1),
                    (9000, 9000, 65_536, Order::EarlyShutdown, 9000, 1),
                    (9000, 9000, 100, Order::DropWriter, 1500, 1),
                    (9000, 9000, 65_536, Order::DropReader, 1250, 1),
                    (40_000, 1, 65_536, Order::Seq, 9000, 1),
                    (1, 40_000, 65_536, Order::Concurrent, 1250, 1),
                    (40_000, 40_000, 65_536, Order::EarlyShutdown, 1500, 1),
                    (9000, 40_000, 65_536, Order::Concurrent, 9000, 1),
                    (1000, 1, 1, Order::EarlyShutdown, 1500, 1),
                    (40_000, 9000, 100, Order::DropReader, 9000, 1),
                    (1000, 9000, 65_536, Order::DropWriter, 9000, 2),
                    (40_000, 40_000, 65_536, Order::SeqFin, 1500, 1),
                    (1000, 9000, 100, Order::SeqFin, 1250, 1),
                    (1, 1, 100, Order::SeqFin, 9000, 2),
                    (40_000, 40_000, 100, Order::Concurrent, 16_000, 1),
                    (1000, 1000, 65_536, Order::Concurrent, 1250, 2),
                    (9000, 1, 100, Order::EarlyShutdown, 1500, 2),
                    (1, 9000, 65_536, Order::SeqFin, 1250, 2),
                    (40_000, 9000, 65_536, Order::DropWriter, 16_000, 2),
                    (9000, 40_000, 65_536, Order::DropReader, 1500, 2),
                    (40_000, 40_000, 65_536, Order::Seq, 1250, 2),
                    (1000, 1000, 100, Order::EarlyShutdown, 9000, 2),
                    (9000, 9000, 65_536, Order::SeqFin, 9000, 2),
                ];
                for (req, resp, rbuf, order, mtu, k) in list {
                    // a 1-byte reader of 1000 bytes is ~1000 ACK datagrams per run: quick explores only the
                    // losses there (thorough has the full menu)
                    let m = if rbuf == 1 && req + resp > 2 { vec![Action::Drop] } else { menu() };
                    let _ = k;
                    out.push(Case { scn: Scenario::new(req, resp, rbuf, order, mtu), menu: m, k: 2, k2_max_dgrams: K2_MAX_DGRAMS_QUICK, extra: vec![], extra_after: 0, sweep: 0, sweep2: 0 });
                }
            } else {
                // full product order x mtu x (req,resp) pairs; the read buffer rotates through its values so
                // that every (order, mtu, rbuf) and every (size, rbuf) combination occurs; rbuf = 1 only
                // with transfers <= 1000 bytes (a 1-byte reader of 40 kB is 40 000 ACK datagrams)
                let pairs: [(usize, usize); 9] = [(1, 1), (1000, 1), (1, 1000), (1000, 9000), (9000, 1000), (40_000, 1000), (9000, 40_000), (9000, 9000), (40_000, 40_000)];
                let mut n = 0usize;
                for order in ORDERS {
                    for mtu in MTUS {
                        for (req, resp) in pairs {
                            let small = req <= 1000 && resp <= 1000;
                            let rbuf = if small { RBUFS[n % 3] } else { RBUFS[1 + n % 2] };
                            n += 1;
                            out.push(Case { scn: Scenario::new(req, resp, rbuf, order, mtu), menu: menu(), k: 2, k2_max_dgrams: K2_MAX_DGRAMS_THOROUGH, extra: vec![], extra_after: 0, sweep: 0, sweep2: 0 });
                        }
                    }
                }
            }
        }
        "vanish" => {
            let list: Vec<(usize, usize, usize, Order, u16)> = if quick {
                vec![(1, 1, 1, Order::Seq, 1250), (1000, 1000, 100, Order::Seq, 1500), (9000, 9000, 65_536, Order::Concurrent, 1250), (9000, 9000, 100, Order::DropWriter, 1500), (40_000, 1000, 65_536, Order::EarlyShutdown, 9000)]
            } else {
                vec![
                    (1, 1, 1, Order::Seq, 1250),
                    (1000, 1000, 100, Order::Seq, 1500),
                    (9000, 9000, 65_536, Order::Concurrent, 1250),
                    (40_000, 1000, 65_536, Order::Seq, 9000),
                    (1000, 40_000, 100, Order::EarlyShutdown, 1500),
                    (9000, 9000, 100, Order::DropWriter, 1500),
                    (9000, 9000, 65_536, Order::DropReader, 9000),
                    (1000, 1000, 1, Order::Concurrent, 1500),
                    (40_000, 40_000, 65_536, Order::Concurrent, 1250),
                ]
            };
            for (req, resp, rbuf, order, mtu) in list {
                let mut scn = Scenario::new(req, resp, rbuf, order, mtu);
                scn.name = format!("vanish/{}", scn.name);
                out.push(Case { scn, menu: vec![], k: 0, k2_max_dgrams: 0, extra: vec![Action::BlackholeFrom, Action::Forget], extra_after: 0, sweep: 0, sweep2: 0 });
            }
            // One finite fault first, then the permanent one: every schedule [i D, j B] and [i D, j F] with
            // j > i (thorough: also [i L3, j ..]) on transfers of a few dozen datagrams. This reaches receiver
            // states that need a loss to exist when the peer vanishes, e.g. `SizeKnown` with a gap (the
            // packet carrying the final offset arrived, an earlier data packet did not).
            let list2: Vec<(usize, usize, usize, Order, u16)> = if quick {
                vec![(1000, 1000, 100, Order::Seq, 1500), (1, 1, 1, Order::Seq, 1250), (9000, 9000, 65_536, Order::Concurrent, 9000), (1000, 1000, 100, Order::DropWriter, 1250), (1000, 1000, 100, Order::EarlyShutdown, 1500)]
            } else {
                vec![
                    (1000, 1000, 100, Order::Seq, 1500),
                    (1, 1, 1, Order::Seq, 1250),
                    (9000, 9000, 65_536, Order::Concurrent, 9000),
                    (1000, 1000, 100, Order::DropWriter, 1250),
                    (1000, 1000, 100, Order::EarlyShutdown, 1500),
                    (1000, 1000, 100, Order::SeqFin, 1500),
                    (9000, 9000, 100, Order::Seq, 9000),
                    (1000, 9000, 65_536, Order::DropReader, 9000),
                    (9000, 1000, 100, Order::Concurrent, 1500),
                ]
            };
            for (req, resp, rbuf, order, mtu) in list2 {
                let mut scn = Scenario::new(req, resp, rbuf, order, mtu);
                scn.name = format!("vanish+loss/{}", scn.name);
                let menu = if quick { vec![Action::Drop] } else { vec![Action::Drop, Action::Delay(3)] };
                out.push(Case { scn, menu, k: 1, k2_max_dgrams: 0, extra: vec![Action::BlackholeFrom, Action::Forget], extra_after: 1, sweep: 0, sweep2: 0 });
            }
        }
        // MTUs above 16 383: the property's quantifier goes to 32k. Kept apart from the main grid because
        // the pinned tree fails here before the first datagram (u16 overflow in BBR's minimum_window,
        // see notes/wI.md): the violation then has a stable fingerprint of its own.
        "jumbo" => {
            for mtu in [16_384u16, 32_000] {
                out.push(Case { scn: Scenario::new(1000, 1000, 100, Order::Seq, mtu), menu: menu(), k: 2, k2_max_dgrams: K2_MAX_DGRAMS_QUICK, extra: vec![Action::BlackholeFrom], extra_after: 0, sweep: 0, sweep2: 0 });
            }
            if !quick {
                out.push(Case { scn: Scenario::new(40_000, 40_000, 65_536, Order::Concurrent, 32_000), menu: menu(), k: 2, k2_max_dgrams: K2_MAX_DGRAMS_THOROUGH, extra: vec![], extra_after: 0, sweep: 0, sweep2: 0 });
            }
        }
        // the dc stream over a stream transport (Protocol::Tcp), see tcp.rs. MTU is not a dimension: over
        // a stream transport dc writes records of up to 2^14 bytes whatever the path MTU is.
        // unauthentic variants of every datagram of a transfer (stream packets and control packets of
        // both directions), delivered just ahead of the genuine one: the transfer must be unaffected
        "garble" => {
            // both tiers: a whole run of this family takes under two seconds
            let list: Vec<(usize, usize, usize, Order, u16)> = vec![
                (1, 1, 1, Order::Seq, 1250),
                (1000, 1000, 100, Order::Seq, 1500),
                (9000, 9000, 65_536, Order::Concurrent, 1250),
                (40_000, 1, 65_536, Order::Seq, 9000),
                (1, 40_000, 100, Order::EarlyShutdown, 1500),
                (9000, 9000, 100, Order::DropWriter, 1500),
                (9000, 9000, 65_536, Order::DropReader, 9000),
                (40_000, 40_000, 65_536, Order::SeqFin, 1250),
            ];
            for (req, resp, rbuf, order, mtu) in list {
                let mut scn = Scenario::new(req, resp, rbuf, order, mtu);
                scn.name = format!("garble/{}", scn.name);
                out.push(Case { scn, menu: vec![Action::Garble], k: 1, k2_max_dgrams: 0, extra: vec![], extra_after: 0, sweep: 0, sweep2: 0 });
            }
        }
        "tcp" => {
            let k2 = if quick { 24 } else { 48 };
            // ---- "calls" mode: deviations {One, Half, AllBut1, Pend} at every socket call, k = 2 where the
            //      fault-free run has at most k2 calls, else 1; connection closed / reset / path secret
            //      forgotten at every socket call
            // (thorough: three deviations on the smallest transfers)
            let k_small = if quick { 2 } else { 3 };
            for order in ORDERS {
                tcp_calls(&mut out, 1000, 1000, 100, order, UNBOUNDED, ALL, ALL, true, k_small, k2, tcp_calls_menu(), tcp_calls_extra());
            }
            tcp_calls(&mut out, 1, 1, 1, Order::Seq, UNBOUNDED, ALL, ALL, false, k_small, k2, tcp_calls_menu(), tcp_calls_extra());
            tcp_calls(&mut out, 1000, 1, 1, Order::Concurrent, UNBOUNDED, ALL, ALL, false, k_small, k2, tcp_calls_menu(), tcp_calls_extra());
            // backpressure: the connection buffers less than the transfer, writes are partial / Pending
            tcp_calls(&mut out, 9000, 9000, 65_536, Order::Concurrent, 4096, ALL, ALL, true, 1, k2, tcp_calls_menu(), tcp_calls_extra());
            tcp_calls(&mut out, 40_000, 40_000, 65_536, Order::Seq, 8192, ALL, ALL, false, 1, k2, tcp_calls_menu(), tcp_calls_extra());
            tcp_calls(&mut out, 40_000, 1000, 100, Order::EarlyShutdown, UNBOUNDED, ALL, ALL, true, 1, k2, tcp_calls_menu(), tcp_calls_extra());
            tcp_calls(&mut out, 9000, 40_000, 65_536, Order::SeqFin, 100, ALL, ALL, true, 1, k2, tcp_calls_menu(), tcp_calls_extra());
            tcp_calls(&mut out, 9000, 9000, 100, Order::DropReader, 4096, ALL, ALL, false, 1, k2, tcp_calls_menu(), tcp_calls_extra());
            tcp_calls(&mut out, 40_000, 9000, 65_536, Order::DropWriter, UNBOUNDED, ALL, ALL, true, 1, k2, tcp_calls_menu(), tcp_calls_extra());
            // more than the 64 KiB receive ring of a stream (msg::recv::Message): the ring wraps
            tcp_calls(&mut out, 150_000, 150_000, 65_536, Order::Concurrent, UNBOUNDED, ALL, ALL, true, 1, k2, tcp_calls_menu(), tcp_calls_extra());
            tcp_calls(&mut out, 150_000, 1000, 100, Order::Seq, 8192, ALL, ALL, false, 1, k2, tcp_calls_menu(), tcp_calls_extra());
            // ---- segmentation runs: every read returns at most rx bytes / every write accepts at most tx
            tcp_calls(&mut out, 1000, 1000, 100, Order::Seq, UNBOUNDED, 1, ALL, true, 1, 0, vec![Action::Pend], vec![]);
            tcp_calls(&mut out, 1000, 1000, 1, Order::Concurrent, UNBOUNDED, ALL, 1, false, 1, 0, vec![Action::Pend], vec![]);
            tcp_calls(&mut out, 9000, 9000, 65_536, Order::SeqFin, UNBOUNDED, 1, 1, true, 0, 0, vec![], vec![]);
            tcp_calls(&mut out, 40_000, 40_000, 65_536, Order::Concurrent, UNBOUNDED, 1, ALL, false, 0, 0, vec![], vec![]);
            tcp_calls(&mut out, 40_000, 9000, 100, Order::Seq, UNBOUNDED, ALL, 1, true, 0, 0, vec![], vec![]);
            tcp_calls(&mut out, 40_000, 40_000, 65_536, Order::EarlyShutdown, 1000, 7, 13, true, 0, 0, vec![], vec![]);
            tcp_calls(&mut out, 9000, 40_000, 100, Order::DropWriter, 4096, 1447, 1447, false, 1, 0, vec![Action::Pend], vec![]);
            tcp_calls(&mut out, 150_000, 150_000, 65_536, Order::SeqFin, UNBOUNDED, 1447, ALL, true, 1, 0, vec![Action::Pend], vec![]);
            if !quick {
                for order in ORDERS {
                    tcp_calls(&mut out, 9000, 9000, 100, order, 4096, ALL, ALL, false, 2, k2, tcp_calls_menu(), tcp_calls_extra());
                    tcp_calls(&mut out, 1, 40_000, 65_536, order, UNBOUNDED, ALL, ALL, true, 2, k2, tcp_calls_menu(), tcp_calls_extra());
                    tcp_calls(&mut out, 1000, 1000, 1, order, 100, ALL, ALL, true, 2, 64, tcp_calls_menu(), tcp_calls_extra());
                    tcp_calls(&mut out, 40_000, 40_000, 65_536, order, 8192, ALL, ALL, true, 2, k2, tcp_calls_menu(), tcp_calls_extra());
                    tcp_calls(&mut out, 9000, 1000, 100, order, UNBOUNDED, 1, 1, false, 0, 0, vec![], vec![]);
                }
            }
            // ---- "bytes" mode: a TCP segment boundary (no read crosses it) at every wire offset of either
            //      direction; the stream cut (EOF / RST) after exactly i wire bytes of either direction
            if quick {
                tcp_bytes(&mut out, 1, 1, 1, Order::Seq, UNBOUNDED, true, 2, ALL, 24);
                tcp_bytes(&mut out, 1000, 1000, 100, Order::Seq, UNBOUNDED, false, 1, ALL, 0);
                tcp_bytes(&mut out, 1000, 9000, 65_536, Order::Concurrent, UNBOUNDED, true, 1, 160, 0);
                tcp_bytes(&mut out, 40_000, 40_000, 65_536, Order::SeqFin, UNBOUNDED, false, 1, 96, 0);
                tcp_bytes(&mut out, 9000, 1000, 100, Order::DropWriter, 4096, true, 1, 96, 0);
                tcp_bytes(&mut out, 1000, 40_000, 100, Order::DropReader, UNBOUNDED, true, 1, 96, 0);
                tcp_bytes(&mut out, 40_000, 1, 65_536, Order::EarlyShutdown, 8192, true, 1, 96, 0);
                tcp_bytes(&mut out, 150_000, 150_000, 65_536, Order::Seq, UNBOUNDED, true, 1, 64, 0);
            } else {
                tcp_bytes(&mut out, 150_000, 150_000, 65_536, Order::Seq, UNBOUNDED, true, 1, 256, 0);
                tcp_bytes(&mut out, 150_000, 150_000, 100, Order::Concurrent, 8192, false, 1, 256, 0);
                tcp_bytes(&mut out, 1, 1, 1, Order::Seq, UNBOUNDED, true, 2, ALL, ALL);
                tcp_bytes(&mut out, 1, 1, 100, Order::SeqFin, UNBOUNDED, false, 2, ALL, ALL);
                for (i, order) in ORDERS.iter().enumerate() {
                    tcp_bytes(&mut out, 1000, 1000, RBUFS[i % 3], *order, UNBOUNDED, i % 2 == 0, 1, ALL, 0);
                    tcp_bytes(&mut out, 9000, 9000, RBUFS[1 + i % 2], *order, if i % 2 == 0 { 4096 } else { UNBOUNDED }, i % 2 == 1, 1, ALL, 0);
                    tcp_bytes(&mut out, 40_000, 40_000, 65_536, *order, if i % 2 == 1 { 8192 } else { UNBOUNDED }, i % 2 == 0, 1, 2048, 0);
                }
                tcp_bytes(&mut out, 1000, 1000, 100, Order::Concurrent, UNBOUNDED, true, 2, 64, 64);
                tcp_bytes(&mut out, 1000, 1000, 100, Order::Seq, UNBOUNDED, false, 2, 64, 64);
            }
            // ---- opt-in probes (see notes/wK.md)
            // part of every run: the KNOWN C20 finding "blocked FIN record dropped after 1 s" (known_findings.json)
            {
                // A reader that pauses 2 s before every read while the connection's buffer is full: the
                // client's shutdown() finds room for only 7 of the 49 bytes of its FIN record, the rest is
                // handed to a background task that gives up after 1 s (stream/runtime/*.rs
                // spawn_send_shutdown). On the pinned tree both sides then wait for ever (notes/wK.md F1).
                let mut p = TcpParams::new(TcpMode::Calls);
                p.cap = 1100;
                p.pause_ms = 2000;
                out.push(Case { scn: Scenario::new_tcp(2100, 1, 4000, Order::Seq, p), menu: vec![], k: 0, k2_max_dgrams: 0, extra: vec![], extra_after: 0, sweep: 0, sweep2: 0 });
            }
            if tcp_extra("silent") {
                // the peer vanishes without RST / FIN and the kernel has no keepalive: nothing is ever reported
                let p = TcpParams::new(TcpMode::Calls);
                out.push(Case { scn: Scenario::new_tcp(1000, 1000, 100, Order::Seq, p), menu: vec![], k: 0, k2_max_dgrams: 0, extra: vec![Action::SeverQuiet], extra_after: 0, sweep: 0, sweep2: 0 });
            }
        }
        _ => panic!("unknown family {}", name),
    }
    out
}

// Scenario grid of C20 (the "configurations" quantifier is enumerated here, never sampled).
//
// family "data"   finite faults (Drop / Dup / Delay) at every datagram index, bound k per scenario:
//                 sizes x read buffer x operation order x MTU
// family "jumbo"  MTU 16 384 and 32 000 (see below)
// family "vanish" one permanent fault at every datagram index: BlackholeFrom(i) = the peer / the path
//                 vanishes at datagram i; Forget(i) = the server forgets every path secret at datagram i
#![allow(dead_code)]
use crate::mccore::Tier;
use crate::net::Action;
use crate::scenario::*;

#[derive(Clone, Debug)]
pub struct Case {
    pub scn: Scenario,
    /// deviation menu (finite faults)
    pub menu: Vec<Action>,
    /// deviation bound
    pub k: usize,
    /// bound k > 1 applies only if the fault-free run has at most this many datagrams (else k = 1)
    pub k2_max_dgrams: usize,
    /// single-deviation extras applied at every index of the fault-free run (permanent faults)
    pub extra: Vec<Action>,
}

pub const FAMILIES: &[&str] = &["data", "vanish", "jumbo"];

pub fn menu() -> Vec<Action> {
    // Dup: the copy arrives 100 us after the original (back to back) ; Delay(3): 1.5 ms instead of
    // 0.5 ms, i.e. after the flight that was sent one RTT later (reordering + spurious loss detection)
    vec![Action::Drop, Action::Dup(100), Action::Delay(3)]
}

/// two deviations are explored on scenarios whose fault-free run has at most this many datagrams
/// (9 * C(n,2) executions: 7 020 at n = 40, 28 440 at n = 80); above that, one deviation
pub const K2_MAX_DGRAMS_QUICK: usize = 40;
pub const K2_MAX_DGRAMS_THOROUGH: usize = 80;
const SIZES: [usize; 4] = [1, 1000, 9000, 40_000];
const RBUFS: [usize; 3] = [1, 100, 65_536];
const ORDERS: [Order; 6] = [Order::Seq, Order::SeqFin, Order::Concurrent, Order::EarlyShutdown, Order::DropWriter, Order::DropReader];
const MTUS: [u16; 4] = [1250, 1500, 9000, 16_000];

pub fn family(name: &str, tier: Tier) -> Vec<Case> {
    let quick = tier == Tier::Quick;
    let mut out = Vec::new();
    match name {
        "data" => {
            if quick {
                // covering subset: every value of every dimension at least once, every order with a small
                // and a multi-packet transfer; k = 2 on the smallest scenarios
                let list: Vec<(usize, usize, usize, Order, u16, usize)> = vec![
                    (1, 1, 1, Order::Seq, 1250, 2),
                    (1000, 1, 100, Order::Seq, 1500, 2),
                    (1, 1000, 65_536, Order::Concurrent, 9000, 2),
                    (1000, 1000, 100, Order::DropWriter, 1250, 2),
                    (1000, 1000, 100, Order::DropReader, 1500, 2),
                    (9000, 1000, 65_536, Order::Seq, 1250, 1),
                    (1000, 9000, 100, Order::Concurrent, 1500, 1),
                    (9000, 9000, 65_536, Order::EarlyShutdown, 9000, 1),
                    (9000, 9000, 100, Order::DropWriter, 1500, 1),
                    (9000, 9000, 65_536, Order::DropReader, 1250, 1),
                    (40_000, 1, 65_536, Order::Seq, 9000, 1),
                    (1, 40_000, 65_536, Order::Concurrent, 1250, 1),
                    (40_000, 40_000, 65_536, Order::EarlyShutdown, 1500, 1),
                    (9000, 40_000, 65_536, Order::Concurrent, 9000, 1),
                    (1000, 1, 1, Order::EarlyShutdown, 1500, 1),
                    (40_000, 9000, 100, Order::DropReader, 9000, 1),
                    (1000, 9000, 65_536, Order::DropWriter, 9000, 2),
                    (40_000, 40_000, 65_536, Order::SeqFin, 1500, 1),
                    (1000, 9000, 100, Order::SeqFin, 1250, 1),
                    (1, 1, 100, Order::SeqFin, 9000, 2),
                    (40_000, 40_000, 100, Order::Concurrent, 16_000, 1),
                    (1000, 1000, 65_536, Order::Concurrent, 1250, 2),
                    (9000, 1, 100, Order::EarlyShutdown, 1500, 2),
                    (1, 9000, 65_536, Order::SeqFin, 1250, 2),
                    (40_000, 9000, 65_536, Order::DropWriter, 16_000, 2),
                    (9000, 40_000, 65_536, Order::DropReader, 1500, 2),
                    (40_000, 40_000, 65_536, Order::Seq, 1250, 2),
                    (1000, 1000, 100, Order::EarlyShutdown, 9000, 2),
                    (9000, 9000, 65_536, Order::SeqFin, 9000, 2),
                ];
                for (req, resp, rbuf, order, mtu, k) in list {
                    // a 1-byte reader of 1000 bytes is ~1000 ACK datagrams per run: quick explores only the
                    // losses there (thorough has the full menu)
                    let m = if rbuf == 1 && req + resp > 2 { vec![Action::Drop] } else { menu() };
                    let _ = k;
                    out.push(Case { scn: Scenario::new(req, resp, rbuf, order, mtu), menu: m, k: 2, k2_max_dgrams: K2_MAX_DGRAMS_QUICK, extra: vec![] });
                }
            } else {
                // full product order x mtu x (req,resp) pairs; the read buffer rotates through its values so
                // that every (order, mtu, rbuf) and every (size, rbuf) combination occurs; rbuf = 1 only
                // with transfers <= 1000 bytes (a 1-byte reader of 40 kB is 40 000 ACK datagrams)
                let pairs: [(usize, usize); 9] = [(1, 1), (1000, 1), (1, 1000), (1000, 9000), (9000, 1000), (40_000, 1000), (9000, 40_000), (9000, 9000), (40_000, 40_000)];
                let mut n = 0usize;
                for order in ORDERS {
                    for mtu in MTUS {
                        for (req, resp) in pairs {
                            let small = req <= 1000 && resp <= 1000;
                            let rbuf = if small { RBUFS[n % 3] } else { RBUFS[1 + n % 2] };
                            n += 1;
                            out.push(Case { scn: Scenario::new(req, resp, rbuf, order, mtu), menu: menu(), k: 2, k2_max_dgrams: K2_MAX_DGRAMS_THOROUGH, extra: vec![] });
                        }
                    }
                }
            }
        }
        "vanish" => {
            let list: Vec<(usize, usize, usize, Order, u16)> = if quick {
                vec![(1, 1, 1, Order::Seq, 1250), (1000, 1000, 100, Order::Seq, 1500), (9000, 9000, 65_536, Order::Concurrent, 1250), (9000, 9000, 100, Order::DropWriter, 1500), (40_000, 1000, 65_536, Order::EarlyShutdown, 9000)]
            } else {
                vec![
                    (1, 1, 1, Order::Seq, 1250),
                    (1000, 1000, 100, Order::Seq, 1500),
                    (9000, 9000, 65_536, Order::Concurrent, 1250),
                    (40_000, 1000, 65_536, Order::Seq, 9000),
                    (1000, 40_000, 100, Order::EarlyShutdown, 1500),
                    (9000, 9000, 100, Order::DropWriter, 1500),
                    (9000, 9000, 65_536, Order::DropReader, 9000),
                    (1000, 1000, 1, Order::Concurrent, 1500),
                    (40_000, 40_000, 65_536, Order::Concurrent, 1250),
                ]
            };
            for (req, resp, rbuf, order, mtu) in list {
                let mut scn = Scenario::new(req, resp, rbuf, order, mtu);
                scn.name = format!("vanish/{}", scn.name);
                out.push(Case { scn, menu: vec![], k: 0, k2_max_dgrams: 0, extra: vec![Action::BlackholeFrom, Action::Forget] });
            }
        }
        // MTUs above 16 383: the property's quantifier goes to 32k. Kept apart from the main grid because
        // the pinned tree fails here before the first datagram (u16 overflow in BBR's minimum_window,
        // see notes/wI.md): the violation then has a stable fingerprint of its own.
        "jumbo" => {
            for mtu in [16_384u16, 32_000] {
                out.push(Case { scn: Scenario::new(1000, 1000, 100, Order::Seq, mtu), menu: menu(), k: 2, k2_max_dgrams: K2_MAX_DGRAMS_QUICK, extra: vec![Action::BlackholeFrom] });
            }
            if !quick {
                out.push(Case { scn: Scenario::new(40_000, 40_000, 65_536, Order::Concurrent, 32_000), menu: menu(), k: 2, k2_max_dgrams: K2_MAX_DGRAMS_THOROUGH, extra: vec![] });
            }
        }
        _ => panic!("unknown family {}", name),
    }
    out
}

// dcmc: stateless deviation-bounded exploration of a real s2n-quic-dc client and server (UDP
// transport) on bach's deterministic executor, with a harness-owned simulated network. Decides C20.
//
//   dcmc run C20 --out <result.json>     master: explores every family (VERIF_TIER=quick|thorough)
//   dcmc worker                          one execution per stdin line (spawned by the master)
//   dcmc replay <replay.json>            re-execute one recorded schedule; exit 1 if it violates
//   dcmc probe / bench ...               development aids
#[path = "../../mccore/mccore.rs"]
pub mod mccore;
mod families;
mod monitors;
mod net;
mod scenario;

use families::Case;
use mccore::*;
use net::{parse_schedule, schedule_string, Schedule};
use scenario::*;
use std::collections::{BTreeMap, HashSet, VecDeque};
use std::io::{BufRead, BufReader, Write};
use std::process::{Child, ChildStdin, ChildStdout, Command, Stdio};
use std::sync::{Arc, Condvar, Mutex};

// ------------------------------------------------------------------------------------------
// one job = one execution
// ------------------------------------------------------------------------------------------

#[derive(Clone, Debug)]
struct Job {
    family: String,
    case: usize,
    schedule: Schedule,
    /// Some(hash) = this is a determinism re-run that must reproduce the hash
    verify: Option<String>,
}

#[derive(Clone, Debug, Default)]
struct JobResult {
    n_dgrams: usize,
    hash: String,
    outcome: String,
    violations: Vec<(String, String)>,
    crashed: bool,
    hung: bool,
    panicked: bool,
    end_t: u64,
}

/// Everything the execution exposed, except datagram *contents*: the path secret is drawn from the
/// OS RNG by the repository's test helper (`Map::test_insert_pair`), so ciphertext differs between
/// runs while sizes, times, addresses and every application-visible result do not. The action labels
/// are left out too: two schedules with the same observable behaviour have the same hash, so the
/// number of distinct hashes counts distinct behaviours (vacuity counter).
fn trace_hash(r: &Record) -> u128 {
    let mut s = String::new();
    for d in &r.dgrams {
        s.push_str(&format!("d{},{},{},{},{};", d.idx, d.t, d.src, d.dst, d.len));
    }
    for a in &r.app {
        s.push_str(&format!("a{},{},{},{:?};", a.t, a.side, a.half, a.ev));
    }
    s.push_str(&format!("p{:?}", r.panicked.as_ref().map(|p| p.lines().next().unwrap_or("").to_string())));
    key128(&s)
}

fn run_job(cases: &BTreeMap<String, Vec<Case>>, job: &Job) -> JobResult {
    let case = &cases[&job.family][job.case];
    let r = execute(&case.scn, &job.schedule);
    let violations = monitors::check(&case.scn, &job.schedule, &r);
    JobResult { n_dgrams: r.dgrams.len(), hash: format!("{:032x}", trace_hash(&r)), outcome: monitors::outcome_class(&r), violations, crashed: false, hung: false, panicked: r.panicked.is_some(), end_t: r.end_t }
}

fn result_to_json(r: &JobResult) -> Json {
    Json::obj()
        .set("n", r.n_dgrams)
        .set("hash", r.hash.as_str())
        .set("outcome", r.outcome.as_str())
        .set("end_t", r.end_t)
        .set("panicked", r.panicked)
        .set("violations", Json::Arr(r.violations.iter().map(|(c, d)| Json::obj().set("clause", c.as_str()).set("detail", d.as_str())).collect()))
}

fn result_from_json(j: &Json) -> JobResult {
    JobResult {
        n_dgrams: j.get("n").and_then(|x| x.as_i128()).unwrap_or(0) as usize,
        hash: j.get("hash").and_then(|x| x.as_str()).unwrap_or("").to_string(),
        outcome: j.get("outcome").and_then(|x| x.as_str()).unwrap_or("").to_string(),
        end_t: j.get("end_t").and_then(|x| x.as_i128()).unwrap_or(0) as u64,
        panicked: matches!(j.get("panicked"), Some(Json::Bool(true))),
        violations: j.get("violations").and_then(|x| x.as_arr()).map(|a| a.iter().map(|v| (v.get("clause").and_then(|x| x.as_str()).unwrap_or("").to_string(), v.get("detail").and_then(|x| x.as_str()).unwrap_or("").to_string())).collect()).unwrap_or_default(),
        crashed: false,
        hung: false,
    }
}

fn load_cases(tier: Tier) -> BTreeMap<String, Vec<Case>> {
    families::FAMILIES.iter().map(|f| (f.to_string(), families::family(f, tier))).collect()
}

// ------------------------------------------------------------------------------------------
// worker
// ------------------------------------------------------------------------------------------

fn worker_main() {
    install_panic_hook();
    let tier = Tier::from_env();
    let stdin = std::io::stdin();
    let stdout = std::io::stdout();
    let cases = load_cases(tier);
    for line in stdin.lock().lines() {
        let Ok(line) = line else { break };
        let parts: Vec<&str> = line.split('\t').collect();
        if parts.len() < 3 {
            continue;
        }
        let job = Job { family: parts[0].to_string(), case: parts[1].parse().unwrap(), schedule: parse_schedule(parts[2]).expect("schedule"), verify: None };
        let res = run_job(&cases, &job);
        let mut o = stdout.lock();
        let _ = writeln!(o, "{}", result_to_json(&res).to_string());
        let _ = o.flush();
        if res.panicked {
            // a panic inside the simulation leaves thread-local state of bach / the testing helpers
            // behind: this process is done, the master starts a fresh one
            std::process::exit(0);
        }
    }
}

struct Worker {
    child: Child,
    stdin: ChildStdin,
    /// lines of the worker's stdout, forwarded by a reader thread so that the master can give up on an
    /// execution that never returns
    rx: std::sync::mpsc::Receiver<String>,
}

enum RunOutcome {
    Done(JobResult),
    /// the worker process died
    Crashed,
    /// no answer within the wall-clock guard
    Hung,
}

/// Wall-clock guard per execution. Virtual time cannot catch a loop that never yields to the executor
/// (time does not advance inside one poll); a fault-free execution takes ~10 ms, the guard is 4 orders
/// of magnitude above that.
fn exec_wall_guard() -> std::time::Duration {
    std::time::Duration::from_secs(std::env::var("DCMC_EXEC_WALL_S").ok().and_then(|s| s.parse().ok()).unwrap_or(300))
}

fn spawn_worker() -> Worker {
    let exe = std::env::current_exe().expect("current exe");
    let mut child = Command::new(exe).arg("worker").stdin(Stdio::piped()).stdout(Stdio::piped()).stderr(Stdio::null()).spawn().expect("spawn worker");
    let stdin = child.stdin.take().unwrap();
    let stdout: ChildStdout = child.stdout.take().unwrap();
    let (tx, rx) = std::sync::mpsc::channel();
    std::thread::spawn(move || {
        for line in BufReader::new(stdout).lines() {
            let Ok(line) = line else { break };
            if tx.send(line).is_err() {
                break;
            }
        }
    });
    Worker { child, stdin, rx }
}

impl Worker {
    fn run(&mut self, job: &Job) -> RunOutcome {
        let line = format!("{}\t{}\t{}\n", job.family, job.case, schedule_string(&job.schedule));
        if self.stdin.write_all(line.as_bytes()).is_err() || self.stdin.flush().is_err() {
            return RunOutcome::Crashed;
        }
        let deadline = std::time::Instant::now() + exec_wall_guard();
        loop {
            let left = deadline.saturating_duration_since(std::time::Instant::now());
            match self.rx.recv_timeout(left) {
                Ok(out) => {
                    // anything that is not a result line (stray output of a library) is skipped
                    if let Ok(j) = Json::parse(out.trim()) {
                        if j.get("hash").is_some() {
                            return RunOutcome::Done(result_from_json(&j));
                        }
                    }
                }
                Err(std::sync::mpsc::RecvTimeoutError::Timeout) => return RunOutcome::Hung,
                Err(std::sync::mpsc::RecvTimeoutError::Disconnected) => return RunOutcome::Crashed,
            }
        }
    }
    fn kill(&mut self) {
        let _ = self.child.kill();
        let _ = self.child.wait();
    }
}

// ------------------------------------------------------------------------------------------
// master: iterative deviation bounding
// ------------------------------------------------------------------------------------------

#[derive(Default, Clone, Debug)]
struct PerCase {
    executions: u64,
    decisions: u64,
    max_k: usize,
    baseline_dgrams: usize,
}

struct Shared {
    queue: VecDeque<Job>,
    in_flight: usize,
    done: bool,
    executions: u64,
    transitions: u64,
    hashes: HashSet<String>,
    outcomes: HashSet<String>,
    per_case: BTreeMap<(String, usize), PerCase>,
    violations: Vec<(Job, String, String)>,
    machinery: Vec<String>,
    samples: Vec<Json>,
    verify_counter: u64,
    verified: u64,
    deadline: std::time::Instant,
    capped: bool,
}

fn children(case: &Case, parent: &Job, n_dgrams: usize, baseline: usize) -> Vec<Job> {
    let k = if baseline <= case.k2_max_dgrams { case.k } else { case.k.min(1) };
    let mut out = Vec::new();
    let depth = parent.schedule.len();
    let start = parent.schedule.last().map(|(i, _)| *i + 1).unwrap_or(0);
    if parent.schedule.iter().any(|(_, a)| a.is_permanent()) {
        return out;
    }
    for i in start..n_dgrams as u32 {
        if depth < k {
            for a in &case.menu {
                let mut s = parent.schedule.clone();
                s.push((i, a.clone()));
                out.push(Job { family: parent.family.clone(), case: parent.case, schedule: s, verify: None });
            }
        }
        if depth == 0 {
            for a in &case.extra {
                let mut s = parent.schedule.clone();
                s.push((i, a.clone()));
                out.push(Job { family: parent.family.clone(), case: parent.case, schedule: s, verify: None });
            }
        }
    }
    out
}

fn master(property: &str, out_path: &str) {
    if property != "C20" {
        eprintln!("dcmc: serves C20 only (asked for {})", property);
        std::process::exit(2);
    }
    let tier = Tier::from_env();
    let cases = Arc::new(load_cases(tier));
    let wall: f64 = std::env::var("DCMC_WALL_S").ok().and_then(|s| s.parse().ok()).unwrap_or(tier.pick(150.0, 900.0));
    let t0 = std::time::Instant::now();
    let mut queue = VecDeque::new();
    for (fam, cs) in cases.iter() {
        for (i, _) in cs.iter().enumerate() {
            queue.push_back(Job { family: fam.clone(), case: i, schedule: vec![], verify: None });
        }
    }
    let shared = Arc::new((
        Mutex::new(Shared {
            queue,
            in_flight: 0,
            done: false,
            executions: 0,
            transitions: 0,
            hashes: HashSet::new(),
            outcomes: HashSet::new(),
            per_case: BTreeMap::new(),
            violations: Vec::new(),
            machinery: Vec::new(),
            samples: Vec::new(),
            verify_counter: 0,
            verified: 0,
            deadline: t0 + std::time::Duration::from_secs_f64(wall),
            capped: false,
        }),
        Condvar::new(),
    ));
    let nthreads = default_threads();
    std::thread::scope(|scope| {
        for _ in 0..nthreads {
            let shared = shared.clone();
            let cases = cases.clone();
            scope.spawn(move || {
                let mut worker = spawn_worker();
                loop {
                    let job = {
                        let (m, cv) = &*shared;
                        let mut g = m.lock().unwrap();
                        loop {
                            if g.done {
                                break None;
                            }
                            if std::time::Instant::now() > g.deadline && !g.queue.is_empty() {
                                g.capped = true;
                                g.queue.clear();
                            }
                            if let Some(j) = g.queue.pop_front() {
                                g.in_flight += 1;
                                break Some(j);
                            }
                            if g.in_flight == 0 {
                                g.done = true;
                                cv.notify_all();
                                break None;
                            }
                            g = cv.wait(g).unwrap();
                        }
                    };
                    let Some(job) = job else { break };
                    let res = match worker.run(&job) {
                        RunOutcome::Done(r) => {
                            if r.panicked {
                                // the worker exits after a panicking execution
                                worker.kill();
                                worker = spawn_worker();
                            }
                            r
                        }
                        RunOutcome::Crashed => {
                            worker.kill();
                            worker = spawn_worker();
                            JobResult { crashed: true, ..Default::default() }
                        }
                        RunOutcome::Hung => {
                            worker.kill();
                            worker = spawn_worker();
                            JobResult { hung: true, ..Default::default() }
                        }
                    };
                    let (m, cv) = &*shared;
                    let mut g = m.lock().unwrap();
                    g.in_flight -= 1;
                    let case = &cases[&job.family][job.case];
                    if res.crashed {
                        g.violations.push((job.clone(), "exec.abort".into(), format!("scenario {} schedule [{}]: the execution aborted the worker process (abort / double panic / stack overflow inside the endpoints)", case.scn.name, schedule_string(&job.schedule))));
                    } else if res.hung {
                        g.violations.push((job.clone(), "exec.hang".into(), format!("scenario {} schedule [{}]: the execution did not return within the wall-clock guard of {} s (a loop inside the endpoints that never yields to the executor, so virtual time cannot advance)", case.scn.name, schedule_string(&job.schedule), exec_wall_guard().as_secs())));
                    } else if let Some(expected) = &job.verify {
                        g.verified += 1;
                        if *expected != res.hash {
                            g.machinery.push(format!("nondeterminism: {} case {} schedule [{}] gave trace {} then {}", job.family, job.case, schedule_string(&job.schedule), expected, res.hash));
                        }
                    } else {
                        g.executions += 1;
                        g.transitions += res.n_dgrams as u64;
                        g.hashes.insert(res.hash.clone());
                        g.outcomes.insert(res.outcome.clone());
                        let pc = g.per_case.entry((job.family.clone(), job.case)).or_default();
                        pc.executions += 1;
                        pc.decisions += res.n_dgrams as u64;
                        pc.max_k = pc.max_k.max(job.schedule.len());
                        if job.schedule.is_empty() {
                            pc.baseline_dgrams = res.n_dgrams;
                        }
                        g.verify_counter += 1;
                        let verify = g.verify_counter % 97 == 1 || !res.violations.is_empty();
                        if verify {
                            let mut vj = job.clone();
                            vj.verify = Some(res.hash.clone());
                            g.queue.push_back(vj);
                        }
                        if g.samples.len() < 12 && (job.schedule.len() == case.k.max(1) || g.samples.len() < 3) {
                            g.samples.push(Json::obj().set("family", job.family.as_str()).set("scenario", case.scn.name.as_str()).set("schedule", schedule_string(&job.schedule)).set("datagrams", res.n_dgrams).set("outcome", res.outcome.as_str()));
                        }
                        for (c, d) in &res.violations {
                            g.violations.push((job.clone(), c.clone(), d.clone()));
                        }
                        if !g.capped {
                            let baseline = g.per_case.get(&(job.family.clone(), job.case)).map(|p| p.baseline_dgrams).unwrap_or(usize::MAX);
                            for ch in children(case, &job, res.n_dgrams, baseline) {
                                g.queue.push_back(ch);
                            }
                        }
                    }
                    cv.notify_all();
                }
                worker.kill();
            });
        }
    });
    let g = shared.0.lock().unwrap();
    let mut rep = Report::new("dcmc", &format!("{}[{}]", property, families::FAMILIES.join("+")));
    rep.states = g.executions;
    rep.transitions = g.transitions;
    rep.executions = g.executions;
    rep.distinct_outcomes = g.hashes.len() as u64;
    rep.max_depth = g.per_case.values().map(|x| x.max_k as u64).max().unwrap_or(0);
    rep.exhaustive = !g.capped;
    if g.capped {
        rep.cap_hit = Some(format!("wall cap {:.0}s hit; the queue was cut (per-scenario executions in x_cases show what was completed)", wall));
    }
    rep.completed_bound = Some("per scenario deviation bound k as listed in x_cases (every datagram index x {Drop,Dup,Delay} up to k deviations; vanish: BlackholeFrom and Forget at every index)".into());
    rep.samples = g.samples.clone();
    let mut case_list = Vec::new();
    for (fam, cs) in cases.iter() {
        for (i, c) in cs.iter().enumerate() {
            let pc = g.per_case.get(&(fam.clone(), i)).cloned().unwrap_or_default();
            case_list.push(
                Json::obj()
                    .set("family", fam.as_str())
                    .set("scenario", c.scn.name.as_str())
                    .set("k", if pc.baseline_dgrams <= c.k2_max_dgrams { c.k } else { c.k.min(1) })
                    .set("menu", c.menu.iter().map(|a| a.code()).collect::<Vec<_>>())
                    .set("extra", c.extra.iter().map(|a| a.code()).collect::<Vec<_>>())
                    .set("baseline_datagrams", pc.baseline_dgrams)
                    .set("executions", pc.executions)
                    .set("datagram_decisions", pc.decisions)
                    .set("max_k_run", pc.max_k),
            );
        }
    }
    rep.extra.push(("x_cases".into(), Json::Arr(case_list)));
    rep.extra.push(("x_datagram_decisions".into(), Json::Int(g.transitions as i128)));
    rep.extra.push(("x_distinct_trace_hashes".into(), Json::Int(g.hashes.len() as i128)));
    rep.extra.push(("x_distinct_outcome_classes".into(), Json::Int(g.outcomes.len() as i128)));
    rep.extra.push(("x_determinism_reruns".into(), Json::Int(g.verified as i128)));
    rep.extra.push(("x_not_covered".into(), Json::Str("TCP transport: bach has no TCP, the dc TCP path needs real tokio sockets and OS threads".into())));
    // shortest schedule first, one violation per (scenario, clause)
    let mut vs = g.violations.clone();
    vs.sort_by_key(|(j, c, _)| (j.schedule.len(), j.family.clone(), j.case, c.clone(), schedule_string(&j.schedule)));
    let mut seen = HashSet::new();
    for (job, clause, detail) in vs {
        let case = &cases[&job.family][job.case];
        if !seen.insert((job.family.clone(), job.case, clause.clone())) {
            continue;
        }
        let sched = schedule_string(&job.schedule);
        let mut v = Violation::new(&clause, detail.clone());
        v.fingerprint = format!("dcmc|{}|{}|{}|[{}]", job.family, case.scn.name, clause, sched);
        v.replay = Json::obj()
            .set("engine", "dcmc")
            .set("family", job.family.as_str())
            .set("case", job.case)
            .set("scenario", case.scn.describe())
            .set("schedule", sched)
            .set("tier", if tier == Tier::Quick { "quick" } else { "thorough" })
            .set("clause", clause.as_str())
            .set("detail", detail.as_str());
        rep.violations.push(v);
        if rep.violations.len() >= 24 {
            break;
        }
    }
    for m in g.machinery.iter().take(3) {
        rep.violations.push(Violation::new("machinery.nondeterminism", m.clone()));
    }
    rep.wall_s = t0.elapsed().as_secs_f64();
    let mut out = Output::new();
    out.push(rep);
    out.write(out_path);
}

fn scenario_from_json(j: &Json) -> Option<Scenario> {
    let g = |k: &str| j.get(k).and_then(|x| x.as_i128());
    let order = match j.get("order")?.as_str()? {
        "seq" => Order::Seq,
        "seqfin" => Order::SeqFin,
        "conc" => Order::Concurrent,
        "earlyshut" => Order::EarlyShutdown,
        "dropw" => Order::DropWriter,
        "dropr" => Order::DropReader,
        _ => return None,
    };
    let mut s = Scenario::new(g("request_bytes")? as usize, g("response_bytes")? as usize, g("read_buffer")? as usize, order, g("client_mtu")? as u16);
    s.server_mtu = g("server_mtu")? as u16;
    s.horizon_ms = g("horizon_ms")? as u64;
    s.name = j.get("name")?.as_str()?.to_string();
    Some(s)
}

fn replay_main(path: &str) {
    install_panic_hook();
    let text = std::fs::read_to_string(path).expect("read replay file");
    let j = Json::parse(&text).expect("parse replay file");
    // the replay file carries the whole scenario: it does not depend on the tier's grid
    let scn = scenario_from_json(j.get("scenario").expect("scenario")).expect("scenario fields");
    let sched_s = j.get("schedule").and_then(|x| x.as_str()).unwrap_or("");
    let schedule = parse_schedule(sched_s).expect("schedule");
    let r = execute(&scn, &schedule);
    let violations = monitors::check(&scn, &schedule, &r);
    println!("replay: scenario {} schedule [{}] datagrams {} outcome {} trace {:032x}", scn.name, sched_s, r.dgrams.len(), monitors::outcome_class(&r), trace_hash(&r));
    if violations.is_empty() {
        println!("replay: no violation");
    } else {
        for (c, d) in &violations {
            println!("replay: VIOLATED {}: {}", c, d);
        }
        std::process::exit(1);
    }
}

fn parse_order(s: &str) -> Order {
    match s {
        "seq" => Order::Seq,
        "seqfin" => Order::SeqFin,
        "conc" => Order::Concurrent,
        "earlyshut" => Order::EarlyShutdown,
        "dropw" => Order::DropWriter,
        _ => Order::DropReader,
    }
}

fn main() {
    // the repository's testing helpers install a tracing subscriber filtered by S2N_LOG (default DEBUG)
    if std::env::var("S2N_LOG").is_err() {
        std::env::set_var("S2N_LOG", "off");
    }
    let args: Vec<String> = std::env::args().skip(1).collect();
    match args.first().map(|s| s.as_str()) {
        Some("worker") => worker_main(),
        Some("run") => {
            let prop = args.get(1).expect("property id");
            let out = args.iter().position(|a| a == "--out").and_then(|i| args.get(i + 1)).expect("--out");
            master(prop, out);
        }
        Some("replay") => replay_main(&args[1]),
        Some("list") => {
            for f in families::FAMILIES {
                for (i, c) in families::family(f, Tier::from_env()).iter().enumerate() {
                    println!("{} {} {} k={} extra={:?}", f, i, c.scn.name, c.k, c.extra.iter().map(|a| a.code()).collect::<Vec<_>>());
                }
            }
        }
        Some("probe") | Some("bench") => {
            // dcmc probe <req> <resp> <rbuf> <order> <mtu> [schedule]
            let req: usize = args[1].parse().unwrap();
            let resp: usize = args[2].parse().unwrap();
            let rbuf: usize = args[3].parse().unwrap();
            let order = parse_order(&args[4]);
            let mtu: u16 = args[5].parse().unwrap();
            let sched = args.get(6).and_then(|s| parse_schedule(s)).unwrap_or_default();
            let scn = Scenario::new(req, resp, rbuf, order, mtu);
            if args[0] == "bench" {
                let t0 = std::time::Instant::now();
                let mut n = 0;
                let mut h = 0;
                for _ in 0..20 {
                    let r = execute(&scn, &sched);
                    n = r.dgrams.len();
                    h = trace_hash(&r);
                }
                println!("{}: {:?} per execution, {} datagrams, trace {:032x}", scn.name, t0.elapsed() / 20, n, h);
                return;
            }
            if std::env::var("DCMC_LOUD_PANIC").is_err() {
                install_panic_hook();
            }
            let t0 = std::time::Instant::now();
            let r = execute(&scn, &sched);
            println!("{} [{}]: wall {:?} dgrams={} app={} end_t={}us panicked={:?} maxlen={} trace={:032x} outcome={}", scn.name, schedule_string(&sched), t0.elapsed(), r.dgrams.len(), r.app.len(), r.end_t, r.panicked.as_ref().map(|p| p.lines().take(4).collect::<Vec<_>>().join(" | ")), r.max_dgram_len, trace_hash(&r), monitors::outcome_class(&r));
            let verbose = std::env::var("DCMC_VERBOSE").is_ok();
            if verbose {
                for d in &r.dgrams {
                    println!("  #{} t={} {}->{} len={} act={}", d.idx, d.t, d.src, d.dst, d.len, d.action);
                }
            }
            for a in &r.app {
                if verbose || !matches!(a.ev, Ev::Read { bad: None, .. } | Ev::Write { .. }) {
                    println!("  app t={} side={} {} {:?}", a.t, a.side, a.half, a.ev);
                }
            }
            for (c, d) in monitors::check(&scn, &sched, &r) {
                println!("  VIOLATION {}: {}", c, d);
            }
        }
        _ => {
            eprintln!("usage: dcmc run C20 --out f | worker | replay f | list | probe req resp rbuf order mtu [sched] | bench ...");
            std::process::exit(2);
        }
    }
}

// dcmc: stateless deviation-bounded exploration of a real s2n-quic-dc client and server on bach's
// deterministic executor: UDP transport over a harness-owned simulated network (families data,
// vanish, jumbo) and TCP transport over a harness-owned in-memory connection (family tcp). Decides C20.
//
//   dcmc run C20 --out <result.json>     master: explores every family (VERIF_TIER=quick|thorough)
//   dcmc worker                          one execution per stdin line (spawned by the master)
//   dcmc replay <replay.json>            re-execute one recorded schedule; exit 1 if it violates
//   dcmc probe / bench ...               development aids
#[path = "../../mccore/mccore.rs"]
pub mod mccore;
mod families;
mod monitors;
mod net;
mod scenario;
mod tcp;

use families::Case;
use mccore::*;
use net::{parse_schedule, schedule_string, Action, Schedule};
use scenario::*;
use std::collections::{BTreeMap, HashSet, VecDeque};
use std::io::{BufRead, BufReader, Write};
use std::process::{Child, ChildStdin, ChildStdout, Command, Stdio};
use std::sync::{Arc, Condvar, Mutex};

// ------------------------------------------------------------------------------------------
// one job = one execution
// ------------------------------------------------------------------------------------------

#[derive(Clone, Debug)]
struct Job {
    family: String,
    case: usize,
    schedule: Schedule,
    /// Some(hash) = this is a determinism re-run that must reproduce the hash
    verify: Option<String>,
}

#[derive(Clone, Debug, Default)]
struct JobResult {
    n_dgrams: usize,
    hash: String,
    outcome: String,
    violations: Vec<(String, String)>,
    crashed: bool,
    hung: bool,
    panicked: bool,
    end_t: u64,
    /// tcp family: wire bytes per direction and dc packet boundaries (where the split / cut sweeps go)
    lens: [u64; 2],
    bounds: [Vec<u64>; 2],
}

/// Everything the execution exposed, except datagram *contents*: the path secret is drawn from the
/// OS RNG by the repository's test helper (`Map::test_insert_pair`), so ciphertext differs between
/// runs while sizes, times, addresses and every application-visible result do not. The action labels
/// are left out too: two schedules with the same observable behaviour have the same hash, so the
/// number of distinct hashes counts distinct behaviours (vacuity counter).
fn trace_hash(r: &Record, garbled: bool) -> u128 {
    let mut s = String::new();
    // Executions with garbled copies: how many of the replies a garbled datagram provokes
    // (UnknownPathSecret / StaleKey control packets) actually leave depends on state keyed by the
    // per-run random credentials inside the map, so the datagram log differs by a few entries between
    // runs; what the applications observe (below) does not, and that is what is compared.
    for d in r.dgrams.iter().filter(|_| !garbled) {
        s.push_str(&format!("d{},{},{},{},{};", d.idx, d.t, d.src, d.dst, d.len));
    }
    for c in &r.calls {
        s.push_str(&format!("c{},{},{},{},{},{};", c.idx, c.t, c.side, c.op, c.asked, c.got));
    }
    for a in &r.app {
        s.push_str(&format!("a{},{},{},{:?};", a.t, a.side, a.half, a.ev));
    }
    s.push_str(&format!("p{:?}", r.panicked.as_ref().map(|p| p.lines().next().unwrap_or("").to_string())));
    key128(&s)
}

fn run_job(cases: &BTreeMap<String, Vec<Case>>, job: &Job) -> JobResult {
    let case = &cases[&job.family][job.case];
    let r = execute(&case.scn, &job.schedule);
    let violations = monitors::check(&case.scn, &job.schedule, &r);
    let n = if case.scn.tcp.is_some() { r.calls.len() } else { r.dgrams.len() };
    JobResult { lens: r.wire_len, bounds: r.bounds.clone(), n_dgrams: n, hash: format!("{:032x}", trace_hash(&r, job.schedule.iter().any(|(_, a)| *a == Action::Garble))), outcome: monitors::outcome_class(&r), violations, crashed: false, hung: false, panicked: r.panicked.is_some(), end_t: r.end_t }
}

fn result_to_json(r: &JobResult) -> Json {
    Json::obj()
        .set("n", r.n_dgrams)
        .set("hash", r.hash.as_str())
        .set("outcome", r.outcome.as_str())
        .set("end_t", r.end_t)
        .set("panicked", r.panicked)
        .set("l0", r.lens[0])
        .set("l1", r.lens[1])
        .set("b0", Json::Arr(r.bounds[0].iter().map(|x| Json::Int(*x as i128)).collect()))
        .set("b1", Json::Arr(r.bounds[1].iter().map(|x| Json::Int(*x as i128)).collect()))
        .set("violations", Json::Arr(r.violations.iter().map(|(c, d)| Json::obj().set("clause", c.as_str()).set("detail", d.as_str())).collect()))
}

fn result_from_json(j: &Json) -> JobResult {
    JobResult {
        n_dgrams: j.get("n").and_then(|x| x.as_i128()).unwrap_or(0) as usize,
        hash: j.get("hash").and_then(|x| x.as_str()).unwrap_or("").to_string(),
        outcome: j.get("outcome").and_then(|x| x.as_str()).unwrap_or("").to_string(),
        end_t: j.get("end_t").and_then(|x| x.as_i128()).unwrap_or(0) as u64,
        panicked: matches!(j.get("panicked"), Some(Json::Bool(true))),
        violations: j.get("violations").and_then(|x| x.as_arr()).map(|a| a.iter().map(|v| (v.get("clause").and_then(|x| x.as_str()).unwrap_or("").to_string(), v.get("detail").and_then(|x| x.as_str()).unwrap_or("").to_string())).collect()).unwrap_or_default(),
        crashed: false,
        hung: false,
        lens: [j.get("l0").and_then(|x| x.as_i128()).unwrap_or(0) as u64, j.get("l1").and_then(|x| x.as_i128()).unwrap_or(0) as u64],
        bounds: [
            j.get("b0").and_then(|x| x.as_arr()).map(|a| a.iter().filter_map(|v| v.as_i128()).map(|v| v as u64).collect()).unwrap_or_default(),
            j.get("b1").and_then(|x| x.as_arr()).map(|a| a.iter().filter_map(|v| v.as_i128()).map(|v| v as u64).collect()).unwrap_or_default(),
        ],
    }
}

/// DCMC_FAMILIES=tcp,vanish restricts a run to some families (development aid; the result's family
/// string says which ones ran)
fn selected_families() -> Vec<&'static str> {
    match std::env::var("DCMC_FAMILIES") {
        Ok(v) if !v.is_empty() => families::FAMILIES.iter().cloned().filter(|f| v.split(',').any(|x| x == *f)).collect(),
        _ => families::FAMILIES.to_vec(),
    }
}

fn load_cases(tier: Tier) -> BTreeMap<String, Vec<Case>> {
    selected_families().iter().map(|f| (f.to_string(), families::family(f, tier))).collect()
}

// ------------------------------------------------------------------------------------------
// worker
// ------------------------------------------------------------------------------------------

fn worker_main() {
    install_panic_hook();
    let tier = Tier::from_env();
    let stdin = std::io::stdin();
    let stdout = std::io::stdout();
    let cases = load_cases(tier);
    for line in stdin.lock().lines() {
        let Ok(line) = line else { break };
        let parts: Vec<&str> = line.split('\t').collect();
        if parts.len() < 3 {
            continue;
        }
        let job = Job { family: parts[0].to_string(), case: parts[1].parse().unwrap(), schedule: parse_schedule(parts[2]).expect("schedule"), verify: None };
        let res = run_job(&cases, &job);
        let mut o = stdout.lock();
        let _ = writeln!(o, "{}", result_to_json(&res).to_string());
        let _ = o.flush();
        if res.panicked {
            // a panic inside the simulation leaves thread-local state of bach / the testing helpers
            // behind: this process is done, the master starts a fresh one
            std::process::exit(0);
        }
    }
}

struct Worker {
    child: Child,
    stdin: ChildStdin,
    /// lines of the worker's stdout, forwarded by a reader thread so that the master can give up on an
    /// execution that never returns
    rx: std::sync::mpsc::Receiver<String>,
}

enum RunOutcome {
    Done(JobResult),
    /// the worker process died
    Crashed,
    /// no answer within the wall-clock guard
    Hung,
}

/// Wall-clock guard per execution. Virtual time cannot catch a loop that never yields to the executor
/// (time does not advance inside one poll); a fault-free execution takes ~10 ms, the guard is 4 orders
/// of magnitude above that.
fn exec_wall_guard() -> std::time::Duration {
    std::time::Duration::from_secs(std::env::var("DCMC_EXEC_WALL_S").ok().and_then(|s| s.parse().ok()).unwrap_or(300))
}

fn spawn_worker() -> Worker {
    let exe = std::env::current_exe().expect("current exe");
    let mut child = Command::new(exe).arg("worker").stdin(Stdio::piped()).stdout(Stdio::piped()).stderr(Stdio::null()).spawn().expect("spawn worker");
    let stdin = child.stdin.take().unwrap();
    let stdout: ChildStdout = child.stdout.take().unwrap();
    let (tx, rx) = std::sync::mpsc::channel();
    std::thread::spawn(move || {
        for line in BufReader::new(stdout).lines() {
            let Ok(line) = line else { break };
            if tx.send(line).is_err() {
                break;
            }
        }
    });
    Worker { child, stdin, rx }
}

impl Worker {
    fn run(&mut self, job: &Job) -> RunOutcome {
        let line = format!("{}\t{}\t{}\n", job.family, job.case, schedule_string(&job.schedule));
        if self.stdin.write_all(line.as_bytes()).is_err() || self.stdin.flush().is_err() {
            return RunOutcome::Crashed;
        }
        let deadline = std::time::Instant::now() + exec_wall_guard();
        loop {
            let left = deadline.saturating_duration_since(std::time::Instant::now());
            match self.rx.recv_timeout(left) {
                Ok(out) => {
                    // anything that is not a result line (stray output of a library) is skipped
                    if let Ok(j) = Json::parse(out.trim()) {
                        if j.get("hash").is_some() {
                            return RunOutcome::Done(result_from_json(&j));
                        }
                    }
                }
                Err(std::sync::mpsc::RecvTimeoutError::Timeout) => return RunOutcome::Hung,
                Err(std::sync::mpsc::RecvTimeoutError::Disconnected) => return RunOutcome::Crashed,
            }
        }
    }
    fn kill(&mut self) {
        let _ = self.child.kill();
        let _ = self.child.wait();
    }
}

// ------------------------------------------------------------------------------------------
// master: iterative deviation bounding
// ------------------------------------------------------------------------------------------

#[derive(Default, Clone, Debug)]
struct PerCase {
    executions: u64,
    decisions: u64,
    max_k: usize,
    baseline_dgrams: usize,
}

struct Shared {
    queue: VecDeque<Job>,
    in_flight: usize,
    done: bool,
    executions: u64,
    transitions: u64,
    hashes: HashSet<String>,
    outcomes: HashSet<String>,
    per_case: BTreeMap<(String, usize), PerCase>,
    violations: Vec<(Job, String, String)>,
    machinery: Vec<String>,
    samples: Vec<Json>,
    verify_counter: u64,
    verified: u64,
    deadline: std::time::Instant,
    capped: bool,
}

/// tcp "bytes" mode: the wire offsets of one direction a deviation is tried at
fn bytes_offsets(len: u64, bounds: &[u64], sweep: usize, around: u64, tail: bool) -> Vec<u64> {
    let mut set = std::collections::BTreeSet::new();
    if sweep == usize::MAX || sweep as u64 >= len {
        set.extend(0..=len);
    } else {
        set.extend(0..=(sweep as u64).min(len));
        if tail {
            set.extend(len.saturating_sub(sweep as u64 / 4)..=len);
        }
        for b in bounds {
            set.extend(b.saturating_sub(around)..=(*b + around).min(len));
        }
        // the stream's receive buffer is a 64 KiB ring (msg::recv::Message): where it wraps
        let mut m = 65_536u64;
        while m <= len {
            set.extend(m - around..=(m + around).min(len));
            m += 65_536;
        }
    }
    set.into_iter().collect()
}

/// tcp "bytes" mode: the index of a deviation is a byte offset of one direction's wire stream
fn children_bytes(case: &Case, parent: &Job, res: &JobResult) -> Vec<Job> {
    let mut out = Vec::new();
    if parent.schedule.iter().any(|(_, a)| a.is_permanent()) {
        return out;
    }
    let depth = parent.schedule.len();
    let last = parent.schedule.last().cloned();
    let mk = |i: u64, a: &Action| {
        let mut s = parent.schedule.clone();
        s.push((i as u32, a.clone()));
        Job { family: parent.family.clone(), case: parent.case, schedule: s, verify: None }
    };
    if depth < case.k {
        for a in &case.menu {
            let d = a.dir().unwrap_or(0) as usize;
            let len = res.lens[d];
            let (sweep, around) = if depth == 0 { (case.sweep, 2) } else { (case.sweep2, 1) };
            if sweep == 0 {
                continue;
            }
            for o in bytes_offsets(len, &res.bounds[d], sweep, around, depth == 0) {
                // a boundary at 0 or at the end of the stream is no boundary
                if o == 0 || o >= len {
                    continue;
                }
                if let Some((li, la)) = &last {
                    if (o as u32, a) <= (*li, la) {
                        continue;
                    }
                }
                out.push(mk(o, a));
            }
        }
    }
    if depth == 0 {
        for a in &case.extra {
            let d = a.dir().unwrap_or(0) as usize;
            let len = res.lens[d];
            for o in bytes_offsets(len, &res.bounds[d], case.sweep, 2, true) {
                out.push(mk(o, a));
            }
        }
    }
    out
}

fn children(case: &Case, parent: &Job, n_dgrams: usize, baseline: usize) -> Vec<Job> {
    let k = if baseline <= case.k2_max_dgrams { case.k } else { case.k.min(1) };
    let mut out = Vec::new();
    let depth = parent.schedule.len();
    let start = parent.schedule.last().map(|(i, _)| *i + 1).unwrap_or(0);
    if parent.schedule.iter().any(|(_, a)| a.is_permanent()) {
        return out;
    }
    for i in start..n_dgrams as u32 {
        if depth < k {
            for a in &case.menu {
                let mut s = parent.schedule.clone();
                s.push((i, a.clone()));
                out.push(Job { family: parent.family.clone(), case: parent.case, schedule: s, verify: None });
            }
        }
        if depth <= case.extra_after {
            for a in &case.extra {
                let mut s = parent.schedule.clone();
                s.push((i, a.clone()));
                out.push(Job { family: parent.family.clone(), case: parent.case, schedule: s, verify: None });
            }
        }
    }
    out
}

fn master(property: &str, out_path: &str) {
    // C20 runs every family; C18 (only authenticated packets are acted upon) runs the garble family
    if property == "C18" {
        if std::env::var("DCMC_FAMILIES").is_err() {
            std::env::set_var("DCMC_FAMILIES", "garble"); // inherited by the worker processes
        }
    } else if property != "C20" {
        eprintln!("dcmc: serves C20 and C18 only (asked for {})", property);
        std::process::exit(2);
    }
    let tier = Tier::from_env();
    let cases = Arc::new(load_cases(tier));
    let wall: f64 = std::env::var("DCMC_WALL_S").ok().and_then(|s| s.parse().ok()).unwrap_or(tier.pick(240.0, 1500.0));
    let t0 = std::time::Instant::now();
    let mut queue = VecDeque::new();
    for (fam, cs) in cases.iter() {
        for (i, _) in cs.iter().enumerate() {
            queue.push_back(Job { family: fam.clone(), case: i, schedule: vec![], verify: None });
        }
    }
    let shared = Arc::new((
        Mutex::new(Shared {
            queue,
            in_flight: 0,
            done: false,
            executions: 0,
            transitions: 0,
            hashes: HashSet::new(),
            outcomes: HashSet::new(),
            per_case: BTreeMap::new(),
            violations: Vec::new(),
            machinery: Vec::new(),
            samples: Vec::new(),
            verify_counter: 0,
            verified: 0,
            deadline: t0 + std::time::Duration::from_secs_f64(wall),
            capped: false,
        }),
        Condvar::new(),
    ));
    let nthreads = default_threads();
    std::thread::scope(|scope| {
        for _ in 0..nthreads {
            let shared = shared.clone();
            let cases = cases.clone();
            scope.spawn(move || {
                let mut worker = spawn_worker();
                loop {
                    let job = {
                        let (m, cv) = &*shared;
                        let mut g = m.lock().unwrap();
                        loop {
                            if g.done {
                                break None;
                            }
                            if std::time::Instant::now() > g.deadline && !g.queue.is_empty() {
                                g.capped = true;
                                g.queue.clear();
                            }
                            if let Some(j) = g.queue.pop_front() {
                                g.in_flight += 1;
                                break Some(j);
                            }
                            if g.in_flight == 0 {
                                g.done = true;
                                cv.notify_all();
                                break None;
                            }
                            g = cv.wait(g).unwrap();
                        }
                    };
                    let Some(job) = job else { break };
                    let res = match worker.run(&job) {
                        RunOutcome::Done(r) => {
                            if r.panicked {
                                // the worker exits after a panicking execution
                                worker.kill();
                                worker = spawn_worker();
                            }
                            r
                        }
                        RunOutcome::Crashed => {
                            worker.kill();
                            worker = spawn_worker();
                            JobResult { crashed: true, ..Default::default() }
                        }
                        RunOutcome::Hung => {
                            worker.kill();
                            worker = spawn_worker();
                            JobResult { hung: true, ..Default::default() }
                        }
                    };
                    let (m, cv) = &*shared;
                    let mut g = m.lock().unwrap();
                    g.in_flight -= 1;
                    let case = &cases[&job.family][job.case];
                    if res.crashed {
                        g.violations.push((job.clone(), "exec.abort".into(), format!("scenario {} schedule [{}]: the execution aborted the worker process (abort / double panic / stack overflow inside the endpoints)", case.scn.name, schedule_string(&job.schedule))));
                    } else if res.hung {
                        g.violations.push((job.clone(), "exec.hang".into(), format!("scenario {} schedule [{}]: the execution did not return within the wall-clock guard of {} s (a loop inside the endpoints that never yields to the executor, so virtual time cannot advance)", case.scn.name, schedule_string(&job.schedule), exec_wall_guard().as_secs())));
                    } else if let Some(expected) = &job.verify {
                        g.verified += 1;
                        if *expected != res.hash {
                            g.machinery.push(format!("nondeterminism: {} case {} schedule [{}] gave trace {} then {}", job.family, job.case, schedule_string(&job.schedule), expected, res.hash));
                        }
                    } else {
                        g.executions += 1;
                        g.transitions += res.n_dgrams as u64;
                        g.hashes.insert(res.hash.clone());
                        g.outcomes.insert(res.outcome.clone());
                        let pc = g.per_case.entry((job.family.clone(), job.case)).or_default();
                        pc.executions += 1;
                        pc.decisions += res.n_dgrams as u64;
                        pc.max_k = pc.max_k.max(job.schedule.len());
                        if job.schedule.is_empty() {
                            pc.baseline_dgrams = res.n_dgrams;
                        }
                        g.verify_counter += 1;
                        let verify = g.verify_counter % 97 == 1 || !res.violations.is_empty();
                        if verify {
                            let mut vj = job.clone();
                            vj.verify = Some(res.hash.clone());
                            g.queue.push_back(vj);
                        }
                        if g.samples.len() < 12 && (job.schedule.len() == case.k.max(1) || g.samples.len() < 3) {
                            g.samples.push(Json::obj().set("family", job.family.as_str()).set("scenario", case.scn.name.as_str()).set("schedule", schedule_string(&job.schedule)).set("datagrams", res.n_dgrams).set("outcome", res.outcome.as_str()));
                        }
                        for (c, d) in &res.violations {
                            g.violations.push((job.clone(), c.clone(), d.clone()));
                        }
                        if !g.capped {
                            let baseline = g.per_case.get(&(job.family.clone(), job.case)).map(|p| p.baseline_dgrams).unwrap_or(usize::MAX);
                            let chs = if case.scn.tcp.as_ref().map(|p| p.mode == TcpMode::Bytes).unwrap_or(false) { children_bytes(case, &job, &res) } else { children(case, &job, res.n_dgrams, baseline) };
                            for ch in chs {
                                g.queue.push_back(ch);
                            }
                        }
                    }
                    cv.notify_all();
                }
                worker.kill();
            });
        }
    });
    let g = shared.0.lock().unwrap();
    let mut rep = Report::new("dcmc", &format!("{}[{}]", property, selected_families().join("+")));
    rep.states = g.executions;
    rep.transitions = g.transitions;
    rep.executions = g.executions;
    rep.distinct_outcomes = g.hashes.len() as u64;
    rep.max_depth = g.per_case.values().map(|x| x.max_k as u64).max().unwrap_or(0);
    rep.exhaustive = !g.capped;
    if g.capped {
        rep.cap_hit = Some(format!("wall cap {:.0}s hit; the queue was cut (per-scenario executions in x_cases show what was completed)", wall));
    }
    rep.completed_bound = Some("per scenario deviation bound k as listed in x_cases (UDP: every datagram index x {Drop,Dup,Delay} up to k deviations; vanish: BlackholeFrom and Forget at every index; tcp calls mode: every socket call x {One,Half,AllBut1,Pend} up to k, connection closed / reset / secret forgotten at every call; tcp bytes mode: a segment boundary at every swept wire offset of either direction up to k, stream cut by EOF / RST after every swept offset)".into());
    rep.samples = g.samples.clone();
    let mut case_list = Vec::new();
    for (fam, cs) in cases.iter() {
        for (i, c) in cs.iter().enumerate() {
            let pc = g.per_case.get(&(fam.clone(), i)).cloned().unwrap_or_default();
            case_list.push(
                Json::obj()
                    .set("family", fam.as_str())
                    .set("scenario", c.scn.name.as_str())
                    .set("k", if pc.baseline_dgrams <= c.k2_max_dgrams { c.k } else { c.k.min(1) })
                    .set("menu", c.menu.iter().map(|a| a.code()).collect::<Vec<_>>())
                    .set("extra", c.extra.iter().map(|a| a.code()).collect::<Vec<_>>())
                    .set("transport", if c.scn.tcp.is_some() { "tcp" } else { "udp" })
                    .set("baseline_datagrams", pc.baseline_dgrams)
                    .set("executions", pc.executions)
                    .set("datagram_decisions", pc.decisions)
                    .set("max_k_run", pc.max_k),
            );
        }
    }
    rep.extra.push(("x_cases".into(), Json::Arr(case_list)));
    // `transitions` = environment decisions taken: one per datagram (UDP families) or per answerable socket call (tcp)
    let tcp_decisions: u64 = cases.iter().flat_map(|(fam, cs)| cs.iter().enumerate().map(move |(i, c)| (fam.clone(), i, c))).filter(|(_, _, c)| c.scn.tcp.is_some()).map(|(fam, i, _)| g.per_case.get(&(fam, i)).map(|p| p.decisions).unwrap_or(0)).sum();
    let tcp_executions: u64 = cases.iter().flat_map(|(fam, cs)| cs.iter().enumerate().map(move |(i, c)| (fam.clone(), i, c))).filter(|(_, _, c)| c.scn.tcp.is_some()).map(|(fam, i, _)| g.per_case.get(&(fam, i)).map(|p| p.executions).unwrap_or(0)).sum();
    rep.extra.push(("x_datagram_decisions".into(), Json::Int((g.transitions - tcp_decisions) as i128)));
    rep.extra.push(("x_tcp_socket_call_decisions".into(), Json::Int(tcp_decisions as i128)));
    rep.extra.push(("x_tcp_executions".into(), Json::Int(tcp_executions as i128)));
    rep.extra.push(("x_distinct_trace_hashes".into(), Json::Int(g.hashes.len() as i128)));
    rep.extra.push(("x_distinct_outcome_classes".into(), Json::Int(g.outcomes.len() as i128)));
    rep.extra.push(("x_determinism_reruns".into(), Json::Int(g.verified as i128)));
    rep.extra.push(("x_not_covered".into(), Json::Str("TCP: the tokio acceptor task (server::tokio::tcp::{manager,worker}) and the tokio socket glue are replaced by the harness's accept loop and in-memory connection; a TCP peer that vanishes silently (no FIN/RST, no keepalive) is an opt-in probe (DCMC_TCP_EXTRA=silent), see notes/wK.md".into())));
    // shortest schedule first, one violation per (scenario, clause)
    let mut vs = g.violations.clone();
    vs.sort_by_key(|(j, c, _)| (j.schedule.len(), j.family.clone(), j.case, c.clone(), schedule_string(&j.schedule)));
    let mut seen = HashSet::new();
    for (job, clause, detail) in vs {
        let case = &cases[&job.family][job.case];
        if !seen.insert((job.family.clone(), job.case, clause.clone())) {
            continue;
        }
        let sched = schedule_string(&job.schedule);
        let mut v = Violation::new(&clause, detail.clone());
        v.fingerprint = format!("dcmc|{}|{}|{}|[{}]", job.family, case.scn.name, clause, sched);
        v.replay = Json::obj()
            .set("engine", "dcmc")
            .set("family", job.family.as_str())
            .set("case", job.case)
            .set("scenario", case.scn.describe())
            .set("schedule", sched)
            .set("tier", if tier == Tier::Quick { "quick" } else { "thorough" })
            .set("clause", clause.as_str())
            .set("detail", detail.as_str());
        rep.violations.push(v);
        if rep.violations.len() >= 24 {
            break;
        }
    }
    for m in g.machinery.iter().take(3) {
        rep.violations.push(Violation::new("machinery.nondeterminism", m.clone()));
    }
    rep.wall_s = t0.elapsed().as_secs_f64();
    let mut out = Output::new();
    out.push(rep);
    out.write(out_path);
}

fn scenario_from_json(j: &Json) -> Option<Scenario> {
    let g = |k: &str| j.get(k).and_then(|x| x.as_i128());
    let order = match j.get("order")?.as_str()? {
        "seq" => Order::Seq,
        "seqfin" => Order::SeqFin,
        "conc" => Order::Concurrent,
        "earlyshut" => Order::EarlyShutdown,
        "dropw" => Order::DropWriter,
        "dropr" => Order::DropReader,
        _ => return None,
    };
    let mut s = Scenario::new(g("request_bytes")? as usize, g("response_bytes")? as usize, g("read_buffer")? as usize, order, g("client_mtu")? as u16);
    s.server_mtu = g("server_mtu")? as u16;
    s.horizon_ms = g("horizon_ms")? as u64;
    if j.get("transport").and_then(|x| x.as_str()) == Some("tcp") {
        let mode = if j.get("tcp_mode")?.as_str()? == "calls" { TcpMode::Calls } else { TcpMode::Bytes };
        let chunk = |k: &str| match g(k) {
            Some(0) | None => usize::MAX,
            Some(v) => v as usize,
        };
        s.tcp = Some(TcpParams { mode, cap: g("tcp_cap")? as usize, rx_chunk: chunk("tcp_rx_chunk"), tx_chunk: chunk("tcp_tx_chunk"), prelude: matches!(j.get("tcp_prelude"), Some(Json::Bool(true))), pause_ms: g("tcp_pause_ms").unwrap_or(0) as u64 });
    }
    s.name = j.get("name")?.as_str()?.to_string();
    Some(s)
}

fn replay_main(path: &str) {
    install_panic_hook();
    let text = std::fs::read_to_string(path).expect("read replay file");
    let j = Json::parse(&text).expect("parse replay file");
    // the replay file carries the whole scenario: it does not depend on the tier's grid
    let scn = scenario_from_json(j.get("scenario").expect("scenario")).expect("scenario fields");
    let sched_s = j.get("schedule").and_then(|x| x.as_str()).unwrap_or("");
    let schedule = parse_schedule(sched_s).expect("schedule");
    let r = execute(&scn, &schedule);
    let violations = monitors::check(&scn, &schedule, &r);
    println!("replay: scenario {} schedule [{}] datagrams {} socket calls {} outcome {} trace {:032x}", scn.name, sched_s, r.dgrams.len(), r.calls.len(), monitors::outcome_class(&r), trace_hash(&r, false));
    if violations.is_empty() {
        println!("replay: no violation");
    } else {
        for (c, d) in &violations {
            println!("replay: VIOLATED {}: {}", c, d);
        }
        std::process::exit(1);
    }
}

/// The real `stream::testing::Server::tcp()` (tokio acceptor, `server::tokio::tcp::worker`) on loopback; a
/// real dc client stream whose bytes reach the server through a proxy that forwards at most `chunk` bytes
/// every `gap_ms` (what a path with a small MSS does to a large first record).
fn real_acceptor_probe(first: usize, chunk: usize, gap_ms: u64) {
    use s2n_quic_dc::stream::testing::{Client, Server};
    use tokio::io::{AsyncReadExt, AsyncWriteExt};
    let rt = tokio::runtime::Builder::new_multi_thread().worker_threads(2).enable_all().build().unwrap();
    rt.block_on(async move {
        let server = Server::tcp().build();
        let client = Client::builder().build();
        let entry = client.handshake_with(&server).expect("path secret");
        let upstream = server.local_addr();
        let listener = tokio::net::TcpListener::bind("127.0.0.1:0").await.unwrap();
        let proxy_addr = listener.local_addr().unwrap();
        tokio::spawn(async move {
            let (mut down, _) = listener.accept().await.unwrap();
            let mut up = tokio::net::TcpStream::connect(upstream).await.unwrap();
            up.set_nodelay(true).unwrap();
            let (mut dr, mut dw) = down.split();
            let (mut ur, mut uw) = up.split();
            let c2s = async {
                let mut buf = vec![0u8; 1 << 20];
                let mut total = 0usize;
                loop {
                    let n = match dr.read(&mut buf).await {
                        Ok(0) | Err(_) => break,
                        Ok(n) => n,
                    };
                    let mut off = 0;
                    while off < n {
                        let m = chunk.min(n - off);
                        if uw.write_all(&buf[off..off + m]).await.is_err() {
                            println!("proxy: the server closed the connection after {} bytes were forwarded", total);
                            return;
                        }
                        let _ = uw.flush().await;
                        off += m;
                        total += m;
                        tokio::time::sleep(std::time::Duration::from_millis(gap_ms)).await;
                    }
                }
                let _ = uw.shutdown().await;
            };
            let s2c = async {
                let _ = tokio::io::copy(&mut ur, &mut dw).await;
                let _ = dw.shutdown().await;
            };
            tokio::join!(c2s, s2c);
        });
        let env = s2n_quic_dc::stream::environment::tokio::Builder::new(s2n_quic_dc::testing::NoopSubscriber).with_threads(1).build().unwrap();
        let sock = tokio::net::TcpStream::connect(proxy_addr).await.unwrap();
        let mut stream = s2n_quic_dc::stream::client::tokio::connect_tcp_with(entry, sock, &env).await.expect("open");
        let payload = crate::mccore::prf_vec(KEY_REQ, 0, first);
        let server_side = async {
            match tokio::time::timeout(std::time::Duration::from_secs(5), server.accept()).await {
                Ok(Ok((mut s, _))) => {
                    let mut got = Vec::new();
                    let r = tokio::time::timeout(std::time::Duration::from_secs(10), s.read_to_end(&mut got)).await;
                    println!("server: accepted the stream; read {} bytes, result {:?}, content {}", got.len(), r.map(|x| x.map_err(|e| e.kind())), if got == crate::mccore::prf_vec(KEY_REQ, 0, got.len()) { "ok" } else { "WRONG" });
                }
                Ok(Err(e)) => println!("server: accept failed: {:?}", e.kind()),
                Err(_) => println!("server: NO stream was accepted within 5 s"),
            }
        };
        let client_side = async {
            let w = stream.write_all(&payload).await;
            let sd = stream.shutdown().await;
            println!("client: write_all({} bytes) -> {:?}, shutdown -> {:?}", first, w.map_err(|e| e.kind()), sd.map_err(|e| e.kind()));
            let mut buf = [0u8; 16];
            let r = tokio::time::timeout(std::time::Duration::from_secs(8), stream.read(&mut buf)).await;
            println!("client: read -> {:?}", r.map(|x| x.map_err(|e| e.kind())));
        };
        tokio::join!(server_side, client_side);
    });
}

fn parse_order(s: &str) -> Order {
    match s {
        "seq" => Order::Seq,
        "seqfin" => Order::SeqFin,
        "conc" => Order::Concurrent,
        "earlyshut" => Order::EarlyShutdown,
        "dropw" => Order::DropWriter,
        _ => Order::DropReader,
    }
}

fn main() {
    // the repository's testing helpers install a tracing subscriber filtered by S2N_LOG (default DEBUG)
    if std::env::var("S2N_LOG").is_err() {
        std::env::set_var("S2N_LOG", "off");
    }
    let args: Vec<String> = std::env::args().skip(1).collect();
    match args.first().map(|s| s.as_str()) {
        Some("worker") => worker_main(),
        Some("run") => {
            let prop = args.get(1).expect("property id");
            let out = args.iter().position(|a| a == "--out").and_then(|i| args.get(i + 1)).expect("--out");
            master(prop, out);
        }
        Some("replay") => replay_main(&args[1]),
        Some("list") => {
            for f in selected_families() {
                for (i, c) in families::family(f, Tier::from_env()).iter().enumerate() {
                    println!("{} {} {} k={} extra={:?}", f, i, c.scn.name, c.k, c.extra.iter().map(|a| a.code()).collect::<Vec<_>>());
                }
            }
        }
        Some("probe-tcp") | Some("bench-tcp") => {
            // dcmc probe-tcp <calls|bytes> <req> <resp> <rbuf> <order> <cap> <rx> <tx> <prelude 0|1> <pause_ms> [schedule]
            let mode = if args[1] == "calls" { TcpMode::Calls } else { TcpMode::Bytes };
            let num = |i: usize| -> usize {
                let v: usize = args[i].parse().unwrap();
                if v == 0 {
                    usize::MAX
                } else {
                    v
                }
            };
            let mut p = TcpParams::new(mode);
            p.cap = num(6);
            p.rx_chunk = num(7);
            p.tx_chunk = num(8);
            p.prelude = args[9] == "1";
            p.pause_ms = args[10].parse().unwrap();
            let scn = Scenario::new_tcp(args[2].parse().unwrap(), args[3].parse().unwrap(), args[4].parse().unwrap(), parse_order(&args[5]), p);
            let sched = args.get(11).and_then(|s| parse_schedule(s)).unwrap_or_default();
            if args[0] == "bench-tcp" {
                let t0 = std::time::Instant::now();
                let mut n = 0;
                let mut h = 0;
                for _ in 0..20 {
                    let r = execute(&scn, &sched);
                    n = r.calls.len();
                    h = trace_hash(&r, false);
                }
                println!("{}: {:?} per execution, {} socket calls, trace {:032x}", scn.name, t0.elapsed() / 20, n, h);
                return;
            }
            if std::env::var("DCMC_LOUD_PANIC").is_err() {
                install_panic_hook();
            }
            let t0 = std::time::Instant::now();
            let r = execute(&scn, &sched);
            println!("{} [{}]: wall {:?} calls={} wire={:?} bounds={:?} app={} end_t={}us panicked={:?} trace={:032x} outcome={}", scn.name, schedule_string(&sched), t0.elapsed(), r.calls.len(), r.wire_len, r.bounds, r.app.len(), r.end_t, r.panicked.as_ref().map(|p| p.lines().take(4).collect::<Vec<_>>().join(" | ")), trace_hash(&r, false), monitors::outcome_class(&r));
            let verbose = std::env::var("DCMC_VERBOSE").is_ok();
            if verbose {
                for c in &r.calls {
                    println!("  #{} t={} side={} {} asked={} got={} dev={}", c.idx, c.t, c.side, c.op, c.asked, c.got, c.dev);
                }
            }
            for a in &r.app {
                if verbose || !matches!(a.ev, Ev::Read { bad: None, .. } | Ev::Write { .. }) {
                    println!("  app t={} side={} {} {:?}", a.t, a.side, a.half, a.ev);
                }
            }
            for (c, d) in monitors::check(&scn, &sched, &r) {
                println!("  VIOLATION {}: {}", c, d);
            }
        }
        Some("probe-accept") => {
            // dcmc probe-accept <first_write_bytes> <chunk_bytes> <gap_ms>
            // NOT part of the model checking (real sockets, real time): the repository's real tokio TCP
            // acceptor behind a loopback proxy that forwards the client's bytes in chunks (notes/wK.md F2)
            let first: usize = args[1].parse().unwrap();
            let chunk: usize = args[2].parse().unwrap();
            let gap: u64 = args[3].parse().unwrap();
            real_acceptor_probe(first, chunk, gap);
        }
        Some("probe") | Some("bench") => {
            // dcmc probe <req> <resp> <rbuf> <order> <mtu> [schedule]
            let req: usize = args[1].parse().unwrap();
            let resp: usize = args[2].parse().unwrap();
            let rbuf: usize = args[3].parse().unwrap();
            let order = parse_order(&args[4]);
            let mtu: u16 = args[5].parse().unwrap();
            let sched = args.get(6).and_then(|s| parse_schedule(s)).unwrap_or_default();
            let scn = Scenario::new(req, resp, rbuf, order, mtu);
            if args[0] == "bench" {
                let t0 = std::time::Instant::now();
                let mut n = 0;
                let mut h = 0;
                for _ in 0..20 {
                    let r = execute(&scn, &sched);
                    n = r.dgrams.len();
                    h = trace_hash(&r, false);
                }
                println!("{}: {:?} per execution, {} datagrams, trace {:032x}", scn.name, t0.elapsed() / 20, n, h);
                return;
            }
            if std::env::var("DCMC_LOUD_PANIC").is_err() {
                install_panic_hook();
            }
            let t0 = std::time::Instant::now();
            let r = execute(&scn, &sched);
            println!("{} [{}]: wall {:?} dgrams={} app={} end_t={}us panicked={:?} maxlen={} trace={:032x} outcome={}", scn.name, schedule_string(&sched), t0.elapsed(), r.dgrams.len(), r.app.len(), r.end_t, r.panicked.as_ref().map(|p| p.lines().take(4).collect::<Vec<_>>().join(" | ")), r.max_dgram_len, trace_hash(&r, false), monitors::outcome_class(&r));
            let verbose = std::env::var("DCMC_VERBOSE").is_ok();
            if verbose {
                for d in &r.dgrams {
                    println!("  #{} t={} {}->{} len={} act={}", d.idx, d.t, d.src, d.dst, d.len, d.action);
                }
            }
            for a in &r.app {
                if verbose || !matches!(a.ev, Ev::Read { bad: None, .. } | Ev::Write { .. }) {
                    println!("  app t={} side={} {} {:?}", a.t, a.side, a.half, a.ev);
                }
            }
            for (c, d) in monitors::check(&scn, &sched, &r) {
                println!("  VIOLATION {}: {}", c, d);
            }
        }
        _ => {
            eprintln!("usage: dcmc run C20 --out f | worker | replay f | list | probe req resp rbuf order mtu [sched] | bench ... | probe-tcp calls|bytes req resp rbuf order cap rx tx prelude pause_ms [sched]");
            std::process::exit(2);
        }
    }
}

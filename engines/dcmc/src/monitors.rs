// C20 oracles: pure functions over the record of one execution. Nothing here calls s2n-quic: the
// expected payload is the PRF of mccore, the expected totals are what the *applications* were
// told by the write API, the time bounds are the configured idle timeout plus slack.
#![allow(dead_code)]
use crate::net::{schedule_string, Action, Schedule};
use crate::scenario::*;

pub type V = Vec<(String, String)>;

/// slack on top of the idle timeout for "fails within its idle timeout": one PTO-sized period for
/// the timer wheel granularity and wake-up of the application task, far below the 30 s timeout
pub const PROMPT_SLACK_US: u64 = 2_000_000;

#[derive(Clone, Debug, PartialEq)]
pub enum WEnd {
    /// clean end of the write half at `total` bytes (explicit shutdown, or drop = implicit shutdown)
    Fin { total: u64, t: u64 },
    Err { total: u64, t: u64, what: String },
    Pending,
}

#[derive(Clone, Debug, PartialEq)]
pub enum REnd {
    Eof { total: u64, t: u64 },
    Err { total: u64, t: u64, what: String },
    Dropped { total: u64, t: u64 },
    Pending,
}

pub struct Half {
    pub written: u64,
    pub wend: WEnd,
    pub read: u64,
    pub rend: REnd,
    pub connected: bool,
    pub conn_err: Option<String>,
    pub timeouts: Vec<char>,
}

pub fn summarize(r: &Record, side: u8) -> Half {
    let mut h = Half { written: 0, wend: WEnd::Pending, read: 0, rend: REnd::Pending, connected: false, conn_err: None, timeouts: vec![] };
    for a in r.app.iter().filter(|a| a.side == side) {
        match &a.ev {
            Ev::Connected | Ev::Accepted => h.connected = true,
            Ev::ConnectErr(e) | Ev::AcceptErr(e) => h.conn_err = Some(e.clone()),
            Ev::Write { n, .. } => h.written += *n as u64,
            Ev::WriteErr { off, err } => h.wend = WEnd::Err { total: *off, t: a.t, what: format!("write: {}", err) },
            Ev::ShutdownOk { total } => h.wend = WEnd::Fin { total: *total, t: a.t },
            Ev::ShutdownErr { total, err } => h.wend = WEnd::Err { total: *total, t: a.t, what: format!("shutdown: {}", err) },
            Ev::DroppedWriter { total } => h.wend = WEnd::Fin { total: *total, t: a.t },
            Ev::Read { n, .. } => h.read += *n as u64,
            Ev::Eof { total } => h.rend = REnd::Eof { total: *total, t: a.t },
            Ev::ReadErr { total, err } => h.rend = REnd::Err { total: *total, t: a.t, what: err.clone() },
            Ev::DroppedReader { total } => h.rend = REnd::Dropped { total: *total, t: a.t },
            Ev::Timeout => h.timeouts.push(a.half),
            Ev::ReadAfterEnd { .. } | Ev::WriteAllReturned { .. } | Ev::Done => {}
        }
    }
    h
}

fn side_name(s: u8) -> &'static str {
    if s == CLIENT {
        "client"
    } else {
        "server"
    }
}

pub fn check(scn: &Scenario, schedule: &Schedule, r: &Record) -> V {
    let mut out = V::new();
    let ctx = format!("scenario {} schedule [{}]", scn.name, schedule_string(schedule));
    // ---- the execution itself
    if let Some(p) = &r.panicked {
        let first = p.lines().find(|l| !l.trim().is_empty() && !l.starts_with('=')).unwrap_or("").trim().to_string();
        if p.contains(WATCHDOG_MSG) {
            // the application-level clauses below still apply: the application log is complete
            out.push(("live.workers_not_finished".into(), format!("{}: the stream's read/write worker tasks were still running at {} ms virtual time, twice the application horizon (they are primary tasks of the simulation: the stream never finished)", ctx, 2 * scn.horizon_ms)));
        } else {
            if p.contains("Runtime stalled") {
                out.push(("live.stalled".into(), format!("{}: bach reports a stalled runtime (pending primary tasks, no runnable task, no timer): {}", ctx, first)));
            } else if p.contains("max_microsteps") {
                out.push(("live.livelock".into(), format!("{}: tasks keep waking each other without time advancing (bach max_microsteps)", ctx)));
            } else {
                let first: String = first.chars().take(160).collect();
                out.push(("exec.panic".into(), format!("{}: panic at {}: {}", ctx, r.panicked_at.as_deref().unwrap_or("?"), first)));
            }
            return out;
        }
    }
    let mut permanent = schedule.iter().any(|(_, a)| a.is_permanent());
    if scn.tcp.is_some() && r.sever_t.is_none() && r.forget_at.is_none() {
        // tcp family: the cut offset / call index lies beyond the end of the run, the fault never
        // happened: the run has to complete like a fault-free one
        permanent = false;
    }
    let c = summarize(r, CLIENT);
    let s = summarize(r, SERVER);

    // ---- content: every read returned exactly the next bytes of what the peer wrote
    for a in &r.app {
        match &a.ev {
            Ev::Read { off, n, bad: Some((o, got, exp)) } => {
                out.push(("data.content".into(), format!("{}: {} read {} bytes at offset {}: byte at offset {} is 0x{:02x}, the peer wrote 0x{:02x}", ctx, side_name(a.side), n, off, o, got, exp)));
                break;
            }
            Ev::ReadAfterEnd { n } => {
                out.push(("data.after_end".into(), format!("{}: {} read {} more bytes after the stream had reported EOF / an error", ctx, side_name(a.side), n)));
            }
            _ => {}
        }
    }
    // ---- totals: a reader never gets more than the peer's write API accepted; clean EOF only at the
    //      total the peer had written when it shut down (explicitly or by dropping the write half)
    for (reader, rh, wh) in [(CLIENT, &c, &s), (SERVER, &s, &c)] {
        // TCP: a write call that failed may have put a prefix of its bytes on the wire before the
        // connection broke (the call pushes several packets); the peer may read them (content is checked
        // above), but never more than the script's total
        let script_total = if reader == CLIENT { scn.resp as u64 } else { scn.req as u64 };
        let limit = if scn.tcp.is_some() && matches!(wh.wend, WEnd::Err { .. }) { script_total } else { wh.written };
        if rh.read > limit {
            out.push(("data.overrun".into(), format!("{}: {} read {} bytes but the peer's writes accepted only {}", ctx, side_name(reader), rh.read, wh.written)));
        }
        if let REnd::Eof { total, .. } = rh.rend {
            match &wh.wend {
                WEnd::Fin { total: w, .. } if *w == total => {}
                WEnd::Fin { total: w, .. } => out.push(("data.eof_total".into(), format!("{}: {} saw a clean EOF after {} bytes but the peer shut down after writing {}", ctx, side_name(reader), total, w))),
                other => out.push(("data.eof_without_shutdown".into(), format!("{}: {} saw a clean EOF after {} bytes but the peer's write half never shut down cleanly ({:?}, {} bytes accepted)", ctx, side_name(reader), total, other, wh.written))),
            }
        }
    }
    // ---- never hang: every application operation resolved before the virtual-time horizon
    for (side, h) in [(CLIENT, &c), (SERVER, &s)] {
        if !h.timeouts.is_empty() {
            out.push(("live.not_reported".into(), format!("{}: {} task(s) {:?} still pending at the horizon of {} ms (connected={} read={} {:?}; written={} {:?})", ctx, side_name(side), h.timeouts, scn.horizon_ms, h.connected, h.read, h.rend, h.written, h.wend)));
        }
    }
    if !c.connected && c.conn_err.is_none() && c.timeouts.is_empty() {
        out.push(("live.not_reported".into(), format!("{}: the client never connected and reported nothing", ctx)));
    }

    if permanent {
        // ---- peer vanished / path secret forgotten: errors within the idle timeout (+ slack), no hang
        let t_fault = r.blackhole_since.or(r.forget_at).or(r.sever_t);
        if let Some(t0) = t_fault {
            let deadline = t0 + IDLE_US + PROMPT_SLACK_US;
            for (side, h) in [(CLIENT, &c), (SERVER, &s)] {
                let ends: Vec<(char, u64, bool)> = vec![
                    match &h.rend {
                        REnd::Eof { t, .. } | REnd::Err { t, .. } | REnd::Dropped { t, .. } => ('r', *t, true),
                        REnd::Pending => ('r', 0, false),
                    },
                    match &h.wend {
                        WEnd::Fin { t, .. } | WEnd::Err { t, .. } => ('w', *t, true),
                        WEnd::Pending => ('w', 0, false),
                    },
                ];
                if !h.connected {
                    continue;
                }
                for (half, t, resolved) in ends {
                    if resolved && t > deadline {
                        out.push(("live.prompt".into(), format!("{}: the {} {} half resolved at t={} us, later than fault time {} us + idle timeout {} us + slack {} us", ctx, side_name(side), half, t, t0, IDLE_US, PROMPT_SLACK_US)));
                    }
                }
            }
        }
    } else {
        // ---- finite faults only (<= k datagrams lost / duplicated / delayed): the transfer completes
        let req_total = if scn.order == Order::DropWriter { (scn.req / 2) as u64 } else { scn.req as u64 };
        if !c.connected || !s.connected {
            out.push(("live.complete".into(), format!("{}: connect/accept did not complete (client connected={} err={:?}; server accepted={} err={:?})", ctx, c.connected, c.conn_err, s.connected, s.conn_err)));
            return out;
        }
        // request direction
        match &c.wend {
            WEnd::Fin { total, .. } if *total == req_total => {}
            // a reset of the stream (see below) may overtake a write that is still blocked on flow credits
            WEnd::Err { .. } if scn.order == Order::DropReader => {}
            other => out.push(("live.complete".into(), format!("{}: the client's write half should have written {} bytes and shut down, got {:?} ({} bytes accepted)", ctx, req_total, other, c.written))),
        }
        match &s.rend {
            REnd::Eof { total, .. } if *total == req_total => {}
            // Dropping a read half that has unread data resets the stream (CONNECTION_CLOSE with an
            // application error, the analogue of TCP's RST on close-with-unread-data); the peer's sender
            // propagates the reset to its receiver, so request bytes still in flight (lost, waiting for
            // retransmission) are not delivered: the property allows "fails with an error" here.
            REnd::Err { .. } if scn.order == Order::DropReader => {}
            other => out.push(("live.complete".into(), format!("{}: the server should have read {} request bytes and then EOF, got {:?} (read {})", ctx, req_total, other, s.read))),
        }
        // response direction
        if scn.order == Order::DropReader {
            match &c.rend {
                REnd::Dropped { .. } => {}
                // the response was shorter than the drop point
                REnd::Eof { .. } if scn.resp / 2 >= scn.resp => {}
                other => out.push(("live.complete".into(), format!("{}: the client should have dropped its read half after {} bytes, got {:?}", ctx, scn.resp / 2, other))),
            }
            if s.wend == WEnd::Pending {
                out.push(("live.complete".into(), format!("{}: the server's write half never resolved after the client dropped its read half ({} bytes accepted)", ctx, s.written)));
            }
        } else {
            match &s.wend {
                WEnd::Fin { total, .. } if *total == scn.resp as u64 => {}
                other => out.push(("live.complete".into(), format!("{}: the server's write half should have written {} bytes and shut down, got {:?} ({} bytes accepted)", ctx, scn.resp, other, s.written))),
            }
            match &c.rend {
                REnd::Eof { total, .. } if *total == scn.resp as u64 => {}
                other => out.push(("live.complete".into(), format!("{}: the client should have read {} response bytes and then EOF, got {:?} (read {})", ctx, scn.resp, other, c.read))),
            }
        }
    }
    let _ = Action::Deliver;
    out
}

pub fn outcome_class(r: &Record) -> String {
    let n = if r.calls.is_empty() { r.dgrams.len() } else { r.calls.len() };
    if r.panicked.is_some() {
        return format!("panic-dg{}", n);
    }
    let c = summarize(r, CLIENT);
    let s = summarize(r, SERVER);
    let w = |e: &WEnd| match e {
        WEnd::Fin { .. } => "fin",
        WEnd::Err { .. } => "err",
        WEnd::Pending => "pend",
    };
    let rd = |e: &REnd| match e {
        REnd::Eof { .. } => "eof",
        REnd::Err { .. } => "err",
        REnd::Dropped { .. } => "drop",
        REnd::Pending => "pend",
    };
    format!("c:{}/{}-s:{}/{}-dg{}-end{}ms", rd(&c.rend), w(&c.wend), rd(&s.rend), w(&s.wend), n, r.end_t / 1000)
}

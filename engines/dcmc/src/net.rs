// The harness-owned simulated UDP network: a `bach::environment::net::queue::Allocator` that
// takes one decision per datagram, default "deliver after the base latency".
//
// bach builds three queues per UDP socket through the allocator (tx, in-flight "net", rx) and two
// pump tasks (tx -> net, net -> dispatch to the destination socket's rx queue). The stock
// allocator (`queue::Fixed`) is reproduced here with one change: the tx -> net pump asks the
// schedule what to do with the datagram and the in-flight queue carries `(latency, packet)` so the
// latency is per datagram (bach's `latent::Latency` trait is evaluated per pushed value).
//
//   * datagram index = position in the global order in which the tx pumps of all sockets take
//     datagrams off their tx queues (bach's executor is single threaded and FIFO: the order is a
//     function of the schedule only; proven per run by the trace hash re-check in the master)
//   * `Drop`      the datagram is not pushed
//   * `Dup(us)`   pushed twice, the copy `us` microseconds later
//   * `Delay(m)`  pushed with m x the base latency (arrives after the following flights)
//   * `BlackholeFrom` every datagram from this index on (both directions) is dropped
//   * triggers    `forget_at = i`: the server's path secret map is cleared immediately before
//                 datagram i is handled (the callback is installed by the scenario)
#![allow(dead_code)]
use bach::{
    environment::net::{
        ip::{Packet, Segments},
        monitor::List as Monitors,
        pcap,
        queue::{Allocator, Dispatch, PacketQueue},
    },
    ext::*,
    group::Group,
    queue::{latent::Latency, vec_deque},
    sync::channel::Sender,
    time::Instant,
};
use std::collections::BTreeMap;
use std::net::SocketAddr;
use std::sync::{Arc, Mutex};
use std::time::Duration;

#[derive(Clone, Debug, PartialEq, Eq, PartialOrd, Ord)]
pub enum Action {
    Deliver,
    Drop,
    /// deliver twice, the copy `extra_us` later
    Dup(u64),
    /// deliver after `mult` x base latency
    Delay(u32),
    /// drop this and every later datagram, both directions (the peer / the path is gone)
    BlackholeFrom,
    /// the server forgets every path secret immediately before this datagram is handled
    /// (tcp family: immediately before socket call i is answered)
    Forget,
    /// garbled copies of this datagram (every bit-pattern listed in `garbled_copies`) are delivered just
    /// before the genuine one: none of them verifies, so none may have any effect
    Garble,
    // ---- tcp family, "calls" mode: the index is the socket-call index (see tcp.rs)
    /// the call transfers one byte only (short read / partial write)
    One,
    /// the call transfers half of what it would have transferred
    Half,
    /// the call transfers all but the last byte
    AllBut1,
    /// the call answers `Pending` once (readiness arrives later); the re-poll is the next call
    Pend,
    /// the connection is severed immediately before this call is answered; queued bytes stay
    /// readable, then EOF (the peer's kernel sent FIN: the peer process died); writes fail
    SeverEof,
    /// as `SeverEof` but with RST: both queues are purged, reads and writes fail with ECONNRESET
    SeverReset,
    /// the connection goes silent immediately before this call: nothing is delivered any more and no
    /// error is ever reported (a TCP peer that vanished without RST and without keepalive). Probe only.
    SeverQuiet,
    // ---- tcp family, "bytes" mode: the index is a byte offset of the wire stream of direction `d`
    //      (0 = client->server, 1 = server->client)
    /// no read crosses this offset (a TCP segment boundary here)
    Split(u8),
    /// the reader of `d` gets exactly this many bytes, then EOF (connection closed mid-stream)
    CutEof(u8),
    /// the reader of `d` gets exactly this many bytes, then ECONNRESET
    CutReset(u8),
    /// the reader of `d` gets exactly this many bytes, then nothing, for ever. Probe only.
    CutQuiet(u8),
}

/// Unauthentic variants of a genuine dc datagram: three masks on each of the first 48 bytes (tag byte,
/// credentials, stream id, packet number, offsets, lengths), each of the first 24 bytes replaced by
/// 0x3f / 0x7f / 0xff (variable-length integers turned into large values), every byte of the
/// authentication tag flipped, the last byte dropped, and the packet with a zeroed tag.
pub fn garbled_copies(genuine: &[u8]) -> Vec<Vec<u8>> {
    let n = genuine.len();
    let mut out = Vec::new();
    for pos in 0..n.min(48) {
        for mask in [0x01u8, 0x80, 0xff] {
            let mut f = genuine.to_vec();
            f[pos] ^= mask;
            out.push(f);
        }
    }
    for pos in 1..n.min(24) {
        for v in [0x3fu8, 0x7f, 0xff] {
            // (the number of copies must not depend on the bytes themselves: credential ids differ
            // from run to run)
            let mut f = genuine.to_vec();
            f[pos] = if genuine[pos] == v { v ^ 0x55 } else { v };
            out.push(f);
        }
    }
    for pos in n.saturating_sub(16)..n {
        let mut f = genuine.to_vec();
        f[pos] ^= 0x01;
        out.push(f);
    }
    if n > 1 {
        out.push(genuine[..n - 1].to_vec());
    }
    if n > 16 {
        let mut f = genuine.to_vec();
        for b in &mut f[n - 16..] {
            *b = 0;
        }
        out.push(f);
    }
    out
}

impl Action {
    pub fn code(&self) -> String {
        match self {
            Action::Deliver => "-".into(),
            Action::Drop => "D".into(),
            Action::Dup(us) => format!("U{}", us),
            Action::Delay(m) => format!("L{}", m),
            Action::BlackholeFrom => "B".into(),
            Action::Forget => "F".into(),
            Action::Garble => "G".into(),
            Action::One => "O".into(),
            Action::Half => "H".into(),
            Action::AllBut1 => "M".into(),
            Action::Pend => "P".into(),
            Action::SeverEof => "E".into(),
            Action::SeverReset => "R".into(),
            Action::SeverQuiet => "Q".into(),
            Action::Split(d) => format!("S{}", dir_code(*d)),
            Action::CutEof(d) => format!("E{}", dir_code(*d)),
            Action::CutReset(d) => format!("R{}", dir_code(*d)),
            Action::CutQuiet(d) => format!("Q{}", dir_code(*d)),
        }
    }
    pub fn parse(s: &str) -> Option<Action> {
        let (h, t) = s.split_at(1);
        Some(match h {
            "-" => Action::Deliver,
            "D" => Action::Drop,
            "U" => Action::Dup(t.parse().ok()?),
            "L" => Action::Delay(t.parse().ok()?),
            "B" => Action::BlackholeFrom,
            "F" => Action::Forget,
            "G" => Action::Garble,
            "O" => Action::One,
            "H" => Action::Half,
            "M" => Action::AllBut1,
            "P" => Action::Pend,
            "E" if t.is_empty() => Action::SeverEof,
            "R" if t.is_empty() => Action::SeverReset,
            "Q" if t.is_empty() => Action::SeverQuiet,
            "S" => Action::Split(parse_dir(t)?),
            "E" => Action::CutEof(parse_dir(t)?),
            "R" => Action::CutReset(parse_dir(t)?),
            "Q" => Action::CutQuiet(parse_dir(t)?),
            _ => return None,
        })
    }
    /// permanent faults: no completion can be demanded afterwards
    pub fn is_permanent(&self) -> bool {
        matches!(self, Action::BlackholeFrom | Action::Forget | Action::SeverEof | Action::SeverReset | Action::SeverQuiet | Action::CutEof(_) | Action::CutReset(_) | Action::CutQuiet(_))
    }
    /// tcp "bytes" mode: the direction the byte offset refers to
    pub fn dir(&self) -> Option<u8> {
        match self {
            Action::Split(d) | Action::CutEof(d) | Action::CutReset(d) | Action::CutQuiet(d) => Some(*d),
            _ => None,
        }
    }
}

fn dir_code(d: u8) -> &'static str {
    if d == 0 {
        "c"
    } else {
        "s"
    }
}

fn parse_dir(t: &str) -> Option<u8> {
    match t {
        "c" => Some(0),
        "s" => Some(1),
        _ => None,
    }
}

pub type Schedule = Vec<(u32, Action)>;

pub fn schedule_string(s: &Schedule) -> String {
    s.iter().map(|(i, a)| format!("{}{}", i, a.code())).collect::<Vec<_>>().join(",")
}

pub fn parse_schedule(s: &str) -> Option<Schedule> {
    let mut out = Vec::new();
    for part in s.split(',') {
        if part.is_empty() {
            continue;
        }
        let pos = part.find(|c: char| !c.is_ascii_digit())?;
        let idx: u32 = part[..pos].parse().ok()?;
        out.push((idx, Action::parse(&part[pos..])?));
    }
    Some(out)
}

#[derive(Clone, Debug)]
pub struct Dgram {
    pub idx: u32,
    /// virtual time of the send, microseconds
    pub t: u64,
    pub src: SocketAddr,
    pub dst: SocketAddr,
    pub len: usize,
    pub action: String,
}

pub struct NetState {
    pub schedule: BTreeMap<u32, Action>,
    pub next_idx: u32,
    pub base: Duration,
    pub blackhole_since: Option<u64>,
    pub forget_at: Option<u64>,
    pub dgrams: Vec<Dgram>,
    pub max_len: usize,
}

pub type Net = Arc<Mutex<NetState>>;

pub fn new_net(schedule: &Schedule, base: Duration) -> Net {
    Arc::new(Mutex::new(NetState {
        schedule: schedule.iter().cloned().collect(),
        next_idx: 0,
        base,
        blackhole_since: None,
        forget_at: None,
        dgrams: Vec::new(),
        max_len: 0,
    }))
}

pub fn now_us() -> u64 {
    Instant::now().elapsed_since_start().as_micros() as u64
}

struct PerPacket;

impl Latency<(Duration, Packet)> for PerPacket {
    fn for_value(&self, value: &(Duration, Packet)) -> Duration {
        value.0
    }
}

/// callback clearing the server's path secret map. It owns a clone of the map, whose `Drop` reads the
/// bach clock, so it must only ever be owned by objects that live (and die) inside the runtime: the
/// allocator (owned by bach's net registry), its pump tasks and the server task.
pub type ForgetHook = Arc<Mutex<Option<Box<dyn FnMut() + Send>>>>;

pub struct ChoiceAlloc {
    pub net: Net,
    pub forget: ForgetHook,
}

impl Allocator for ChoiceAlloc {
    fn for_udp(&mut self, _group: &Group, addr: SocketAddr, dispatch: &Dispatch, _monitors: &Monitors, _pcaps: &mut pcap::Registry) -> PacketQueue {
        // same capacities and overflow policy as bach's `queue::Fixed::default()`
        let (tx_sender, mut tx_receiver) = vec_deque::Queue::builder().with_capacity(Some(4096)).with_overflow(vec_deque::Overflow::PreferOldest).build().sojourn().mutex().channel();
        let _: &Sender<Segments> = &tx_sender;

        let (rx_sender, rx_receiver) = vec_deque::Queue::builder().with_capacity(Some(4096)).with_overflow(vec_deque::Overflow::PreferOldest).build().sojourn().mutex().channel();

        let (mut net_send, mut net_recv) = vec_deque::Queue::builder().with_capacity(Some(u16::MAX as usize)).with_overflow(vec_deque::Overflow::PreferOldest).build().latent(PerPacket).mutex().channel();

        let net = self.net.clone();
        let forget = self.forget.clone();
        async move {
            while let Ok(segments) = tx_receiver.recv().await {
                for packet in segments {
                    let now = now_us();
                    let mut pushes: Vec<(Duration, Packet)> = Vec::new();
                    {
                        let mut st = net.lock().unwrap();
                        let idx = st.next_idx;
                        st.next_idx += 1;
                        let base = st.base;
                        let mut action = st.schedule.get(&idx).cloned().unwrap_or(Action::Deliver);
                        let mut label = action.code();
                        if action == Action::Forget {
                            st.forget_at = Some(now);
                            if let Some(f) = forget.lock().unwrap().as_mut() {
                                f();
                            }
                            action = Action::Deliver;
                        }
                        if action == Action::BlackholeFrom {
                            st.blackhole_since = Some(now);
                        }
                        if st.blackhole_since.is_some() {
                            if action != Action::BlackholeFrom {
                                label = "bh".into();
                            }
                            action = Action::Drop;
                        }
                        let len = packet.transport.payload().len();
                        st.max_len = st.max_len.max(len);
                        st.dgrams.push(Dgram { idx, t: now, src: packet.source(), dst: packet.destination(), len, action: label });
                        match action {
                            Action::Drop | Action::BlackholeFrom => {}
                            Action::Dup(extra) => {
                                pushes.push((base, packet.clone()));
                                pushes.push((base + Duration::from_micros(extra), packet));
                            }
                            Action::Delay(m) => pushes.push((base * m, packet)),
                            Action::Garble => {
                                let genuine = packet.transport.payload().to_vec();
                                for (k, f) in garbled_copies(&genuine).into_iter().enumerate() {
                                    let mut p = packet.clone();
                                    *p.transport.payload_mut() = f.into();
                                    // one microsecond apart, all of them ahead of the genuine datagram
                                    pushes.push((base + Duration::from_micros(k as u64), p));
                                }
                                pushes.push((base + Duration::from_micros(400), packet));
                            }
                            // Deliver, Forget; the tcp-family actions never occur in a UDP schedule
                            _ => pushes.push((base, packet)),
                        }
                    }
                    for p in pushes {
                        if net_send.push_nowait(p).await.is_err() {
                            return;
                        }
                    }
                }
            }
            let _ = tx_receiver.close();
        }
        .spawn_named(format_args!("udp://{addr}/net/local"));

        let senders = dispatch.clone();
        async move {
            while let Ok((_lat, packet)) = net_recv.recv().await {
                senders.send(packet).await;
            }
            let _ = net_recv.close();
        }
        .spawn_named(format_args!("udp://{addr}/net/remote"));

        PacketQueue { local_sender: tx_sender, local_receiver: rx_receiver, remote_sender: rx_sender }
    }
}

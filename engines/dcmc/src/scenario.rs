// One execution: a real dc client and a real dc server (UDP transport) on bach's deterministic
// executor with virtual time, joined by the harness network of net.rs; both applications run a
// script and log every API result with its virtual timestamp.
#![allow(dead_code)]
use crate::mccore::{prf_fill, Json};
use crate::net::{new_net, now_us, ChoiceAlloc, Dgram, Schedule};
use bach::ext::*;
use s2n_quic_dc::event;
use s2n_quic_dc::stream::recv::application::Reader;
use s2n_quic_dc::stream::send::application::Writer;
use s2n_quic_dc::stream::testing::{Client, Server};
use std::panic::{catch_unwind, AssertUnwindSafe};
use std::sync::{Arc, Mutex};
use std::time::Duration;
use tokio::io::{AsyncReadExt, AsyncWriteExt};

pub const KEY_REQ: u64 = 0x5eed_0000_0000_0001;
pub const KEY_RESP: u64 = 0x5eed_0000_0000_0002;
pub const CLIENT: u8 = 0;
pub const SERVER: u8 = 1;
/// `dc::testing::TEST_APPLICATION_PARAMS.max_idle_timeout` (the testing builders have no knob for it)
pub const IDLE_US: u64 = 30_000_000;
pub const BASE_LATENCY_US: u64 = 500;
pub const WATCHDOG_MSG: &str = "dcmc watchdog: stream worker tasks still alive at twice the application horizon";

#[derive(Clone, Copy, Debug, PartialEq, Eq)]
pub enum Order {
    /// client: write -> shutdown -> read to EOF; server: read to EOF -> write -> shutdown
    Seq,
    /// as Seq, but both writers hand the whole payload to `write_all_from_fin` (data and FIN in one
    /// call, partial writes when the payload exceeds the flow window) instead of write + shutdown
    SeqFin,
    /// both sides split the stream and run their read half and write half as concurrent tasks
    Concurrent,
    /// both writers write and shut down at once while both readers are slow (pause before every read):
    /// the shutdown happens long before the peer finished reading
    EarlyShutdown,
    /// the client drops its write half after half of the request (no shutdown); everything else as Concurrent
    DropWriter,
    /// the client drops its read half after half of the response; everything else as Concurrent
    DropReader,
}

impl Order {
    pub fn code(&self) -> &'static str {
        match self {
            Order::Seq => "seq",
            Order::SeqFin => "seqfin",
            Order::Concurrent => "conc",
            Order::EarlyShutdown => "earlyshut",
            Order::DropWriter => "dropw",
            Order::DropReader => "dropr",
        }
    }
}

/// how the schedule of a tcp scenario is indexed (see tcp.rs)
#[derive(Clone, Copy, Debug, PartialEq, Eq)]
pub enum TcpMode {
    /// index = socket-call index (global order of the answerable recv/send calls of both endpoints)
    Calls,
    /// index = byte offset in the wire stream of one direction
    Bytes,
}

/// the harness-owned TCP connection of a tcp scenario
#[derive(Clone, Debug, PartialEq, Eq)]
pub struct TcpParams {
    pub mode: TcpMode,
    /// bytes one direction of the connection buffers (send buffer + receive buffer); a write accepts
    /// at most the free space and is `Pending` when there is none
    pub cap: usize,
    /// default answer of a read: at most this many bytes (usize::MAX = everything available)
    pub rx_chunk: usize,
    /// default answer of a write: at most this many bytes accepted
    pub tx_chunk: usize,
    /// the client writes an empty prelude right after opening (as `testing::Client::connect_to`
    /// does); without it the first packet on the wire is the first data packet
    pub prelude: bool,
    /// both readers pause this long before every read (0 = as the operation order says)
    pub pause_ms: u64,
}

impl TcpParams {
    pub fn new(mode: TcpMode) -> TcpParams {
        TcpParams { mode, cap: 1 << 20, rx_chunk: usize::MAX, tx_chunk: usize::MAX, prelude: true, pause_ms: 0 }
    }
}

#[derive(Clone, Debug)]
pub struct Scenario {
    pub name: String,
    pub req: usize,
    pub resp: usize,
    /// application read buffer size (both sides)
    pub rbuf: usize,
    pub order: Order,
    pub client_mtu: u16,
    pub server_mtu: u16,
    /// virtual-time horizon for every application task, ms
    pub horizon_ms: u64,
    /// Some = the stream runs over the harness-owned TCP connection (family tcp), None = UDP on bach's network
    pub tcp: Option<TcpParams>,
}

fn chunk_name(c: usize) -> String {
    if c == usize::MAX {
        "all".into()
    } else {
        c.to_string()
    }
}

impl Scenario {
    pub fn new(req: usize, resp: usize, rbuf: usize, order: Order, mtu: u16) -> Scenario {
        Scenario { name: format!("{}-req{}-resp{}-rbuf{}-mtu{}", order.code(), req, resp, rbuf, mtu), req, resp, rbuf, order, client_mtu: mtu, server_mtu: mtu, horizon_ms: 100_000, tcp: None }
    }
    pub fn new_tcp(req: usize, resp: usize, rbuf: usize, order: Order, p: TcpParams) -> Scenario {
        let mut s = Scenario::new(req, resp, rbuf, order, 1500);
        s.name = format!(
            "tcp/{}-{}-req{}-resp{}-rbuf{}-cap{}-rx{}-tx{}{}{}",
            if p.mode == TcpMode::Calls { "calls" } else { "bytes" },
            order.code(),
            req,
            resp,
            rbuf,
            p.cap,
            chunk_name(p.rx_chunk),
            chunk_name(p.tx_chunk),
            if p.prelude { "" } else { "-nopre" },
            if p.pause_ms > 0 { format!("-pause{}ms", p.pause_ms) } else { String::new() }
        );
        s.tcp = Some(p);
        s
    }
    pub fn describe(&self) -> Json {
        let j = self.describe_base();
        match &self.tcp {
            None => j,
            Some(p) => j
                .set("transport", "tcp")
                .set("tcp_mode", if p.mode == TcpMode::Calls { "calls" } else { "bytes" })
                .set("tcp_cap", p.cap)
                .set("tcp_rx_chunk", if p.rx_chunk == usize::MAX { 0 } else { p.rx_chunk })
                .set("tcp_tx_chunk", if p.tx_chunk == usize::MAX { 0 } else { p.tx_chunk })
                .set("tcp_prelude", p.prelude)
                .set("tcp_pause_ms", p.pause_ms),
        }
    }
    fn describe_base(&self) -> Json {
        Json::obj()
            .set("name", self.name.as_str())
            .set("request_bytes", self.req)
            .set("response_bytes", self.resp)
            .set("read_buffer", self.rbuf)
            .set("order", self.order.code())
            .set("client_mtu", self.client_mtu as u64)
            .set("server_mtu", self.server_mtu as u64)
            .set("horizon_ms", self.horizon_ms)
    }
}

#[derive(Clone, Debug, PartialEq)]
pub enum Ev {
    Connected,
    ConnectErr(String),
    Accepted,
    AcceptErr(String),
    /// `n` bytes accepted by write() at stream offset `off`
    Write { off: u64, n: usize },
    WriteErr { off: u64, err: String },
    /// `write_all_from_fin` returned a length different from what it consumed (information only)
    WriteAllReturned { returned: usize, consumed: usize },
    ShutdownOk { total: u64 },
    ShutdownErr { total: u64, err: String },
    /// read() returned `n` bytes at offset `off`; `bad` = first offset whose byte differs from the PRF
    Read { off: u64, n: usize, bad: Option<(u64, u8, u8)> },
    Eof { total: u64 },
    ReadErr { total: u64, err: String },
    /// a read after an error / EOF returned data again
    ReadAfterEnd { n: usize },
    DroppedWriter { total: u64 },
    DroppedReader { total: u64 },
    /// the task was still pending at the horizon
    Timeout,
    Done,
}

#[derive(Clone, Debug)]
pub struct AppEv {
    pub t: u64,
    pub side: u8,
    /// 'r' read half, 'w' write half, 'c' connect/accept
    pub half: char,
    pub ev: Ev,
}

#[derive(Clone)]
pub struct Log(pub Arc<Mutex<Vec<AppEv>>>);

impl Log {
    pub fn push(&self, side: u8, half: char, ev: Ev) {
        self.0.lock().unwrap().push(AppEv { t: now_us(), side, half, ev });
    }
}

#[derive(Clone, Debug, Default)]
pub struct Record {
    pub dgrams: Vec<Dgram>,
    pub app: Vec<AppEv>,
    pub end_t: u64,
    pub panicked: Option<String>,
    pub panicked_at: Option<String>,
    pub blackhole_since: Option<u64>,
    pub forget_at: Option<u64>,
    pub max_dgram_len: usize,
    // ---- tcp family
    /// every answerable socket call in global order
    pub calls: Vec<crate::tcp::Call>,
    /// wire bytes written per direction (0 = client->server)
    pub wire_len: [u64; 2],
    /// wire offsets at which a buffer handed to `poll_send` ended (= dc packet boundaries)
    pub bounds: [Vec<u64>; 2],
    /// virtual time at which the connection was severed / cut
    pub sever_t: Option<u64>,
    /// a byte-offset cut (CutEof / CutReset / CutQuiet) was reached: the writer had more to send
    pub cut_hit: bool,
}

/// where the last panic of this process happened (the payload of a panic does not carry it)
pub static LAST_PANIC_AT: Mutex<Option<String>> = Mutex::new(None);

/// silence the default panic output (panics are outcomes to record) but remember the location
pub fn install_panic_hook() {
    std::panic::set_hook(Box::new(|info| {
        if let Some(l) = info.location() {
            // strip the checkout prefix so that fingerprints do not depend on where /repo lives
            let file = l.file();
            let file = file.rsplit_once("/repo/").map(|(_, f)| f).unwrap_or(file);
            if let Ok(mut g) = LAST_PANIC_AT.lock() {
                // the first panic of an execution is the cause; later ones (drops while unwinding) are noise
                if g.is_none() {
                    *g = Some(format!("{}:{}", file, l.line()));
                }
            }
        }
    }));
}

pub fn err_string(e: &std::io::Error) -> String {
    format!("{:?}", e.kind())
}

/// write `total` PRF bytes; `stop_at` = drop the writer (return it to the caller for dropping) after that many bytes
async fn run_writer<Sub: event::Subscriber>(mut w: Writer<Sub>, key: u64, total: usize, stop_at: Option<usize>, with_fin: bool, side: u8, log: Log) {
    if with_fin {
        let buf = crate::mccore::prf_vec(key, 0, total);
        let mut slice = &buf[..];
        match w.write_all_from_fin(&mut slice).await {
            Ok(returned) => {
                // What the application wrote = what the stream consumed from the storage (`slice` advances
                // itself). The *returned* length can be smaller: `poll_write_from` reports bytes accepted
                // earlier via `queue.poll_flush(limit = buf.buffered_len())`, and with a self-advancing
                // storage that limit is the remaining length, so bytes whose flush was pending (pacer) when
                // they were consumed are under-reported (see notes/wI.md, "suspicious"). Not a C20 matter:
                // the bytes on the stream are exactly the storage's bytes. Logged for information only.
                let consumed = total - slice.len();
                log.push(side, 'w', Ev::Write { off: 0, n: consumed });
                if returned != consumed {
                    log.push(side, 'w', Ev::WriteAllReturned { returned, consumed });
                }
                log.push(side, 'w', Ev::ShutdownOk { total: consumed as u64 });
            }
            Err(e) => {
                // `slice` was advanced by what the stream consumed before the error
                let consumed = total - slice.len();
                if consumed > 0 {
                    log.push(side, 'w', Ev::Write { off: 0, n: consumed });
                }
                log.push(side, 'w', Ev::WriteErr { off: consumed as u64, err: err_string(&e) });
            }
        }
        log.push(side, 'w', Ev::Done);
        return;
    }
    let limit = stop_at.unwrap_or(total).min(total);
    let mut buf = vec![0u8; limit];
    prf_fill(key, 0, &mut buf);
    let mut off = 0usize;
    while off < limit {
        match w.write(&buf[off..]).await {
            Ok(0) => {
                log.push(side, 'w', Ev::WriteErr { off: off as u64, err: "write returned 0".into() });
                return;
            }
            Ok(n) => {
                log.push(side, 'w', Ev::Write { off: off as u64, n });
                off += n;
            }
            Err(e) => {
                log.push(side, 'w', Ev::WriteErr { off: off as u64, err: err_string(&e) });
                return;
            }
        }
    }
    if stop_at.is_some() {
        drop(w);
        log.push(side, 'w', Ev::DroppedWriter { total: off as u64 });
        return;
    }
    match w.shutdown() {
        Ok(()) => log.push(side, 'w', Ev::ShutdownOk { total: off as u64 }),
        Err(e) => log.push(side, 'w', Ev::ShutdownErr { total: off as u64, err: err_string(&e) }),
    }
    // the write half stays alive until the task is done (dropping it after a clean shutdown is a no-op)
    log.push(side, 'w', Ev::Done);
}

/// read until EOF / error with a buffer of `rbuf` bytes, comparing every byte with the PRF
async fn run_reader<Sub: event::Subscriber>(mut r: Reader<Sub>, key: u64, rbuf: usize, pause: Duration, stop_at: Option<usize>, side: u8, log: Log) {
    let mut buf = vec![0u8; rbuf];
    let mut off = 0u64;
    loop {
        if let Some(stop) = stop_at {
            if off as usize >= stop {
                drop(r);
                log.push(side, 'r', Ev::DroppedReader { total: off });
                return;
            }
        }
        if !pause.is_zero() {
            pause.sleep().await;
        }
        match r.read(&mut buf).await {
            Ok(0) => {
                log.push(side, 'r', Ev::Eof { total: off });
                break;
            }
            Ok(n) => {
                let mut bad = None;
                let mut exp = vec![0u8; n];
                prf_fill(key, off, &mut exp);
                for i in 0..n {
                    if buf[i] != exp[i] {
                        bad = Some((off + i as u64, buf[i], exp[i]));
                        break;
                    }
                }
                log.push(side, 'r', Ev::Read { off, n, bad });
                off += n as u64;
            }
            Err(e) => {
                log.push(side, 'r', Ev::ReadErr { total: off, err: err_string(&e) });
                break;
            }
        }
    }
    // after EOF / an error no more data may appear
    match r.read(&mut buf).await {
        Ok(n) if n > 0 => log.push(side, 'r', Ev::ReadAfterEnd { n }),
        _ => {}
    }
    log.push(side, 'r', Ev::Done);
}

pub async fn with_horizon<F: core::future::Future<Output = ()>>(f: F, horizon: Duration, side: u8, half: char, log: Log) {
    if bach::time::timeout(horizon, f).await.is_err() {
        log.push(side, half, Ev::Timeout);
    }
}

fn reader_pause(scn: &Scenario) -> Duration {
    if let Some(p) = &scn.tcp {
        if p.pause_ms > 0 {
            return Duration::from_millis(p.pause_ms);
        }
    }
    if scn.order == Order::EarlyShutdown {
        Duration::from_millis(1)
    } else {
        Duration::ZERO
    }
}

/// the client application's script on an open stream (shared by the UDP and the TCP families)
pub async fn client_app<Sub: event::Subscriber>(r: Reader<Sub>, w: Writer<Sub>, scn: Scenario, horizon: Duration, log: Log) {
    let slow = reader_pause(&scn);
    let wstop = if scn.order == Order::DropWriter { Some(scn.req / 2) } else { None };
    let rstop = if scn.order == Order::DropReader { Some(scn.resp / 2) } else { None };
    let wt = run_writer(w, KEY_REQ, scn.req, wstop, scn.order == Order::SeqFin, CLIENT, log.clone());
    let rd = run_reader(r, KEY_RESP, scn.rbuf, slow, rstop, CLIENT, log.clone());
    if matches!(scn.order, Order::Seq | Order::SeqFin) {
        wt.await;
        rd.await;
    } else {
        let h = with_horizon(wt, horizon, CLIENT, 'w', log.clone()).primary().spawn();
        rd.await;
        let _ = h.await;
    }
}

/// the server application's script on an accepted stream
pub async fn server_app<Sub: event::Subscriber>(r: Reader<Sub>, w: Writer<Sub>, scn: Scenario, horizon: Duration, log: Log) {
    let slow = reader_pause(&scn);
    let rd = run_reader(r, KEY_REQ, scn.rbuf, slow, None, SERVER, log.clone());
    let wt = run_writer(w, KEY_RESP, scn.resp, None, scn.order == Order::SeqFin, SERVER, log.clone());
    if matches!(scn.order, Order::Seq | Order::SeqFin) {
        rd.await;
        wt.await;
    } else {
        let h = with_horizon(wt, horizon, SERVER, 'w', log.clone()).primary().spawn();
        rd.await;
        let _ = h.await;
    }
}

pub fn execute(scn: &Scenario, schedule: &Schedule) -> Record {
    if scn.tcp.is_some() {
        return s2n_quic_dc::testing::without_tracing(|| crate::tcp::execute_tcp(scn, schedule));
    }
    s2n_quic_dc::testing::without_tracing(|| execute_inner(scn, schedule))
}

fn execute_inner(scn: &Scenario, schedule: &Schedule) -> Record {
    if let Ok(mut g) = LAST_PANIC_AT.lock() {
        *g = None;
    }
    let net = new_net(schedule, Duration::from_micros(BASE_LATENCY_US));
    let log = Log(Arc::new(Mutex::new(Vec::new())));
    let scn = scn.clone();
    let horizon = Duration::from_millis(scn.horizon_ms);
    let forget: crate::net::ForgetHook = Arc::new(Mutex::new(None));
    let queues = ChoiceAlloc { net: net.clone(), forget: forget.clone() };
    let mut rt = bach::environment::default::Runtime::new().with_seed(0x5eed).with_net_queues(Some(Box::new(queues)));
    let res = {
        let log = log.clone();
        let net = net.clone();
        let rt = &mut rt;
        catch_unwind(AssertUnwindSafe(move || {
            let scn_c = scn.clone();
            let scn_s = scn.clone();
            let log_c = log.clone();
            let log_s = log.clone();
            rt.run(move || {
                // ------------------------------------------------------------ client
                let lg = log_c.clone();
                with_horizon(
                    async move {
                        let scn = scn_c;
                        let log = log_c;
                        let client = Client::builder().mtu(scn.client_mtu).build();
                        let stream = match client.connect_sim("server:443").await {
                            Ok(s) => {
                                log.push(CLIENT, 'c', Ev::Connected);
                                s
                            }
                            Err(e) => {
                                log.push(CLIENT, 'c', Ev::ConnectErr(err_string(&e)));
                                return;
                            }
                        };
                        let (r, w) = stream.into_split();
                        client_app(r, w, scn, horizon, log).await;
                    },
                    horizon,
                    CLIENT,
                    'm',
                    lg,
                )
                .group("client")
                .primary()
                .spawn();

                // ------------------------------------------------------------ watchdog
                // dc spawns the read and write workers of every stream as *primary* tasks, so the run only
                // ends when they have terminated. A worker that never does would make the run endless:
                // cut it one horizon after the applications' own horizon.
                async move {
                    (horizon * 2).sleep().await;
                    panic!("{}", WATCHDOG_MSG);
                }
                .spawn();

                // ------------------------------------------------------------ server
                // the accept loop itself is not a primary task: a server that no client datagram ever
                // reaches has no stream to report on; once a stream is accepted its handler is primary
                async move {
                    let scn = scn_s;
                    let log = log_s;
                    let server = Server::udp().port(443).mtu(scn.server_mtu).build();
                    {
                        let map = server.map().clone();
                        *forget.lock().unwrap() = Some(Box::new(move || map.drop_state()));
                    }
                    let stream = match server.accept().await {
                        Ok((s, _)) => {
                            log.push(SERVER, 'c', Ev::Accepted);
                            s
                        }
                        Err(e) => {
                            log.push(SERVER, 'c', Ev::AcceptErr(err_string(&e)));
                            return;
                        }
                    };
                    let lg = log.clone();
                    let handler = with_horizon(
                        async move {
                            let (r, w) = stream.into_split();
                            server_app(r, w, scn, horizon, log).await;
                        },
                        horizon,
                        SERVER,
                        'm',
                        lg,
                    )
                    .primary()
                    .spawn();
                    let _ = handler.await;
                    drop(server);
                }
                .group("server")
                .spawn();
            });
            // datagrams sent while the runtime is being torn down (its close drains the remaining
            // tasks) are not part of the execution
            net.lock().unwrap().dgrams.len()
        }))
    };
    if res.is_err() {
        // the runtime's Drop skips its orderly close while panicking / after a panic; dropping the
        // endpoints outside the bach scopes would panic again (their Drop impls read the bach clock).
        // The worker process exits after a panicking execution anyway: leak it.
        std::mem::forget(rt);
    } else {
        drop(rt);
    }
    let mut rec = Record::default();
    let mut n_run = None;
    match res {
        Ok(n) => n_run = Some(n),
        Err(e) => {
            let msg = if let Some(s) = e.downcast_ref::<&str>() {
                s.to_string()
            } else if let Some(s) = e.downcast_ref::<String>() {
                s.clone()
            } else {
                "panic (non-string payload)".into()
            };
            let at = LAST_PANIC_AT.lock().ok().and_then(|mut g| g.take()).unwrap_or_else(|| "?".into());
            rec.panicked = Some(msg);
            rec.panicked_at = Some(at);
        }
    }
    let st = net.lock().unwrap();
    rec.dgrams = st.dgrams.clone();
    if let Some(n) = n_run {
        rec.dgrams.truncate(n);
    }
    rec.blackhole_since = st.blackhole_since;
    rec.forget_at = st.forget_at;
    rec.max_dgram_len = st.max_len;
    rec.app = log.0.lock().unwrap().clone();
    rec.end_t = rec.app.iter().map(|a| a.t).max().unwrap_or(0);
    rec
}

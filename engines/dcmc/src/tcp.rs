// Family `tcp`: the real s2n-quic-dc stream code over a stream-oriented transport
// (`Protocol::Tcp`, `TransportFeatures::TCP`), on bach's deterministic executor, over a
// harness-owned in-memory TCP connection.
//
// What is real: `stream::endpoint::open_stream` / `derive_stream_credentials` / `accept_stream`,
// `server::InitialPacket::peek`, the application `Reader` / `Writer` (for TCP all protocol work
// happens inside their poll functions: there are no worker tasks), `recv::buffer::Local`
// (reassembly of dc packets from a byte stream), `recv::state`, `send::queue` (partial writes),
// `send::flow::non_blocking`, the pacer, the background shutdown tasks of `runtime::bach`, and a
// real path secret map pair (two `path::secret::Map`s; the shared secret is inserted through the
// map's production handshake interface, `impl dc::Endpoint for Map`).
//
// What is the harness: the connection (`Conn`, `SimTcp`), the `Environment` (bach clock, bach
// runtime handle, no-op subscriber), the `Peer` that hands the socket to `build_stream`, and the
// accept loop (the repository's TCP acceptor is tied to tokio's `TcpStream` through
// `LazyBoundStream`; `accept()` below performs the same steps with the same public functions).
//
// The connection is reliable and ordered. The *environment answers* are the harness's choice:
//   * how many bytes a `poll_recv` returns, how many a `poll_send` accepts, `Pending` once,
//   * where TCP segment boundaries fall (no read crosses a `Split` offset),
//   * the connection being closed (EOF) or reset at a socket call or after exactly i wire bytes.
// Defaults: a read returns everything that is buffered (up to the caller's buffer), a write accepts
// everything that fits into the connection's buffer (`cap` per direction), ready immediately,
// zero latency.
//
// Close semantics (Linux): when the last handle of an endpoint's socket is dropped the endpoint
// closes. With unread bytes in its receive queue it resets (the peer reads what is already queued,
// then ECONNRESET), otherwise it sends FIN (the peer reads what is queued, then EOF). Writing to a
// closed peer fails with EPIPE (simplification: Linux lets the first such write succeed).
#![allow(dead_code)]
use crate::net::{now_us, Action, Schedule};
use crate::scenario::*;
use bach::ext::*;
use core::task::{Context, Poll, Waker};
use s2n_quic_core::inet::{ExplicitCongestionNotification, SocketAddress};
use s2n_quic_core::time::Clock as _;
use s2n_quic_dc::{
    clock::bach::Clock,
    either::Either,
    msg::{self, addr::Addr, cmsg},
    path::secret::{map::Peer as MapPeer, Map},
    stream::{
        endpoint,
        environment::{Environment, Peer, SocketSet},
        recv::{self, application::Reader},
        runtime,
        send::application::Writer,
        server,
        socket::{application::Application, Protocol, Socket},
        TransportFeatures,
    },
    testing::NoopSubscriber,
};
use s2n_quic_platform::features::Gso;
use std::collections::{BTreeMap, BTreeSet, VecDeque};
use std::io::{self, IoSlice, IoSliceMut};
use std::net::SocketAddr;
use std::panic::{catch_unwind, AssertUnwindSafe};
use std::sync::{Arc, Mutex};
use std::time::Duration;

pub type Sub = NoopSubscriber;

/// `stream::recv::buffer::Local` (the receive buffer of a stream that owns its socket). The module
/// `recv::buffer` is `pub(crate)`, but the type is public and is the `Buffer` of the public
/// `WriteWorkerSocket for ()` impl, so it can be named through the associated type: no hook needed.
type LocalBuffer = <() as s2n_quic_dc::stream::environment::WriteWorkerSocket>::Buffer;

// ------------------------------------------------------------------------------------------
// the connection
// ------------------------------------------------------------------------------------------

#[derive(Clone, Copy, Debug, PartialEq, Eq)]
pub enum Sever {
    /// FIN: queued bytes stay readable, then EOF
    Eof,
    /// RST
    Reset,
    /// nothing is delivered any more, nothing is reported
    Quiet,
}

#[derive(Clone, Debug)]
pub struct Call {
    pub idx: u32,
    pub t: u64,
    pub side: u8,
    /// 'r' poll_recv, 'w' poll_send / try_send
    pub op: char,
    /// bytes the caller offered (buffer space of a read, payload of a write)
    pub asked: usize,
    /// bytes transferred; -1 = error, -2 = Pending (deviation `P`)
    pub got: i64,
    pub dev: String,
}

struct DirState {
    /// written by the endpoint with the same index as the direction, not yet read by the other
    q: VecDeque<u8>,
    /// wire bytes accepted from the writer (= offset of the next byte)
    written: u64,
    /// wire bytes handed to the reader
    delivered: u64,
    /// the writing endpoint closed cleanly: EOF once `q` is drained
    fin: bool,
    /// ECONNRESET once `q` is drained
    rst: bool,
    /// the connection went silent: only bytes below this wire offset are still delivered, nothing is
    /// reported afterwards
    quiet_limit: Option<u64>,
    /// bytes mode: the reader gets exactly this many bytes, then ...
    cut: Option<(u64, Sever)>,
    splits: BTreeSet<u64>,
    bounds: BTreeSet<u64>,
    rwakers: Vec<Waker>,
    wwakers: Vec<Waker>,
}

impl DirState {
    fn new() -> DirState {
        DirState { q: VecDeque::new(), written: 0, delivered: 0, fin: false, rst: false, quiet_limit: None, cut: None, splits: BTreeSet::new(), bounds: BTreeSet::new(), rwakers: vec![], wwakers: vec![] }
    }
}

pub struct Conn {
    dirs: [DirState; 2],
    cap: usize,
    rx_chunk: usize,
    tx_chunk: usize,
    /// calls mode: deviations by socket-call index
    by_call: BTreeMap<u32, Action>,
    next_call: u32,
    pub calls: Vec<Call>,
    /// the endpoint dropped its last socket handle
    closed: [bool; 2],
    /// the connection was severed: every later write fails
    severed: Option<Sever>,
    pub sever_t: Option<u64>,
    pub forget_at: Option<u64>,
    pub cut_hit: bool,
    /// clears the server's path secret map; owns a clone of the map and is therefore cleared by the
    /// main task before the runtime ends (the map's Drop reads the bach clock)
    forget: Option<Box<dyn FnMut() + Send>>,
    wakeups: Vec<Waker>,
}

pub type SharedConn = Arc<Mutex<Conn>>;

pub fn new_conn(p: &TcpParams, schedule: &Schedule) -> SharedConn {
    let mut c = Conn {
        dirs: [DirState::new(), DirState::new()],
        cap: p.cap.max(1),
        rx_chunk: p.rx_chunk.max(1),
        tx_chunk: p.tx_chunk.max(1),
        by_call: BTreeMap::new(),
        next_call: 0,
        calls: Vec::new(),
        closed: [false; 2],
        severed: None,
        sever_t: None,
        forget_at: None,
        cut_hit: false,
        forget: None,
        wakeups: Vec::new(),
    };
    for (i, a) in schedule {
        match a {
            Action::Split(d) => {
                c.dirs[*d as usize].splits.insert(*i as u64);
            }
            Action::CutEof(d) => c.dirs[*d as usize].cut = Some((*i as u64, Sever::Eof)),
            Action::CutReset(d) => c.dirs[*d as usize].cut = Some((*i as u64, Sever::Reset)),
            Action::CutQuiet(d) => c.dirs[*d as usize].cut = Some((*i as u64, Sever::Quiet)),
            other => {
                c.by_call.insert(*i, other.clone());
            }
        }
    }
    Arc::new(Mutex::new(c))
}

impl Conn {
    fn wake_all(&mut self) {
        for d in self.dirs.iter_mut() {
            self.wakeups.append(&mut d.rwakers);
            self.wakeups.append(&mut d.wwakers);
        }
    }

    fn sever(&mut self, kind: Sever) {
        if self.severed.is_some() {
            return;
        }
        self.severed = Some(kind);
        self.sever_t = Some(now_us());
        for d in self.dirs.iter_mut() {
            match kind {
                Sever::Eof => d.fin = true,
                Sever::Reset => {
                    d.q.clear();
                    d.rst = true;
                }
                Sever::Quiet => d.quiet_limit = Some(d.delivered),
            }
        }
        self.wake_all();
    }

    /// bytes the reader of direction `d` can get right now
    fn deliverable(&self, d: usize) -> usize {
        let dir = &self.dirs[d];
        match dir.quiet_limit {
            Some(l) => dir.q.len().min(l.saturating_sub(dir.delivered) as usize),
            None => dir.q.len(),
        }
    }

    /// the next answerable call: its index and the deviation the schedule has for it; permanent
    /// actions are applied here, immediately before the call is answered
    fn next_decision(&mut self) -> (u32, Option<Action>) {
        let idx = self.next_call;
        self.next_call += 1;
        let dev = self.by_call.get(&idx).cloned();
        match dev {
            Some(Action::Forget) => {
                self.forget_at = Some(now_us());
                if let Some(f) = self.forget.as_mut() {
                    f();
                }
                (idx, Some(Action::Forget))
            }
            Some(Action::SeverEof) => {
                self.sever(Sever::Eof);
                (idx, dev)
            }
            Some(Action::SeverReset) => {
                self.sever(Sever::Reset);
                (idx, dev)
            }
            Some(Action::SeverQuiet) => {
                self.sever(Sever::Quiet);
                (idx, dev)
            }
            other => (idx, other),
        }
    }

    fn shrink(n: usize, dev: &Option<Action>) -> usize {
        match dev {
            Some(Action::One) => 1.min(n),
            Some(Action::Half) => (n / 2).max(1).min(n),
            Some(Action::AllBut1) => n.saturating_sub(1).max(1).min(n),
            _ => n,
        }
    }

    fn record(&mut self, idx: u32, side: u8, op: char, asked: usize, got: i64, dev: &Option<Action>) {
        self.calls.push(Call { idx, t: now_us(), side, op, asked, got, dev: dev.as_ref().map(|a| a.code()).unwrap_or_default() });
    }

    fn recv(&mut self, side: u8, waker: Option<&Waker>, buffer: &mut [IoSliceMut]) -> Poll<io::Result<usize>> {
        let d = 1 - side as usize;
        let space: usize = buffer.iter().map(|b| b.len()).sum();
        if space == 0 {
            // recv(2) with an empty buffer returns 0
            return Poll::Ready(Ok(0));
        }
        // a call that has to wait (nothing buffered, connection open) is not a decision
        let answerable = self.deliverable(d) > 0 || (self.dirs[d].quiet_limit.is_none() && (self.dirs[d].fin || self.dirs[d].rst));
        if !answerable {
            if let Some(w) = waker {
                self.dirs[d].rwakers.push(w.clone());
            }
            return Poll::Pending;
        }
        let (idx, dev) = self.next_decision();
        if dev == Some(Action::Pend) {
            if let Some(w) = waker {
                self.wakeups.push(w.clone());
            }
            self.record(idx, side, 'r', space, -2, &dev);
            return Poll::Pending;
        }
        // (a sever applied by next_decision may have changed the state)
        let avail = self.deliverable(d);
        if avail == 0 {
            let dir = &self.dirs[d];
            if dir.quiet_limit.is_none() && dir.rst {
                self.record(idx, side, 'r', space, -1, &dev);
                return Poll::Ready(Err(io::Error::from(io::ErrorKind::ConnectionReset)));
            }
            if dir.quiet_limit.is_none() && dir.fin {
                self.record(idx, side, 'r', space, 0, &dev);
                return Poll::Ready(Ok(0));
            }
            if let Some(w) = waker {
                self.dirs[d].rwakers.push(w.clone());
            }
            self.record(idx, side, 'r', space, -2, &dev);
            return Poll::Pending;
        }
        let mut n = avail.min(space).min(self.rx_chunk);
        n = Self::shrink(n, &dev);
        let dir = &mut self.dirs[d];
        if let Some(s) = dir.splits.range(dir.delivered + 1..).next() {
            n = n.min((*s - dir.delivered) as usize);
        }
        // scatter into the caller's buffers like recvmsg
        let mut left = n;
        for b in buffer.iter_mut() {
            if left == 0 {
                break;
            }
            let take = left.min(b.len());
            for x in b[..take].iter_mut() {
                *x = dir.q.pop_front().unwrap();
            }
            left -= take;
        }
        dir.delivered += n as u64;
        // space was freed: a blocked writer can continue
        self.wakeups.append(&mut dir.wwakers);
        self.record(idx, side, 'r', space, n as i64, &dev);
        Poll::Ready(Ok(n))
    }

    fn send(&mut self, side: u8, waker: Option<&Waker>, buffer: &[IoSlice]) -> Poll<io::Result<usize>> {
        let d = side as usize;
        let total: usize = buffer.iter().map(|b| b.len()).sum();
        // packet boundaries as the sender hands them over (only used to choose split points)
        {
            let dir = &mut self.dirs[d];
            let mut pos = dir.written;
            for b in buffer {
                pos += b.len() as u64;
                dir.bounds.insert(pos);
            }
        }
        let err = |s: &Conn| -> Option<io::ErrorKind> {
            match s.severed {
                Some(Sever::Eof) => Some(io::ErrorKind::BrokenPipe),
                Some(Sever::Reset) => Some(io::ErrorKind::ConnectionReset),
                Some(Sever::Quiet) => None,
                None => {
                    if s.closed[1 - side as usize] {
                        Some(io::ErrorKind::BrokenPipe)
                    } else {
                        None
                    }
                }
            }
        };
        if total == 0 {
            return Poll::Ready(Ok(0));
        }
        if let Some(k) = err(self) {
            let (idx, dev) = self.next_decision();
            self.record(idx, side, 'w', total, -1, &dev);
            return Poll::Ready(Err(io::Error::from(k)));
        }
        if self.severed == Some(Sever::Quiet) {
            // the local kernel keeps accepting (and keeps retransmitting into the void)
            let (idx, dev) = self.next_decision();
            self.dirs[d].written += total as u64;
            self.record(idx, side, 'w', total, total as i64, &dev);
            return Poll::Ready(Ok(total));
        }
        let room = self.cap.saturating_sub(self.dirs[d].q.len());
        if room == 0 {
            if let Some(w) = waker {
                self.dirs[d].wwakers.push(w.clone());
            }
            return Poll::Pending;
        }
        let (idx, dev) = self.next_decision();
        if dev == Some(Action::Pend) {
            if let Some(w) = waker {
                self.wakeups.push(w.clone());
            }
            self.record(idx, side, 'w', total, -2, &dev);
            return Poll::Pending;
        }
        if let Some(k) = err(self) {
            self.record(idx, side, 'w', total, -1, &dev);
            return Poll::Ready(Err(io::Error::from(k)));
        }
        if self.severed == Some(Sever::Quiet) {
            self.dirs[d].written += total as u64;
            self.record(idx, side, 'w', total, total as i64, &dev);
            return Poll::Ready(Ok(total));
        }
        let mut n = total.min(room).min(self.tx_chunk);
        n = Self::shrink(n, &dev);
        // bytes mode: the stream of this direction ends after exactly `o` bytes
        let mut sever_after = None;
        if let Some((o, kind)) = self.dirs[d].cut {
            let w = self.dirs[d].written;
            if w + n as u64 >= o {
                n = (o.saturating_sub(w)) as usize;
                sever_after = Some(kind);
                if w + (total as u64) > o {
                    self.cut_hit = true;
                }
            }
        }
        if n == 0 {
            // the cut is exactly here: nothing of this call gets through
            let kind = sever_after.unwrap();
            self.sever_dir(d, kind);
            if kind == Sever::Quiet {
                self.dirs[d].written += total as u64;
                self.record(idx, side, 'w', total, total as i64, &dev);
                return Poll::Ready(Ok(total));
            }
            let k = err(self).unwrap_or(io::ErrorKind::BrokenPipe);
            self.record(idx, side, 'w', total, -1, &dev);
            return Poll::Ready(Err(io::Error::from(k)));
        }
        let dir = &mut self.dirs[d];
        let mut left = n;
        for b in buffer {
            if left == 0 {
                break;
            }
            let take = left.min(b.len());
            dir.q.extend(&b[..take]);
            left -= take;
        }
        dir.written += n as u64;
        self.wakeups.append(&mut dir.rwakers);
        if let Some(kind) = sever_after {
            self.sever_dir(d, kind);
        }
        self.record(idx, side, 'w', total, n as i64, &dev);
        Poll::Ready(Ok(n))
    }

    /// bytes mode: direction `d` ends here with `kind`; the other direction is severed at the same
    /// moment (bytes already queued in `d` stay readable: the reader of `d` sees exactly the cut)
    fn sever_dir(&mut self, d: usize, kind: Sever) {
        if self.severed.is_some() {
            return;
        }
        self.severed = Some(kind);
        self.sever_t = Some(now_us());
        match kind {
            Sever::Eof => {
                self.dirs[d].fin = true;
                self.dirs[1 - d].fin = true;
            }
            Sever::Reset => {
                self.dirs[d].rst = true;
                self.dirs[1 - d].q.clear();
                self.dirs[1 - d].rst = true;
            }
            Sever::Quiet => {
                // what is queued in `d` is still delivered (the cut is "exactly i bytes"), then silence
                self.dirs[d].quiet_limit = Some(self.dirs[d].written);
                self.dirs[1 - d].quiet_limit = Some(self.dirs[1 - d].delivered);
            }
        }
        self.wake_all();
    }

    fn close(&mut self, side: u8) {
        if self.closed[side as usize] {
            return;
        }
        self.closed[side as usize] = true;
        let inbound = 1 - side as usize;
        let unread = !self.dirs[inbound].q.is_empty();
        self.dirs[inbound].q.clear();
        let out = &mut self.dirs[side as usize];
        if self.severed.is_none() {
            if unread {
                out.rst = true;
            } else {
                out.fin = true;
            }
        }
        self.wake_all();
    }
}

fn flush_wakeups(conn: &SharedConn) {
    let ws: Vec<Waker> = std::mem::take(&mut conn.lock().unwrap().wakeups);
    for w in ws {
        w.wake();
    }
}

pub struct SimTcp {
    conn: SharedConn,
    side: u8,
}

pub fn client_addr() -> SocketAddr {
    "10.0.0.1:50000".parse().unwrap()
}

pub fn server_addr() -> SocketAddr {
    "10.0.0.2:443".parse().unwrap()
}

impl Drop for SimTcp {
    fn drop(&mut self) {
        if let Ok(mut c) = self.conn.lock() {
            c.close(self.side);
        }
        flush_wakeups(&self.conn);
    }
}

impl Socket for SimTcp {
    fn local_addr(&self) -> io::Result<SocketAddr> {
        Ok(if self.side == CLIENT { client_addr() } else { server_addr() })
    }

    fn protocol(&self) -> Protocol {
        Protocol::Tcp
    }

    fn features(&self) -> TransportFeatures {
        TransportFeatures::TCP
    }

    fn poll_peek_len(&self, cx: &mut Context) -> Poll<io::Result<usize>> {
        let mut c = self.conn.lock().unwrap();
        let d = 1 - self.side as usize;
        let n = c.dirs[d].q.len();
        if n > 0 || c.dirs[d].fin {
            return Poll::Ready(Ok(n));
        }
        if c.dirs[d].rst {
            return Poll::Ready(Err(io::Error::from(io::ErrorKind::ConnectionReset)));
        }
        c.dirs[d].rwakers.push(cx.waker().clone());
        Poll::Pending
    }

    fn poll_recv(&self, cx: &mut Context, _addr: &mut Addr, cmsg: &mut cmsg::Receiver, buffer: &mut [IoSliceMut]) -> Poll<io::Result<usize>> {
        let res = self.conn.lock().unwrap().recv(self.side, Some(cx.waker()), buffer);
        flush_wakeups(&self.conn);
        if let Poll::Ready(Ok(_)) = &res {
            // as `impl Socket for tokio::net::TcpStream`
            cmsg.set_ecn(ExplicitCongestionNotification::NotEct);
            cmsg.set_segment_len(0);
        }
        res
    }

    fn try_send(&self, _addr: &Addr, _ecn: ExplicitCongestionNotification, buffer: &[IoSlice]) -> io::Result<usize> {
        let res = self.conn.lock().unwrap().send(self.side, None, buffer);
        flush_wakeups(&self.conn);
        match res {
            Poll::Ready(r) => r,
            Poll::Pending => Err(io::Error::from(io::ErrorKind::WouldBlock)),
        }
    }

    fn poll_send(&self, cx: &mut Context, _addr: &Addr, _ecn: ExplicitCongestionNotification, buffer: &[IoSlice]) -> Poll<io::Result<usize>> {
        let res = self.conn.lock().unwrap().send(self.side, Some(cx.waker()), buffer);
        flush_wakeups(&self.conn);
        res
    }

    fn send_finish(&self) -> io::Result<()> {
        // as `impl Socket for tokio::net::TcpStream`: closures are authenticated by the dc stream, the
        // TCP layer is not shut down
        Ok(())
    }
}

impl Application for SimTcp {
    fn protocol(&self) -> Protocol {
        Protocol::Tcp
    }

    fn features(&self) -> TransportFeatures {
        TransportFeatures::TCP
    }

    fn write_application(&self) -> &dyn Socket {
        self
    }

    fn read_application(&self) -> &dyn Socket {
        self
    }
}

// ------------------------------------------------------------------------------------------
// environment + peer
// ------------------------------------------------------------------------------------------

#[derive(Clone)]
pub struct TcpEnv {
    sub: Sub,
    rt: Arc<runtime::bach::Handle>,
    gso: Gso,
}

impl TcpEnv {
    fn new() -> TcpEnv {
        TcpEnv { sub: NoopSubscriber, rt: Arc::new(runtime::bach::Handle::current()), gso: s2n_quic_platform::features::gso::MAX_SEGMENTS.into() }
    }
}

impl Environment for TcpEnv {
    type Clock = Clock;
    type Subscriber = Sub;

    fn subscriber(&self) -> &Sub {
        &self.sub
    }

    fn clock(&self) -> Clock {
        Clock::default()
    }

    fn gso(&self) -> Gso {
        self.gso.clone()
    }

    fn reader_rt(&self) -> runtime::ArcHandle<Sub> {
        self.rt.clone()
    }

    fn spawn_reader<F: 'static + Send + core::future::Future<Output = ()>>(&self, f: F) {
        // never called for TCP (no read worker)
        self.rt.spawn(f.primary());
    }

    fn writer_rt(&self) -> runtime::ArcHandle<Sub> {
        self.rt.clone()
    }

    fn spawn_writer<F: 'static + Send + core::future::Future<Output = ()>>(&self, f: F) {
        self.rt.spawn(f.primary());
    }
}

struct SimPeer {
    socket: SimTcp,
    peer_addr: SocketAddress,
    recv_buffer: recv::shared::RecvBuffer,
}

impl Peer<TcpEnv> for SimPeer {
    type ReadWorkerSocket = ();
    type WriteWorkerSocket = ();

    fn features(&self) -> TransportFeatures {
        TransportFeatures::TCP
    }

    fn setup(self, _env: &TcpEnv) -> io::Result<(SocketSet<(), ()>, recv::shared::RecvBuffer)> {
        // exactly what `environment::tokio::tcp::Registered::setup` builds
        let application = Box::new(Arc::new(self.socket));
        let set = SocketSet { application, read_worker: None, write_worker: None, remote_addr: self.peer_addr, source_queue_id: None };
        Ok((set, self.recv_buffer))
    }
}

/// `application::Builder::build` is `pub(crate)`; its three steps are public
fn build(b: s2n_quic_dc::stream::application::Builder<Sub>) -> io::Result<(Reader<Sub>, Writer<Sub>)> {
    let sockets = b.sockets.build()?;
    let r = b.read.build(b.shared.clone(), sockets.clone());
    let w = b.write.build(b.shared, sockets);
    Ok((r, w))
}

/// the client side of `stream::client::tokio::connect_tcp_with`
fn open(env: &TcpEnv, entry: MapPeer, socket: SimTcp) -> io::Result<(Reader<Sub>, Writer<Sub>)> {
    // the client's receive buffer as `client::tokio::recv_buffer()` makes it
    let recv_buffer = LocalBuffer::new(msg::recv::Message::new(9000), None);
    let peer = SimPeer { socket, peer_addr: server_addr().into(), recv_buffer: Either::A(recv_buffer) };
    let b = endpoint::open_stream(env, entry, peer, None)?;
    build(b)
}

/// The accept steps of `server::tokio::tcp::worker` (`poll_initial_packet`, then
/// `derive_stream_credentials`, then `accept_stream`; on unknown credentials the secret control packet
/// is written back and the socket closed), with the same public functions. Not replicated: the
/// worker's own policy of rejecting an initial packet that is still incomplete once more than 10 000
/// bytes are buffered (see notes/wK.md).
async fn accept(env: &TcpEnv, socket: SimTcp, map: &Map) -> io::Result<(Reader<Sub>, Writer<Sub>)> {
    // `worker::Context::new`: msg::recv::Message::new(u16::MAX)
    let mut recv_buffer = msg::recv::Message::new(u16::MAX);
    // DCMC_TCP_EXTRA=acceptlimit replicates the worker's check at the top of its loop (probe, see notes/wK.md F2)
    let limit = crate::families::tcp_extra("acceptlimit");
    let initial = core::future::poll_fn(|cx| loop {
        if limit && recv_buffer.payload_len() > 10_000 {
            return Poll::Ready(Err(io::Error::new(io::ErrorKind::Other, "FileTooLarge: more than 10000 bytes buffered and the initial packet is still incomplete")));
        }
        let res = match socket.poll_recv_buffer(cx, &mut recv_buffer) {
            Poll::Ready(Ok(n)) => n,
            Poll::Ready(Err(e)) => return Poll::Ready(Err(e)),
            Poll::Pending => return Poll::Pending,
        };
        match server::InitialPacket::peek(&mut recv_buffer, 16) {
            Ok(p) => return Poll::Ready(Ok(p)),
            Err(s2n_codec::DecoderError::UnexpectedEof(_)) if res > 0 => continue,
            Err(_) => return Poll::Ready(Err(io::Error::from(io::ErrorKind::InvalidData))),
        }
    })
    .await?;
    let recv_buffer = Either::A(LocalBuffer::new(recv_buffer.take(), None));
    let mut secret_control = vec![];
    let (crypto, parameters, application_data) = match endpoint::derive_stream_credentials(&initial, map, &TransportFeatures::TCP, &mut secret_control) {
        Ok(v) => v,
        Err(error) => {
            // `WorkerState::Erroring`: send the secret control packet, then close
            let mut off = 0;
            while off < secret_control.len() {
                let addr = Addr::new(Default::default());
                let n = core::future::poll_fn(|cx| socket.poll_send(cx, &addr, ExplicitCongestionNotification::NotEct, &[IoSlice::new(&secret_control[off..])])).await;
                match n {
                    Ok(n) => off += n,
                    Err(_) => break,
                }
            }
            drop(socket);
            return Err(error);
        }
    };
    let peer = SimPeer { socket, peer_addr: client_addr().into(), recv_buffer };
    let b = endpoint::accept_stream(env.clock().get_time(), env, peer, &initial, map, (), None, crypto, parameters, secret_control, application_data).map_err(|e| e.error)?;
    build(b)
}

// ------------------------------------------------------------------------------------------
// path secrets
// ------------------------------------------------------------------------------------------

/// a completed TLS session whose exporter yields fixed bytes (both sides export the same secret)
struct FixedSession;

impl s2n_quic_core::crypto::tls::TlsSession for FixedSession {
    fn tls_exporter(&self, _label: &[u8], _context: &[u8], output: &mut [u8]) -> Result<(), s2n_quic_core::crypto::tls::TlsExportError> {
        for (i, b) in output.iter_mut().enumerate() {
            *b = crate::mccore::prf_byte(0x5ec2e7, i as u64);
        }
        Ok(())
    }

    fn cipher_suite(&self) -> s2n_quic_core::crypto::tls::CipherSuite {
        s2n_quic_core::crypto::tls::CipherSuite::TLS_AES_128_GCM_SHA256
    }

    fn peer_cert_chain_der(&self) -> Result<Vec<Vec<u8>>, s2n_quic_core::crypto::tls::ChainError> {
        Err(s2n_quic_core::crypto::tls::ChainError::failure())
    }

    fn client_cert_chain_der(&self) -> Result<Option<Vec<u8>>, s2n_quic_core::crypto::tls::ChainError> {
        Err(s2n_quic_core::crypto::tls::ChainError::failure())
    }
}

fn app_params(mtu: u16) -> s2n_quic_core::dc::ApplicationParams {
    // as `stream::testing::Client::params`
    let mut params = s2n_quic_core::dc::testing::TEST_APPLICATION_PARAMS;
    params.max_datagram_size = mtu.into();
    params
}

/// what `Map::test_insert_pair` does for the UDP families (it is `pub(crate)`), through the public
/// handshake interface of the map; each side stores the peer's parameters
fn pair_maps(client: &Map, server: &Map, client_mtu: u16, server_mtu: u16) -> Option<MapPeer> {
    use s2n_quic_core::dc::{ConnectionInfo, Endpoint as _, Path as _};
    use s2n_quic_core::event::IntoEvent as _;
    let version = s2n_quic_core::dc::SUPPORTED_VERSIONS[0];
    let sa: SocketAddress = server_addr().into();
    let ca: SocketAddress = client_addr().into();
    let mut cm = client.clone();
    let mut sm = server.clone();
    let mut cp = cm.new_path(&ConnectionInfo::new(&sa, version, app_params(server_mtu), s2n_quic_core::endpoint::Type::Client.into_event()))?;
    let mut sp = sm.new_path(&ConnectionInfo::new(&ca, version, app_params(client_mtu), s2n_quic_core::endpoint::Type::Server.into_event()))?;
    let ct = cp.on_path_secrets_ready(&FixedSession).ok()?;
    let st = sp.on_path_secrets_ready(&FixedSession).ok()?;
    cp.on_peer_stateless_reset_tokens(st.iter());
    sp.on_peer_stateless_reset_tokens(ct.iter());
    cp.on_dc_handshake_complete();
    sp.on_dc_handshake_complete();
    client.get_untracked(server_addr())
}

// ------------------------------------------------------------------------------------------
// one execution
// ------------------------------------------------------------------------------------------

pub fn execute_tcp(scn: &Scenario, schedule: &Schedule) -> Record {
    if let Ok(mut g) = LAST_PANIC_AT.lock() {
        *g = None;
    }
    let params = scn.tcp.clone().expect("tcp scenario");
    let conn = new_conn(&params, schedule);
    let log = Log(Arc::new(Mutex::new(Vec::new())));
    let scn = scn.clone();
    let horizon = Duration::from_millis(scn.horizon_ms);
    let mut rt = bach::environment::default::Runtime::new().with_seed(0x5eed);
    let res = {
        let log = log.clone();
        let conn = conn.clone();
        let rt = &mut rt;
        catch_unwind(AssertUnwindSafe(move || {
            rt.run(move || {
                // the background shutdown tasks of a stream are primary tasks: the run ends when they are done
                async move {
                    (horizon * 2).sleep().await;
                    panic!("{}", WATCHDOG_MSG);
                }
                .spawn();

                async move {
                    // two path secret maps joined by a shared secret. The secret is inserted through the
                    // production path (`impl dc::Endpoint for Map`, `impl dc::Path for HandshakingPath`:
                    // what a completed QUIC handshake calls) with a TLS session that exports fixed bytes.
                    let client_map = s2n_quic_dc::path::secret::map::testing::new(16);
                    let server_map = s2n_quic_dc::path::secret::map::testing::new(16);
                    let entry = match pair_maps(&client_map, &server_map, scn.client_mtu, scn.server_mtu) {
                        Some(e) => e,
                        None => {
                            log.push(CLIENT, 'c', Ev::ConnectErr("path secret not available".into()));
                            return;
                        }
                    };
                    {
                        let map = server_map.clone();
                        conn.lock().unwrap().forget = Some(Box::new(move || map.drop_state()));
                    }
                    let env = TcpEnv::new();
                    let c_sock = SimTcp { conn: conn.clone(), side: CLIENT };
                    let s_sock = SimTcp { conn: conn.clone(), side: SERVER };

                    // ------------------------------------------------------------ client
                    let ct = {
                        let (env, scn, log, lg) = (env.clone(), scn.clone(), log.clone(), log.clone());
                        with_horizon(
                            async move {
                                let (r, mut w) = match open(&env, entry, c_sock) {
                                    Ok(s) => s,
                                    Err(e) => {
                                        log.push(CLIENT, 'c', Ev::ConnectErr(err_string(&e)));
                                        return;
                                    }
                                };
                                if scn.tcp.as_ref().map(|p| p.prelude).unwrap_or(true) {
                                    let mut prelude = s2n_quic_core::buffer::reader::storage::Empty;
                                    if let Err(e) = w.write_from(&mut prelude).await {
                                        log.push(CLIENT, 'c', Ev::ConnectErr(err_string(&e)));
                                        return;
                                    }
                                }
                                log.push(CLIENT, 'c', Ev::Connected);
                                client_app(r, w, scn, horizon, log).await;
                            },
                            horizon,
                            CLIENT,
                            'm',
                            lg,
                        )
                        .primary()
                        .spawn()
                    };

                    // ------------------------------------------------------------ server
                    let st = {
                        let (env, scn, log, lg) = (env.clone(), scn.clone(), log.clone(), log.clone());
                        let map = server_map.clone();
                        with_horizon(
                            async move {
                                let accepted = accept(&env, s_sock, &map).await;
                                drop(map);
                                let (r, w) = match accepted {
                                    Ok(s) => s,
                                    Err(e) => {
                                        log.push(SERVER, 'c', Ev::AcceptErr(err_string(&e)));
                                        return;
                                    }
                                };
                                log.push(SERVER, 'c', Ev::Accepted);
                                server_app(r, w, scn, horizon, log).await;
                            },
                            horizon,
                            SERVER,
                            'm',
                            lg,
                        )
                        .primary()
                        .spawn()
                    };
                    let _ = ct.await;
                    let _ = st.await;
                    // the hook owns a clone of the server's map: it dies inside the runtime, like the maps
                    conn.lock().unwrap().forget = None;
                    drop(env);
                    drop(client_map);
                    drop(server_map);
                }
                .group("host")
                .primary()
                .spawn();
            });
        }))
    };
    if res.is_err() {
        std::mem::forget(rt);
    } else {
        drop(rt);
    }
    let mut rec = Record::default();
    if let Err(e) = res {
        let msg = if let Some(s) = e.downcast_ref::<&str>() {
            s.to_string()
        } else if let Some(s) = e.downcast_ref::<String>() {
            s.clone()
        } else {
            "panic (non-string payload)".into()
        };
        let at = LAST_PANIC_AT.lock().ok().and_then(|mut g| g.take()).unwrap_or_else(|| "?".into());
        rec.panicked = Some(msg);
        rec.panicked_at = Some(at);
    }
    match conn.lock() {
        Ok(mut c) => {
            rec.calls = std::mem::take(&mut c.calls);
            rec.wire_len = [c.dirs[0].written, c.dirs[1].written];
            rec.bounds = [c.dirs[0].bounds.iter().cloned().collect(), c.dirs[1].bounds.iter().cloned().collect()];
            rec.sever_t = c.sever_t;
            rec.forget_at = c.forget_at;
            rec.cut_hit = c.cut_hit;
            if res_is_panic(&rec) {
                // a panic may have left the hook (and its map clone) behind: leak it, the process exits
                if let Some(f) = c.forget.take() {
                    std::mem::forget(f);
                }
            }
        }
        Err(p) => {
            // poisoned by a panic inside a socket call
            let mut c = p.into_inner();
            rec.calls = std::mem::take(&mut c.calls);
            if let Some(f) = c.forget.take() {
                std::mem::forget(f);
            }
        }
    }
    rec.app = log.0.lock().unwrap().clone();
    rec.end_t = rec.app.iter().map(|a| a.t).max().unwrap_or(0);
    rec
}

fn res_is_panic(rec: &Record) -> bool {
    rec.panicked.is_some()
}

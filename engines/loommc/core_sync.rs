// loommc / core flavour: C17 scenarios on the REAL s2n-quic-core `sync` primitives under loom.
//
// Mounted by hook H2 at the end of quic/s2n-quic-core/src/sync.rs:
//
//     #[cfg(all(test, loom, aws_s2n_quic_verif))]
//     #[path = "/verif/engines/loommc/core_sync.rs"]
//     mod verif_loommc;
//
// Build flavour `loomcore`: RUSTFLAGS="--cfg aws_s2n_quic_verif --cfg loom", -p s2n-quic-core.
// Every `#[test]` below is one scenario = one report `<VERIF_OUT_DIR>/<test name>.json`.
//
// Names:  c17_a_*    general scenarios (filter `verif_loommc::c17_a_`)
//         c17_uaf_*  use-after-free-on-close scenarios with the poisoning allocator
//                    (filter `verif_loommc::c17_uaf_`) - the known defect lives here
//
// Oracles (all independent of the code under test):
//  * FIFO/exactly-once: items are the integers 0,1,2,...; the consumer must see them in that
//    order without gap or duplicate.
//  * no unwritten / half-written slot: for item i the producer `with_mut`-writes shadow cell i
//    (a `loom::cell::UnsafeCell`) right before pushing and the consumer `with`-reads it right after
//    popping. A missing release/acquire edge between the two is a loom causality violation.
//  * exactly-once delivery-or-drop: `drops::Item` counts creations and drops in std atomics.
//  * no lost wake-up: all waiting is `loom::future::block_on`; a lost wake-up is a loom deadlock.
//    Where a later close/drop would also wake the sleeper (and so mask a lost data wake-up) the
//    scenario keeps the peer's handle alive until the sleeper has finished.
//  * no touch after free: `guard` (global allocator of this test binary) poisons (0xDE) and
//    quarantines every freed CachePadded-aligned block for the rest of the execution, so a stale
//    access derails loom's object lookup deterministically instead of "working by luck".
#![allow(dead_code, clippy::all)]

#[path = "/verif/engines/mccore/mccore.rs"]
mod mccore;
#[path = "/verif/engines/loommc/support.rs"]
mod support;

use self::mccore::Json;
use self::support::{self as sup, drops, drops::Item, Scenario};
use super::{atomic_waker, cursor, spsc, worker};
use core::future::poll_fn;
use core::ptr::NonNull;
use core::task::{Context, Poll};
use std::sync::Arc as StdArc;

// =============================================================================================
// poisoning / quarantining allocator
// =============================================================================================

pub mod guard {
    use std::alloc::{GlobalAlloc, Layout, System};
    use std::sync::atomic::{AtomicU8, AtomicUsize, Ordering};

    pub const OFF: u8 = 0;
    /// freed guarded blocks keep their content and are not reused before the next execution:
    /// a stale access behaves as if the block were still alive (used to look at everything
    /// *else* while the close use-after-free is unfixed)
    pub const QUARANTINE: u8 = 1;
    /// freed guarded blocks are filled with 0xDE and not reused before the next execution
    pub const POISON: u8 = 2;

    /// blocks of this alignment are guarded: spsc `Header`, `atomic_waker::Storage`,
    /// `worker::State` all contain a `CachePadded<_>`; nothing in loom/std does
    pub const GUARD_ALIGN: usize = core::mem::align_of::<crossbeam_utils::CachePadded<u8>>();

    static MODE: AtomicU8 = AtomicU8::new(OFF);
    const CAP: usize = 512;
    #[allow(clippy::declare_interior_mutable_const)]
    const Z: AtomicUsize = AtomicUsize::new(0);
    static PTRS: [AtomicUsize; CAP] = [Z; CAP];
    static SIZES: [AtomicUsize; CAP] = [Z; CAP];
    static LEN: AtomicUsize = AtomicUsize::new(0);
    pub static GUARDED_FREES: AtomicUsize = AtomicUsize::new(0);
    pub static OVERFLOW: AtomicUsize = AtomicUsize::new(0);
    static DIRTY: AtomicUsize = AtomicUsize::new(0);

    pub struct Guard;

    unsafe impl GlobalAlloc for Guard {
        unsafe fn alloc(&self, layout: Layout) -> *mut u8 {
            System.alloc(layout)
        }
        unsafe fn alloc_zeroed(&self, layout: Layout) -> *mut u8 {
            System.alloc_zeroed(layout)
        }
        unsafe fn dealloc(&self, ptr: *mut u8, layout: Layout) {
            let mode = MODE.load(Ordering::Relaxed);
            if mode != OFF && layout.align() == GUARD_ALIGN {
                GUARDED_FREES.fetch_add(1, Ordering::Relaxed);
                if mode == POISON {
                    core::ptr::write_bytes(ptr, 0xDE, layout.size());
                }
                let i = LEN.fetch_add(1, Ordering::Relaxed);
                if i < CAP {
                    PTRS[i].store(ptr as usize, Ordering::Relaxed);
                    SIZES[i].store(layout.size(), Ordering::Relaxed);
                } else {
                    // never reuse: leak it
                    OVERFLOW.fetch_add(1, Ordering::Relaxed);
                }
                return;
            }
            System.dealloc(ptr, layout)
        }
    }

    /// release the previous execution's quarantine; in POISON mode first verify that nobody
    /// wrote into a freed block
    pub fn exec_begin(mode: u8) {
        let prev = MODE.swap(OFF, Ordering::Relaxed);
        let n = LEN.swap(0, Ordering::Relaxed).min(CAP);
        for i in 0..n {
            let ptr = PTRS[i].load(Ordering::Relaxed) as *mut u8;
            let size = SIZES[i].load(Ordering::Relaxed);
            unsafe {
                if prev == POISON {
                    let s = core::slice::from_raw_parts(ptr, size);
                    if s.iter().any(|b| *b != 0xDE) {
                        DIRTY.fetch_add(1, Ordering::Relaxed);
                    }
                }
                System.dealloc(ptr, Layout::from_size_align_unchecked(size, GUARD_ALIGN));
            }
        }
        MODE.store(mode, Ordering::Relaxed);
    }

    /// number of freed blocks that were written to after `dealloc` (checked when released)
    pub fn dirty() -> usize {
        DIRTY.load(Ordering::Relaxed)
    }

    pub fn assert_clean() {
        assert!(dirty() == 0, "write into freed (poisoned) block detected: {} block(s) modified after dealloc", dirty());
    }

    /// after the last execution: release (and verify) what it left in quarantine
    pub fn after_run() -> Option<String> {
        exec_begin(OFF);
        if dirty() == 0 {
            None
        } else {
            Some(format!("write into freed (poisoned) block detected: {} block(s) modified after dealloc", dirty()))
        }
    }
}

#[global_allocator]
static VERIF_GUARD_ALLOC: guard::Guard = guard::Guard;

/// spsc scenarios other than `c17_uaf_*` run in QUARANTINE mode until the close
/// use-after-free is fixed (otherwise every one of them trips over it, see README);
/// `VERIF_LOOMMC_POISON=all` switches them to POISON (used to validate the fix).
fn spsc_mode() -> u8 {
    match std::env::var("VERIF_LOOMMC_POISON").as_deref() {
        Ok("all") => guard::POISON,
        _ => guard::QUARANTINE,
    }
}

fn begin(mode: u8) {
    sup::set_after_check(guard::after_run);
    guard::assert_clean();
    guard::exec_begin(mode);
    drops::reset();
}

// =============================================================================================
// shadow cells
// =============================================================================================

struct Shadow(Vec<loom::cell::UnsafeCell<u32>>);
// the point of the cells is to be raced on; loom reports unsynchronised accesses
unsafe impl Send for Shadow {}
unsafe impl Sync for Shadow {}

const MAGIC: u32 = 0x5eed_0000;

impl Shadow {
    fn new(n: usize) -> StdArc<Shadow> {
        StdArc::new(Shadow((0..n).map(|_| loom::cell::UnsafeCell::new(0)).collect()))
    }
    fn write(&self, i: u32) {
        self.0[i as usize].with_mut(|p| unsafe { *p = MAGIC + i });
    }
    fn read(&self, i: u32) {
        self.0[i as usize].with(|p| {
            let v = unsafe { *p };
            assert_eq!(v, MAGIC + i, "shadow cell {} not (fully) written when the consumer saw the item", i);
        });
    }
}

// =============================================================================================
// spsc building blocks
// =============================================================================================

type Tx = spsc::Sender<Item>;
type Rx = spsc::Receiver<Item>;

#[derive(Debug, Clone, Copy, PartialEq)]
enum End {
    Done,
    PeerClosed,
}

/// pushes items `0..n` with `try_slice` + spinning
fn tx_spin(send: &mut Tx, shadow: &Shadow, n: u32) -> (u32, End) {
    let mut next = 0u32;
    let mut held: Option<Item> = None;
    let mut spins = 0u32;
    while next < n {
        match send.try_slice() {
            Ok(Some(mut slice)) => {
                while next < n {
                    let item = held.take().unwrap_or_else(|| {
                        shadow.write(next);
                        Item::new(next)
                    });
                    match slice.push(item) {
                        Ok(()) => next += 1,
                        Err(spsc::PushError::Full(item)) => {
                            held = Some(item);
                            break;
                        }
                        Err(spsc::PushError::Closed) => {
                            sup::note(format!("tx:pushed={},closed", next));
                            return (next, End::PeerClosed);
                        }
                    }
                }
            }
            Ok(None) => {
                spins += 1;
                loom::hint::spin_loop();
            }
            Err(_) => {
                sup::note(format!("tx:pushed={},closed", next));
                return (next, End::PeerClosed);
            }
        }
    }
    sup::note(format!("tx:pushed={},spun={}", next, spins.min(2)));
    (next, End::Done)
}

/// pushes items `0..n` with `poll_slice`, parking when the queue is full
fn tx_async(send: &mut Tx, shadow: &Shadow, n: u32) -> (u32, End) {
    let mut next = 0u32;
    let mut held: Option<Item> = None;
    let mut parks = 0u32;
    let end = loom::future::block_on(poll_fn(|cx: &mut Context| loop {
        if next == n {
            return Poll::Ready(End::Done);
        }
        match send.poll_slice(cx) {
            Poll::Pending => {
                parks += 1;
                return Poll::Pending;
            }
            Poll::Ready(Err(_)) => return Poll::Ready(End::PeerClosed),
            Poll::Ready(Ok(mut slice)) => {
                while next < n {
                    let item = held.take().unwrap_or_else(|| {
                        shadow.write(next);
                        Item::new(next)
                    });
                    match slice.push(item) {
                        Ok(()) => next += 1,
                        Err(spsc::PushError::Full(item)) => {
                            held = Some(item);
                            break;
                        }
                        Err(spsc::PushError::Closed) => return Poll::Ready(End::PeerClosed),
                    }
                }
            }
        }
    }));
    drop(held);
    sup::note(format!("tx:pushed={},parks={},{:?}", next, parks.min(3), end));
    (next, end)
}

/// pops until `limit` items were seen (-> Done) or the channel reports closed (-> PeerClosed)
fn rx_spin(recv: &mut Rx, shadow: &Shadow, limit: u32) -> (u32, End) {
    let mut seen = 0u32;
    let mut spins = 0u32;
    loop {
        if seen >= limit {
            sup::note(format!("rx:seen={},spun={}", seen, spins.min(2)));
            return (seen, End::Done);
        }
        match recv.try_slice() {
            Ok(Some(mut slice)) => {
                while seen < limit {
                    let Some(item) = slice.pop() else { break };
                    assert_eq!(item.0, seen, "item out of order / duplicated / skipped");
                    shadow.read(item.0);
                    seen += 1;
                }
            }
            Ok(None) => {
                spins += 1;
                loom::hint::spin_loop();
            }
            Err(_) => {
                sup::note(format!("rx:seen={},closed,spun={}", seen, spins.min(2)));
                return (seen, End::PeerClosed);
            }
        }
    }
}

fn rx_async(recv: &mut Rx, shadow: &Shadow, limit: u32) -> (u32, End) {
    let mut seen = 0u32;
    let mut parks = 0u32;
    let end = loom::future::block_on(poll_fn(|cx: &mut Context| loop {
        if seen >= limit {
            return Poll::Ready(End::Done);
        }
        match recv.poll_slice(cx) {
            Poll::Pending => {
                parks += 1;
                return Poll::Pending;
            }
            Poll::Ready(Err(_)) => return Poll::Ready(End::PeerClosed),
            Poll::Ready(Ok(mut slice)) => {
                while seen < limit {
                    let Some(item) = slice.pop() else { break };
                    assert_eq!(item.0, seen, "item out of order / duplicated / skipped");
                    shadow.read(item.0);
                    seen += 1;
                }
            }
        }
    }));
    sup::note(format!("rx:seen={},parks={},{:?}", seen, parks.min(3), end));
    (seen, end)
}

const NO_LIMIT: u32 = u32::MAX;

/// FIFO family: the sender pushes all `n` items and drops; the receiver reads until closed.
/// Everything pushed before the close must arrive, in order, exactly once.
fn spsc_fifo(name: &'static str, capacity: usize, n: u32, tx: fn(&mut Tx, &Shadow, u32) -> (u32, End), rx: fn(&mut Rx, &Shadow, u32) -> (u32, End)) {
    let scn = Scenario::new(name, module_path!(), "c17.spsc")
        .cfg("capacity", capacity as u64)
        .cfg("items", n)
        .cfg("shape", "tx pushes all then drops || rx reads until closed");
    let mode = spsc_mode();
    sup::run(scn, move || {
        begin(mode);
        let (mut send, mut recv) = spsc::channel::<Item>(capacity);
        let shadow = Shadow::new(n as usize);
        let s1 = shadow.clone();
        let s2 = shadow.clone();
        let a = loom::thread::spawn(move || {
            let (pushed, end) = tx(&mut send, &s1, n);
            assert_eq!(end, End::Done, "receiver never closes first in this scenario");
            assert_eq!(pushed, n);
        });
        {
            let (seen, end) = rx(&mut recv, &s2, NO_LIMIT);
            assert_eq!(end, End::PeerClosed);
            assert_eq!(seen, n, "receiver saw the close before all {} pushed items", n);
            drop(recv);
        }
        a.join().unwrap();
        drops::check(name);
    });
}

#[test]
fn c17_a_spsc_fifo_spin_spin() {
    spsc_fifo("c17_a_spsc_fifo_spin_spin", 2, 4, tx_spin, rx_spin);
}

#[test]
fn c17_a_spsc_fifo_spin_async() {
    spsc_fifo("c17_a_spsc_fifo_spin_async", 1, 2, tx_spin, rx_async);
}

#[test]
fn c17_a_spsc_fifo_async_spin() {
    spsc_fifo("c17_a_spsc_fifo_async_spin", 1, sup::tier().pick(2, 3), tx_async, rx_spin);
}

#[test]
fn c17_a_spsc_fifo_async_async() {
    spsc_fifo("c17_a_spsc_fifo_async_async", 1, 2, tx_async, rx_async);
}

// --- sender dropped after 0/1/2 pushes while the receiver is parked -------------------------

#[test]
fn c17_a_spsc_close_tx_after_0() {
    spsc_fifo("c17_a_spsc_close_tx_after_0", 2, 0, tx_async, rx_async);
}

#[test]
fn c17_a_spsc_close_tx_after_1() {
    spsc_fifo("c17_a_spsc_close_tx_after_1", 2, 1, tx_async, rx_async);
}

#[test]
fn c17_a_spsc_close_tx_after_2() {
    spsc_fifo("c17_a_spsc_close_tx_after_2", 2, 2, tx_async, rx_async);
}

// --- data wake-ups only: nobody closes before both sides are finished -----------------------

/// capacity 1: the sender parks on the full queue, the receiver parks on the empty one; both
/// handles stay alive until both are done, so only `persist_head`/`persist_tail` wake-ups can
/// unpark them (a close would mask a lost data wake-up)
#[test]
fn c17_a_spsc_wake_no_close() {
    let n = 2u32;
    let scn = Scenario::new("c17_a_spsc_wake_no_close", module_path!(), "c17.spsc")
        .cfg("capacity", 1u64)
        .cfg("items", n)
        .cfg("shape", "async tx || async rx; handles dropped only after both finished");
    let mode = spsc_mode();
    sup::run(scn, move || {
        begin(mode);
        let (mut send, mut recv) = spsc::channel::<Item>(1);
        let shadow = Shadow::new(n as usize);
        let s1 = shadow.clone();
        let s2 = shadow.clone();
        let a = loom::thread::spawn(move || {
            let (pushed, end) = tx_async(&mut send, &s1, n);
            assert_eq!((pushed, end), (n, End::Done));
            send
        });
        let (seen, end) = rx_async(&mut recv, &s2, n);
        assert_eq!((seen, end), (n, End::Done));
        let send = a.join().unwrap();
        drop(send);
        drop(recv);
        drops::check("spsc_wake_no_close");
    });
}

// --- receiver dropped while the sender is parked on a full queue -----------------------------

fn spsc_close_rx(name: &'static str, pops: u32) {
    let n = 3u32;
    let scn = Scenario::new(name, module_path!(), "c17.spsc")
        .cfg("capacity", 1u64)
        .cfg("items", n)
        .cfg("rx_pops_before_drop", pops)
        .cfg("shape", "async tx wants to push 3 into capacity 1 || rx pops k then drops");
    let mode = spsc_mode();
    sup::run(scn, move || {
        begin(mode);
        let (mut send, mut recv) = spsc::channel::<Item>(1);
        let shadow = Shadow::new(n as usize);
        let s1 = shadow.clone();
        let s2 = shadow.clone();
        let a = loom::thread::spawn(move || {
            let (pushed, end) = tx_async(&mut send, &s1, n);
            // capacity 1 and at most `pops` pops: at most pops+1 pushes can ever succeed
            assert_eq!(end, End::PeerClosed, "sender pushed {} items into a queue that was drained only {} times", pushed, pops);
            assert!(pushed <= pops + 1, "pushed {} > pops {} + capacity 1", pushed, pops);
            pushed
        });
        {
            let (seen, end) = rx_async(&mut recv, &s2, pops);
            assert_eq!((seen, end), (pops, End::Done));
            drop(recv);
        }
        a.join().unwrap();
        drops::check(name);
    });
}

#[test]
fn c17_a_spsc_close_rx_parked_tx_0() {
    spsc_close_rx("c17_a_spsc_close_rx_parked_tx_0", 0);
}

#[test]
fn c17_a_spsc_close_rx_parked_tx_1() {
    spsc_close_rx("c17_a_spsc_close_rx_parked_tx_1", 1);
}

// --- both dropped concurrently with items inside ---------------------------------------------

fn spsc_close_both(name: &'static str, family: &'static str, mode: u8, prefill: u32, tx_pushes: u32, rx_pops: u32) {
    let n = prefill + tx_pushes;
    let scn = Scenario::new(name, module_path!(), family)
        .cfg("capacity", 2u64)
        .cfg("prefilled", prefill)
        .cfg("tx_pushes_before_drop", tx_pushes)
        .cfg("rx_try_pops_before_drop", rx_pops)
        .cfg("allocator", if mode == guard::POISON { "poison+quarantine" } else { "quarantine" })
        .cfg("shape", "tx pushes (no waiting) then drops || rx try-pops (no waiting) then drops");
    sup::run(scn, move || {
        begin(mode);
        let (mut send, mut recv) = spsc::channel::<Item>(2);
        let shadow = Shadow::new(n.max(1) as usize);
        {
            let mut slice = send.try_slice().unwrap().unwrap();
            for i in 0..prefill {
                shadow.write(i);
                assert!(slice.push(Item::new(i)).is_ok());
            }
        }
        let s1 = shadow.clone();
        let s2 = shadow.clone();
        let a = loom::thread::spawn(move || {
            let mut pushed = 0;
            if tx_pushes > 0 {
                if let Ok(Some(mut slice)) = send.try_slice() {
                    for i in prefill..n {
                        s1.write(i);
                        if slice.push(Item::new(i)).is_err() {
                            break;
                        }
                        pushed += 1;
                    }
                }
            }
            sup::note(format!("tx:pushed={}", pushed));
            drop(send);
        });
        {
            let mut seen = 0u32;
            if rx_pops > 0 {
                if let Ok(Some(mut slice)) = recv.try_slice() {
                    while seen < rx_pops {
                        let Some(item) = slice.pop() else { break };
                        assert_eq!(item.0, seen, "item out of order / duplicated / skipped");
                        s2.read(item.0);
                        seen += 1;
                    }
                }
            }
            sup::note(format!("rx:seen={}", seen));
            drop(recv);
        }
        a.join().unwrap();
        drops::check(name);
    });
}

#[test]
fn c17_a_spsc_close_both() {
    spsc_close_both("c17_a_spsc_close_both", "c17.spsc", spsc_mode(), 0, 2, 1);
}

// =============================================================================================
// use-after-free on close (known defect of the pinned tree; see README / notes)
// =============================================================================================

/// minimal: one item inside, one thread drops the Sender, the other the Receiver
#[test]
fn c17_uaf_spsc_close_race() {
    spsc_close_both("c17_uaf_spsc_close_race", "c17.spsc.uaf", guard::POISON, 1, 0, 0);
}

/// the everyday shape: receiver parked, sender pushes one item and goes away, receiver
/// consumes it, observes the close and goes away too
#[test]
fn c17_uaf_spsc_push_close() {
    let n = 1u32;
    let scn = Scenario::new("c17_uaf_spsc_push_close", module_path!(), "c17.spsc.uaf")
        .cfg("capacity", 2u64)
        .cfg("items", n)
        .cfg("allocator", "poison+quarantine")
        .cfg("shape", "async tx pushes 1 then drops || async rx reads until closed then drops");
    sup::run(scn, move || {
        begin(guard::POISON);
        let (mut send, mut recv) = spsc::channel::<Item>(2);
        let shadow = Shadow::new(n as usize);
        let s1 = shadow.clone();
        let s2 = shadow.clone();
        let a = loom::thread::spawn(move || {
            let (pushed, end) = tx_async(&mut send, &s1, n);
            assert_eq!((pushed, end), (n, End::Done));
        });
        {
            let (seen, end) = rx_async(&mut recv, &s2, NO_LIMIT);
            assert_eq!((seen, end), (n, End::PeerClosed));
            drop(recv);
        }
        a.join().unwrap();
        drops::check("c17_uaf_spsc_push_close");
    });
}

// =============================================================================================
// worker
// =============================================================================================

/// receiver loop on the calling (main) thread: acquire/finish until `until` credits were
/// received (-> false) or `None` was observed (-> true)
fn worker_rx(recv: &mut worker::Receiver, until: usize, batch: usize) -> (usize, bool) {
    let mut total = 0usize;
    let mut rounds = 0u32;
    let mut parks = 0u32;
    let mut terminated = false;
    while total < until {
        let got = loom::future::block_on(poll_fn(|cx: &mut Context| {
            let r = recv.poll_acquire(cx);
            if r.is_pending() {
                parks += 1;
            }
            r
        }));
        match got {
            Some(mut count) => {
                assert_ne!(count, 0, "woken with Some(0)");
                rounds += 1;
                while count > 0 {
                    let n = count.min(batch);
                    recv.finish(n);
                    total += n;
                    count -= n;
                }
            }
            None => {
                terminated = true;
                break;
            }
        }
    }
    sup::note(format!("rx:total={},rounds={},parks={},none={}", total, rounds, parks.min(3), terminated));
    (total, terminated)
}

/// N submits racing the receiver parking. The Sender stays alive until the receiver has all
/// credits, so only `submit`'s wake can unpark it.
#[test]
fn c17_a_worker_submit_race() {
    let scn = Scenario::new("c17_a_worker_submit_race", module_path!(), "c17.worker")
        .cfg("submits", vec![1u64, 2])
        .cfg("shape", "submit(1); submit(2) || acquire loop until 3 credits; sender dropped afterwards");
    sup::run(scn, || {
        begin(guard::POISON);
        let (send, mut recv) = worker::channel();
        let a = loom::thread::spawn(move || {
            send.submit(1);
            send.submit(2);
            send
        });
        let (total, none) = worker_rx(&mut recv, 3, usize::MAX);
        assert!(!none, "sender is still alive: None is impossible");
        assert_eq!(total, 3, "more credits than submitted");
        let send = a.join().unwrap();
        drop(send);
        // after the last sender is gone the receiver terminates, without phantom credits
        let last = loom::future::block_on(recv.acquire());
        assert_eq!(last, None);
    });
}

/// last (only) sender dropped while the receiver registers: must observe termination (None)
/// after exactly the submitted credits, never hang. This is the in-tree shape
/// (worker.rs tests::loom_scenario) with two iterations instead of one.
#[test]
fn c17_a_worker_last_sender_drop() {
    let scn = Scenario::new("c17_a_worker_last_sender_drop", module_path!(), "c17.worker")
        .cfg("iterations", 2u64)
        .cfg("send_batch", 2u64)
        .cfg("recv_batch", 1u64)
        .cfg("shape", "2 x submit(2) then drop || acquire/finish(1) loop until None");
    sup::run(scn, || {
        begin(guard::POISON);
        let (send, mut recv) = worker::channel();
        let a = loom::thread::spawn(move || {
            for _ in 0..2 {
                send.submit(2);
                loom::hint::spin_loop();
            }
            drop(send);
        });
        let (total, none) = worker_rx(&mut recv, usize::MAX, 1);
        // the submits happen-before the drop: None must not overtake them
        assert!(none);
        assert_eq!(total, 4, "receiver saw termination before all submitted credits");
        a.join().unwrap();
    });
}

/// sender dropped without ever submitting
#[test]
fn c17_a_worker_no_items() {
    let scn = Scenario::new("c17_a_worker_no_items", module_path!(), "c17.worker")
        .unbounded()
        .cfg("shape", "drop(sender) || acquire until None");
    sup::run(scn, || {
        begin(guard::POISON);
        let (send, mut recv) = worker::channel();
        let a = loom::thread::spawn(move || drop(send));
        let (total, none) = worker_rx(&mut recv, usize::MAX, 1);
        assert!(none);
        assert_eq!(total, 0);
        a.join().unwrap();
    });
}

/// `Sender` is documented as "Multiple Sender handles can be created with `.clone()`": two
/// handles on two threads, each submits then drops. `None` must come after both are gone and
/// after all 3 credits - and it must come.
///
/// Kept under its own name prefix (`c17_wclone_`): on the pinned tree this FAILS - the derived
/// `Clone` does not count the new handle in `State::senders` (see notes/wE.md).
#[test]
fn c17_wclone_worker_cloned_senders() {
    // three loom threads: bound 2 in both tiers (bound 3 is > 67 000 executions)
    let scn = Scenario::new("c17_wclone_worker_cloned_senders", module_path!(), "c17.worker.clone")
        .bounds(2, 2)
        .cfg("senders", 2u64)
        .cfg("shape", "s1: submit(1), drop || s2 = s1.clone(): submit(2), drop || acquire until None");
    sup::run(scn, || {
        begin(guard::POISON);
        let (send, mut recv) = worker::channel();
        let send2 = send.clone();
        let a = loom::thread::spawn(move || {
            send.submit(1);
            drop(send);
        });
        let c = loom::thread::spawn(move || {
            send2.submit(2);
            drop(send2);
        });
        let (total, none) = worker_rx(&mut recv, usize::MAX, usize::MAX);
        assert!(none);
        assert_eq!(total, 3, "receiver saw termination while a cloned sender was still alive");
        a.join().unwrap();
        c.join().unwrap();
    });
}

// =============================================================================================
// atomic_waker::pair
// =============================================================================================

/// `poll_close` vs peer drop: the future must complete
#[test]
fn c17_a_waker_poll_close_vs_drop() {
    let scn = Scenario::new("c17_a_waker_poll_close_vs_drop", module_path!(), "c17.atomic_waker")
        .cfg("shape", "block_on(a.poll_close) || b.wake(); drop(b)");
    sup::run(scn, || {
        begin(guard::POISON);
        let (mut a, b) = atomic_waker::pair();
        let t = loom::thread::spawn(move || {
            b.wake();
            drop(b);
        });
        let mut polls = 0u32;
        loom::future::block_on(poll_fn(|cx| {
            polls += 1;
            a.poll_close(cx)
        }));
        assert!(!a.is_open());
        sup::note(format!("a:polls={}", polls));
        t.join().unwrap();
        drop(a);
    });
}

/// wake vs register with the check / register / re-check protocol every user of the pair
/// follows. `b` stays alive until `a` finished: only `b.wake()` can unpark it.
#[test]
fn c17_a_waker_wake_vs_register() {
    let scn = Scenario::new("c17_a_waker_wake_vs_register", module_path!(), "c17.atomic_waker")
        .cfg("shape", "b: flag=1; wake (x2 flags) || a: check, register, re-check, park; b dropped after a finished");
    sup::run(scn, || {
        begin(guard::POISON);
        use loom::sync::atomic::{AtomicU32, Ordering};
        let (a, b) = atomic_waker::pair();
        let flag = StdArc::new(AtomicU32::new(0));
        let f2 = flag.clone();
        let t = loom::thread::spawn(move || {
            f2.store(1, Ordering::Release);
            b.wake();
            f2.store(2, Ordering::Release);
            b.wake();
            b
        });
        let mut parks = 0u32;
        loom::future::block_on(poll_fn(|cx| {
            if flag.load(Ordering::Acquire) == 2 {
                return Poll::Ready(());
            }
            a.register(cx.waker());
            if flag.load(Ordering::Acquire) == 2 {
                return Poll::Ready(());
            }
            parks += 1;
            Poll::Pending
        }));
        assert!(a.is_open(), "peer handle is still alive");
        sup::note(format!("a:parks={}", parks));
        let b = t.join().unwrap();
        drop(b);
        assert!(!a.is_open());
        drop(a);
    });
}

/// both handles dropped concurrently (shared storage must outlive the last wake)
#[test]
fn c17_a_waker_drop_both() {
    let scn = Scenario::new("c17_a_waker_drop_both", module_path!(), "c17.atomic_waker")
        .cfg("allocator", "poison+quarantine")
        .cfg("shape", "a.register(w); drop(a) || b.wake(); drop(b)");
    sup::run(scn, || {
        begin(guard::POISON);
        let (a, b) = atomic_waker::pair();
        let t = loom::thread::spawn(move || {
            let open = b.is_open();
            b.wake();
            drop(b);
            sup::note(format!("b:saw_open={}", open));
        });
        let open = a.is_open();
        loom::future::block_on(poll_fn(|cx| {
            a.register(cx.waker());
            Poll::Ready(())
        }));
        drop(a);
        sup::note(format!("a:saw_open={}", open));
        t.join().unwrap();
    });
}

// =============================================================================================
// cursor (+ atomic_waker::pair) composed as socket::ring composes them
// =============================================================================================

struct RingMem {
    producer: crossbeam_utils::CachePadded<super::primitive::AtomicU32>,
    consumer: crossbeam_utils::CachePadded<super::primitive::AtomicU32>,
    data: Vec<core::cell::UnsafeCell<u32>>,
    shadow: Vec<loom::cell::UnsafeCell<()>>,
}
unsafe impl Send for RingMem {}
unsafe impl Sync for RingMem {}

impl RingMem {
    fn new(size: u32) -> StdArc<RingMem> {
        StdArc::new(RingMem {
            producer: crossbeam_utils::CachePadded::new(super::primitive::AtomicU32::new(0)),
            consumer: crossbeam_utils::CachePadded::new(super::primitive::AtomicU32::new(0)),
            data: (0..size).map(|_| core::cell::UnsafeCell::new(u32::MAX)).collect(),
            shadow: (0..size).map(|_| loom::cell::UnsafeCell::new(())).collect(),
        })
    }
    fn builder(&self) -> cursor::Builder<u32> {
        cursor::Builder {
            producer: NonNull::from(&*self.producer),
            consumer: NonNull::from(&*self.consumer),
            data: NonNull::new(self.data.as_ptr() as *mut u32).unwrap(),
            size: self.data.len() as u32,
        }
    }
}

/// One half of the ring. `poll_acquire` / `release` / `is_open` are transcribed from
/// quic/s2n-quic-platform/src/socket/ring.rs (the real `Producer`/`Consumer` cannot be built
/// under loom: they conjure their atomics out of zeroed memory). `Cursor` and
/// `atomic_waker::Handle` are the real types.
struct Half {
    cursor: cursor::Cursor<u32>,
    wakers: atomic_waker::Handle,
    mem: StdArc<RingMem>,
    is_producer: bool,
}
unsafe impl Send for Half {}

impl Half {
    fn pair(size: u32) -> (Half, Half) {
        let mem = RingMem::new(size);
        // ring.rs:94  let wakers = atomic_waker::pair();
        let wakers = atomic_waker::pair();
        // ring.rs:97-109
        let consumer = Half {
            cursor: unsafe { mem.builder().build_consumer() },
            wakers: wakers.0,
            mem: mem.clone(),
            is_producer: false,
        };
        let producer = Half {
            cursor: unsafe { mem.builder().build_producer() },
            wakers: wakers.1,
            mem,
            is_producer: true,
        };
        (producer, consumer)
    }

    // ring.rs:131-133 / 230-232
    fn acquire(&mut self, watermark: u32) -> u32 {
        if self.is_producer {
            self.cursor.acquire_producer(watermark)
        } else {
            self.cursor.acquire_consumer(watermark)
        }
    }

    // ring.rs:141-162 (Consumer::poll_acquire) == ring.rs:240-261 (Producer::poll_acquire)
    fn poll_acquire(&mut self, watermark: u32, cx: &mut Context) -> Poll<u32> {
        macro_rules! try_acquire {
            () => {{
                let count = self.acquire(watermark);

                if count > 0 {
                    return Poll::Ready(count);
                }
            }};
        }

        // first try to acquire some messages
        try_acquire!();

        // if we couldn't acquire anything register our waker
        self.wakers.register(cx.waker());

        // try to acquire some messages in case we got some concurrently to waker registration
        try_acquire!();

        Poll::Pending
    }

    // ring.rs:166-169 / 266-273 (release_no_wake = cursor release, then wake)
    fn release(&mut self, len: u32) {
        if len == 0 {
            return;
        }
        if self.is_producer {
            self.cursor.release_producer(len);
        } else {
            self.cursor.release_consumer(len);
        }
        self.wakers.wake();
    }

    // ring.rs:208-210 / 314-316
    fn is_open(&self) -> bool {
        self.wakers.is_open()
    }

    /// socket/task/rx.rs:77-81 and tx.rs:73-77: `Pending if !is_open() => Err(())`
    fn acquire_or_closed(&mut self, watermark: u32) -> Result<u32, ()> {
        let mut parks = 0u32;
        let r = loom::future::block_on(poll_fn(|cx: &mut Context| match self.poll_acquire(watermark, cx) {
            Poll::Ready(count) => Poll::Ready(Ok(count)),
            Poll::Pending if !self.is_open() => Poll::Ready(Err(())),
            Poll::Pending => {
                parks += 1;
                Poll::Pending
            }
        }));
        if parks > 0 {
            sup::note(format!("{}:parked", if self.is_producer { "p" } else { "c" }));
        }
        r
    }

    fn slot(&self, idx: u32) -> usize {
        (idx as usize) & (self.mem.data.len() - 1)
    }
}

/// producer writes `total` sequence numbers in batches of at most `batch`; returns how many
/// were released when it stopped (all, or fewer when the consumer went away)
fn ring_produce(p: &mut Half, total: u32, batch: u32) -> u32 {
    let mut next = 0u32;
    while next < total {
        let free = match p.acquire_or_closed(1) {
            Ok(n) => n,
            Err(()) => {
                sup::note(format!("p:closed_at={}", next));
                return next;
            }
        };
        assert!(free as usize <= p.mem.data.len());
        let n = free.min(batch).min(total - next);
        let start = p.cursor.cached_producer();
        {
            let (head, tail) = unsafe { p.cursor.producer_data() };
            assert_eq!(head.len() + tail.len(), free as usize);
            for (j, entry) in head.iter_mut().chain(tail.iter_mut()).take(n as usize).enumerate() {
                *entry = MAGIC + next + j as u32;
            }
        }
        for j in 0..n {
            let s = p.slot(start + j);
            p.mem.shadow[s].with_mut(|_| ());
        }
        p.release(n);
        next += n;
    }
    sup::note(format!("p:released={}", next));
    next
}

/// consumer reads until `limit` entries were seen or the producer is gone; asserts order,
/// exactly-once and intactness of every entry
fn ring_consume(c: &mut Half, limit: u32) -> (u32, bool) {
    let mut seen = 0u32;
    let mut closed = false;
    while seen < limit {
        let filled = match c.acquire_or_closed(1) {
            Ok(n) => n,
            Err(()) => {
                // the producer is gone: everything it released before is visible now
                // (is_open is an Acquire load of the Release store in Handle::drop)
                closed = true;
                let n = c.acquire(u32::MAX);
                if n == 0 {
                    break;
                }
                n
            }
        };
        assert!(filled as usize <= c.mem.data.len());
        let n = filled.min(limit - seen);
        let start = c.cursor.cached_consumer();
        for j in 0..n {
            let s = c.slot(start + j);
            c.mem.shadow[s].with(|_| ());
        }
        {
            let (head, tail) = unsafe { c.cursor.consumer_data() };
            assert_eq!(head.len() + tail.len(), filled as usize);
            for (j, entry) in head.iter().chain(tail.iter()).take(n as usize).enumerate() {
                assert_eq!(*entry, MAGIC + seen + j as u32, "ring entry out of order / duplicated / not written");
            }
        }
        c.release(n);
        seen += n;
        if closed && n == filled {
            break;
        }
    }
    sup::note(format!("c:seen={},closed={}", seen, closed));
    (seen, closed)
}

fn cursor_ring(name: &'static str, size: u32, total: u32, batch: u32) {
    let scn = Scenario::new(name, module_path!(), "c17.cursor")
        .cfg("ring_size", size)
        .cfg("entries", total)
        .cfg("max_batch", batch)
        .cfg("shape", "producer releases all then drops || consumer reads until producer gone");
    sup::run(scn, move || {
        begin(guard::POISON);
        let (mut p, mut c) = Half::pair(size);
        let a = loom::thread::spawn(move || {
            let released = ring_produce(&mut p, total, batch);
            assert_eq!(released, total, "consumer never goes away first in this scenario");
            drop(p);
        });
        {
            let (seen, closed) = ring_consume(&mut c, u32::MAX);
            assert!(closed);
            assert_eq!(seen, total, "consumer saw the close before all released entries");
            drop(c);
        }
        a.join().unwrap();
    });
}

#[test]
fn c17_a_cursor_ring_2() {
    cursor_ring("c17_a_cursor_ring_2", 2, 3, 2);
}

#[test]
fn c17_a_cursor_ring_4() {
    cursor_ring("c17_a_cursor_ring_4", 4, 5, 4);
}

/// nobody drops before both are done: only release-wakes can unpark
#[test]
fn c17_a_cursor_wake_no_close() {
    let (size, total) = (2u32, 3u32);
    let scn = Scenario::new("c17_a_cursor_wake_no_close", module_path!(), "c17.cursor")
        .cfg("ring_size", size)
        .cfg("entries", total)
        .cfg("shape", "producer (batch 1) || consumer; halves dropped only after both finished");
    sup::run(scn, move || {
        begin(guard::POISON);
        let (mut p, mut c) = Half::pair(size);
        let a = loom::thread::spawn(move || {
            assert_eq!(ring_produce(&mut p, total, 1), total);
            p
        });
        let (seen, closed) = ring_consume(&mut c, total);
        assert_eq!((seen, closed), (total, false));
        let p = a.join().unwrap();
        drop(p);
        drop(c);
    });
}

/// consumer goes away while the producer is parked on a full ring
#[test]
fn c17_a_cursor_drop_consumer() {
    let (size, total, reads) = (2u32, 5u32, 1u32);
    let scn = Scenario::new("c17_a_cursor_drop_consumer", module_path!(), "c17.cursor")
        .cfg("ring_size", size)
        .cfg("entries", total)
        .cfg("consumer_reads_before_drop", reads)
        .cfg("shape", "producer wants to release 5 into ring of 2 || consumer reads 1 then drops");
    sup::run(scn, move || {
        begin(guard::POISON);
        let (mut p, mut c) = Half::pair(size);
        let a = loom::thread::spawn(move || {
            let released = ring_produce(&mut p, total, 2);
            assert!(released <= size + reads, "released {} entries into a ring of {} drained {} times", released, size, reads);
            assert!(!p.is_open(), "producer stopped although the consumer is alive");
            drop(p);
        });
        {
            let (seen, closed) = ring_consume(&mut c, reads);
            assert_eq!((seen, closed), (reads, false));
            drop(c);
        }
        a.join().unwrap();
    });
}

// keep the import used even if a scenario set changes
#[allow(unused)]
fn _json_unused(_: Json) {}

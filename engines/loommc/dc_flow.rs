// loommc / loomx flavour: C20 scenarios on the REAL dc `stream::send::flow::non_blocking::State`
// (the flow-credit hand-off between the application task and the send worker) under loom.
//
// Mounted by hook H7 at the end of dc/s2n-quic-dc/src/stream/send/flow/non_blocking.rs:
//
//     #[cfg(all(test, aws_s2n_quic_verif, aws_s2n_quic_verif_loom))]
//     #[path = "/verif/engines/loommc/dc_flow.rs"]
//     mod verif_loommc;
//
// H7 also switches the file's `AtomicU64` to loom's and its `AtomicWaker` to the shim below (the
// `atomic_waker` crate is built on std atomics, which loom cannot see; the shim has the same
// contract - `register` stores the latest waker, `wake` takes and wakes it - on a loom mutex, so
// every register / wake is a scheduling point).
//
// Oracle: an application that asks for credits while the worker releases some must get them - in
// every interleaving the `acquire` future completes (a lost wake-up leaves the application task
// parked for ever: loom reports the deadlock), the credits lie inside what was released and the
// offsets handed out are contiguous.
#![allow(dead_code, clippy::all)]

#[path = "/verif/engines/mccore/mccore.rs"]
mod mccore;
#[path = "/verif/engines/loommc/support.rs"]
mod support;

use self::support::{self as sup, Scenario};
use super::State;
use crate::stream::{send::flow, TransportFeatures};
use core::future::Future;
use core::task::{Context, Poll, Waker};
use s2n_quic_core::varint::VarInt;
use std::sync::Arc;

/// stand-in for `atomic_waker::AtomicWaker` (see above)
pub struct AtomicWaker(loom::sync::Mutex<Option<Waker>>);

impl AtomicWaker {
    pub fn new() -> Self {
        AtomicWaker(loom::sync::Mutex::new(None))
    }
    pub fn register(&self, waker: &Waker) {
        *self.0.lock().unwrap() = Some(waker.clone());
    }
    pub fn wake(&self) {
        let w = self.0.lock().unwrap().take();
        if let Some(w) = w {
            w.wake();
        }
    }
}

struct Unpark(loom::sync::Notify);

impl std::task::Wake for Unpark {
    fn wake(self: Arc<Self>) {
        self.0.notify();
    }
}

/// drives a future on the calling loom thread; parks on a loom `Notify` while it is pending.
/// Returns the output and how often the task had to park.
fn block_on<F: Future>(f: F) -> (F::Output, u32) {
    let unpark = Arc::new(Unpark(loom::sync::Notify::new()));
    let waker = Waker::from(unpark.clone());
    let mut cx = Context::from_waker(&waker);
    let mut f = Box::pin(f);
    let mut parks = 0;
    loop {
        match f.as_mut().poll(&mut cx) {
            Poll::Ready(v) => return (v, parks),
            Poll::Pending => {
                parks += 1;
                unpark.0.wait()
            }
        }
    }
}

fn request(len: usize) -> flow::Request {
    flow::Request { len, initial_len: len, is_fin: false }
}

fn flow_scenario(name: &'static str, releases: &'static [u64], use_max: bool, asks: &'static [usize], what: &'static str) {
    let scn = Scenario::new(name, module_path!(), "c20.flow")
        .cfg("releases", releases.to_vec())
        .cfg("release_max", use_max)
        .cfg("asks", asks.iter().map(|a| *a as u64).collect::<Vec<u64>>())
        .cfg("shape", what);
    sup::run(scn, move || {
        let state = Arc::new(State::new(VarInt::from_u8(0)));
        let worker_state = state.clone();
        let worker = loom::thread::spawn(move || {
            for r in releases {
                let v = VarInt::new(*r).unwrap();
                if use_max {
                    worker_state.release_max(v);
                } else {
                    worker_state.release(v);
                }
            }
        });
        // UDP: requests are clamped to the credits available
        let features = TransportFeatures::UDP;
        let granted = *releases.iter().max().unwrap();
        let mut next = 0u64;
        let mut got = Vec::new();
        let mut parked = 0;
        for ask in asks {
            let (credits, parks) = block_on(state.acquire(request(*ask), &features));
            let credits = credits.expect("no stream error was set");
            parked += parks;
            assert!(credits.len > 0 && credits.len <= *ask, "acquire({}) returned {} bytes", ask, credits.len);
            assert_eq!(credits.offset.as_u64(), next, "credits are handed out contiguously");
            next += credits.len as u64;
            assert!(next <= granted, "credits up to {} handed out, only {} released", next, granted);
            got.push(credits.len as u64);
        }
        worker.join().unwrap();
        assert_eq!(state.stream_offset().as_u64(), next);
        // outcome class: what was granted and whether the application had to wait for the worker
        sup::note(format!("{:?} parked={}", got, parked.min(2)));
    });
}

#[test]
fn c20_flow_release_vs_blocked_acquire() {
    flow_scenario(
        "c20_flow_release_vs_blocked_acquire",
        &[10],
        false,
        &[5],
        "application asks for 5 bytes with no credits || worker releases 10 (the only release: a lost wake-up parks the application for ever)",
    );
}

#[test]
fn c20_flow_release_max_vs_blocked_acquire() {
    flow_scenario(
        "c20_flow_release_max_vs_blocked_acquire",
        &[10],
        true,
        &[5],
        "as above through release_max (fetch_max + conditional wake)",
    );
}

#[test]
fn c20_flow_two_releases_two_acquires() {
    flow_scenario(
        "c20_flow_two_releases_two_acquires",
        &[4, 9],
        false,
        &[6, 6],
        "application asks twice for 6 bytes || worker releases 4 then 9: the first request is served with 4 or 6 bytes, the rest can only come from the second release",
    );
}

// loommc / loomx flavour: C19 scenarios on the REAL dc `path::secret::{receiver, sender}::State`
// under loom.
//
// Mounted by hook H4 at the end of dc/s2n-quic-dc/src/path/secret/receiver.rs:
//
//     #[cfg(all(test, aws_s2n_quic_verif, aws_s2n_quic_verif_loom))]
//     #[path = "/verif/engines/loommc/dc_secret.rs"]
//     mod verif_loommc;
//
// Build flavour `loomx`: RUSTFLAGS="--cfg aws_s2n_quic_verif --cfg aws_s2n_quic_verif_loom",
// -p s2n-quic-dc. H4 switches `Mutex` / `AtomicU64` in receiver.rs and sender.rs to loom's.
//
// Oracles (independent of the code):
//  * receiver: the per-call results of every concurrent history equal the results of SOME
//    sequential order of the same calls (per-thread order preserved; brute force over all
//    merges) on the reference model
//        accept(id) <=> id != MAX  and  id not accepted before  and
//                       (nothing seen yet  or  id > max  or  max - id < 896)
//    and consequently no id is `Ok` twice.
//  * sender: no key id is returned twice, ids grow per thread, and an id drawn after
//    `update_for_stale_key(v)` returned is >= v.
#![allow(dead_code, clippy::all)]

#[path = "/verif/engines/mccore/mccore.rs"]
mod mccore;
#[path = "/verif/engines/loommc/support.rs"]
mod support;

use self::support::{self as sup, Scenario};
use super::{Error, State};
use crate::credentials::{Credentials, Id, KeyId};
use std::collections::BTreeSet;
use std::sync::{Arc, Mutex as StdMutex};

const WINDOW: u64 = 896;

#[derive(Clone, Copy, Debug, PartialEq, Eq, PartialOrd, Ord)]
enum R {
    Ok,
    AlreadyExists,
    Unknown,
}

fn real_call(state: &State, id: u64) -> R {
    let creds = Credentials {
        id: Id::from([0; 16]),
        key_id: KeyId::new(id).expect("key id in varint range"),
    };
    match state.post_authentication(&creds) {
        Ok(()) => R::Ok,
        Err(Error::AlreadyExists) => R::AlreadyExists,
        Err(Error::Unknown) => R::Unknown,
    }
}

/// the boring sequential reference
#[derive(Clone, Default)]
struct Model {
    max: Option<u64>,
    accepted: BTreeSet<u64>,
}

impl Model {
    fn call(&mut self, id: u64) -> R {
        if id == KeyId::MAX.as_u64() {
            return R::Unknown;
        }
        let max = match self.max {
            None => id,
            Some(m) => m.max(id),
        };
        self.max = Some(max);
        if max - id >= WINDOW {
            return R::Unknown;
        }
        if self.accepted.insert(id) {
            R::Ok
        } else {
            R::AlreadyExists
        }
    }
}

/// does some merge of the per-thread call lists reproduce the observed results?
fn linearizable(
    calls: &[Vec<u64>],
    results: &[Vec<R>],
    pos: &mut Vec<usize>,
    model: &Model,
    final_min_unseen: u64,
) -> bool {
    if (0..calls.len()).all(|t| pos[t] == calls[t].len()) {
        let expect = model.max.map(|m| m + 1).unwrap_or(0);
        return expect == final_min_unseen;
    }
    for t in 0..calls.len() {
        let i = pos[t];
        if i == calls[t].len() {
            continue;
        }
        let mut m = model.clone();
        if m.call(calls[t][i]) != results[t][i] {
            continue;
        }
        pos[t] += 1;
        let ok = linearizable(calls, results, pos, &m, final_min_unseen);
        pos[t] -= 1;
        if ok {
            return true;
        }
    }
    false
}

fn receiver_scenario(name: &'static str, calls: &'static [&'static [u64]], what: &'static str) {
    let scn = Scenario::new(name, module_path!(), "c19.receiver")
        .cfg("threads", calls.len() as u64)
        .cfg(
            "calls",
            calls
                .iter()
                .map(|c| c.iter().map(|v| *v).collect::<Vec<u64>>())
                .collect::<Vec<_>>(),
        )
        .cfg("shape", what);
    sup::run(scn, move || {
        let state = Arc::new(State::new());
        let results: Arc<StdMutex<Vec<Vec<R>>>> =
            Arc::new(StdMutex::new(vec![Vec::new(); calls.len()]));
        let mut handles = Vec::new();
        // thread 0 is the model's main thread
        for t in 1..calls.len() {
            let (st, res) = (state.clone(), results.clone());
            handles.push(loom::thread::spawn(move || {
                for id in calls[t] {
                    let r = real_call(&st, *id);
                    res.lock().unwrap()[t].push(r);
                }
            }));
        }
        for id in calls[0] {
            let r = real_call(&state, *id);
            results.lock().unwrap()[0].push(r);
        }
        for h in handles {
            h.join().unwrap();
        }
        let results = results.lock().unwrap().clone();
        let min_unseen = state.minimum_unseen_key_id().as_u64();

        // each id is accepted at most once
        let mut ok_ids = Vec::new();
        for (t, rs) in results.iter().enumerate() {
            for (i, r) in rs.iter().enumerate() {
                if *r == R::Ok {
                    ok_ids.push(calls[t][i]);
                }
            }
        }
        let mut dedup = ok_ids.clone();
        dedup.sort();
        dedup.dedup();
        assert!(
            dedup.len() == ok_ids.len(),
            "a key id was accepted twice: calls {:?} results {:?}",
            calls,
            results
        );

        let all: Vec<Vec<u64>> = calls.iter().map(|c| c.to_vec()).collect();
        assert!(
            linearizable(&all, &results, &mut vec![0; calls.len()], &Model::default(), min_unseen),
            "no sequential order of the calls gives these results: calls {:?} results {:?} minimum_unseen {}",
            calls,
            results,
            min_unseen
        );
        sup::note(format!("{:?}/{}", results, min_unseen));
    });
}

#[test]
fn c19_rx_same_id() {
    receiver_scenario(
        "c19_rx_same_id",
        &[&[5], &[5], &[5]],
        "3 threads present the same key id",
    );
}

#[test]
fn c19_rx_replay_after_backwards() {
    receiver_scenario(
        "c19_rx_replay_after_backwards",
        &[&[1000, 1000], &[3]],
        "t0: 1000 then 1000 again || t1: 3 (Ok before 1000, too old after it; must never move the max backwards)",
    );
}

#[test]
fn c19_rx_window_edge() {
    receiver_scenario(
        "c19_rx_window_edge",
        &[&[1, 897], &[2, 1]],
        "ids straddling the 896 window edge: 897 makes 1 too old (Unknown) but keeps 2",
    );
}

#[test]
fn c19_rx_far_jump() {
    receiver_scenario(
        "c19_rx_far_jump",
        &[&[3, 1 << 33], &[3, 4]],
        "one far jump (clears the window) racing near ids",
    );
}

#[test]
fn c19_rx_three_threads() {
    receiver_scenario(
        "c19_rx_three_threads",
        &[&[0, 896], &[895], &[896, 0]],
        "3 threads, edge ids, duplicates across threads",
    );
}

// ---------------------------------------------------------------------------------------------
// sender
// ---------------------------------------------------------------------------------------------

use super::super::sender;
use crate::packet::secret_control;
use s2n_quic_core::varint::VarInt;

fn sender_scenario(name: &'static str, stale: u64, what: &'static str) {
    let scn = Scenario::new(name, module_path!(), "c19.sender")
        .cfg("stale_key_min_id", stale)
        .cfg("shape", what);
    sup::run(scn, move || {
        let state = Arc::new(sender::State::new([0; secret_control::TAG_LEN]));
        let s1 = state.clone();
        let s2 = state.clone();
        let a = loom::thread::spawn(move || {
            let x = s1.next_key_id().as_u64();
            let y = s1.next_key_id().as_u64();
            assert!(y > x, "ids drawn by one thread must grow: {} then {}", x, y);
            vec![x, y]
        });
        let b = loom::thread::spawn(move || {
            s2.update_for_stale_key(VarInt::new(stale).unwrap());
            let z = s2.next_key_id().as_u64();
            assert!(
                z >= stale,
                "id {} drawn after update_for_stale_key({})",
                z,
                stale
            );
            vec![z]
        });
        let w = state.next_key_id().as_u64();
        let mut ids = vec![w];
        ids.extend(a.join().unwrap());
        ids.extend(b.join().unwrap());
        let mut d = ids.clone();
        d.sort();
        d.dedup();
        assert!(d.len() == ids.len(), "a key id was issued twice: {:?}", ids);
        sup::note(format!("{:?}", ids));
    });
}

#[test]
fn c19_tx_next_vs_stale_small() {
    sender_scenario(
        "c19_tx_next_vs_stale_small",
        2,
        "main: next || t1: next, next || t2: update_for_stale_key(2), next",
    );
}

#[test]
fn c19_tx_next_vs_stale_jump() {
    sender_scenario(
        "c19_tx_next_vs_stale_jump",
        1000,
        "main: next || t1: next, next || t2: update_for_stale_key(1000), next",
    );
}

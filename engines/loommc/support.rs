// loommc support: runs one loom scenario, turns what happened into an mccore `Report`.
//
// Mounted (`#[path] mod support;`) by core_sync.rs / transport_wakeup.rs / dc_secret.rs, next to
// `mod mccore;`. std + loom only.
//
// Process model
// -------------
// A failing loom execution unwinds through generator stacks whose destructors touch loom objects
// outside an execution; that double-panics and aborts the whole test binary. Every scenario is
// therefore executed in a CHILD process (the same test binary re-invoked with `--exact <test>`
// and `VERIF_LOOMMC_CHILD=<scenario>`): the parent `#[test]` writes `<out>/<name>.started`,
// runs the child, and makes sure `<out>/<name>.json` exists afterwards - written by the child
// when it survived, otherwise by the parent from the child's stderr (clause `loom.<scenario>`,
// detail `process aborted: <first panic line>`). `.started` is removed once the report exists.
// As a side effect scenarios are independent of each other and may run with any
// `--test-threads`.
#![allow(dead_code)]

use super::mccore::{Json, Output, Report, Tier, Violation};
use std::collections::BTreeSet;
use std::io::Read;
use std::panic::{catch_unwind, AssertUnwindSafe};
use std::sync::atomic::{AtomicU64, Ordering};
use std::sync::Mutex;
use std::time::{Duration, Instant};

pub const ENGINE: &str = "loommc";

/// preemption bounds per tier (DESIGN.md C17: `LOOM_MAX_PREEMPTIONS` = 2 quick / 3 thorough)
pub const QUICK_BOUND: usize = 2;
pub const THOROUGH_BOUND: usize = 3;

pub struct Scenario {
    /// test fn name == report file name
    pub name: &'static str,
    /// `module_path!()` of the test fn (used to re-invoke exactly this test in the child)
    pub module: &'static str,
    /// report family, e.g. "c17.spsc"
    pub family: &'static str,
    /// None = tier default (2 / 3); Some((q, t)) = explicit bounds, usize::MAX = unbounded
    pub bounds: Option<(usize, usize)>,
    /// per-execution branch cap (loom panics when an execution needs more scheduling points)
    pub max_branches: usize,
    /// wall cap in seconds (quick, thorough)
    pub max_duration_s: (u64, u64),
    /// free-form description of the scenario parameters
    pub config: Json,
}

impl Scenario {
    pub fn new(name: &'static str, module: &'static str, family: &'static str) -> Scenario {
        Scenario {
            name,
            module,
            family,
            bounds: None,
            max_branches: 5_000,
            max_duration_s: (120, 560),
            config: Json::obj(),
        }
    }
    pub fn bounds(mut self, quick: usize, thorough: usize) -> Scenario {
        self.bounds = Some((quick, thorough));
        self
    }
    pub fn unbounded(self) -> Scenario {
        self.bounds(usize::MAX, usize::MAX)
    }
    pub fn wall(mut self, quick: u64, thorough: u64) -> Scenario {
        self.max_duration_s = (quick, thorough);
        self
    }
    pub fn cfg(mut self, k: &str, v: impl Into<Json>) -> Scenario {
        self.config.put(k, v);
        self
    }
    fn bound(&self, tier: Tier) -> Option<usize> {
        // experiment override (not used by the driver)
        if let Some(b) = std::env::var("VERIF_LOOMMC_BOUND")
            .ok()
            .and_then(|s| s.parse::<usize>().ok())
        {
            return if b >= 100 { None } else { Some(b) };
        }
        let b = match self.bounds {
            Some((q, t)) => tier.pick(q, t),
            None => tier.pick(QUICK_BOUND, THOROUGH_BOUND),
        };
        if b == usize::MAX {
            None
        } else {
            Some(b)
        }
    }
}

// ---------------------------------------------------------------------------------------------
// per-execution bookkeeping (plain std: invisible to loom, never a scheduling point)
// ---------------------------------------------------------------------------------------------

static EXECS: AtomicU64 = AtomicU64::new(0);
static CUR: Mutex<Vec<String>> = Mutex::new(Vec::new());
static OUTCOMES: Mutex<BTreeSet<String>> = Mutex::new(BTreeSet::new());
const OUTCOME_CAP: usize = 20_000;

fn flush_outcome() {
    let mut cur = CUR.lock().unwrap_or_else(|e| e.into_inner());
    if EXECS.load(Ordering::Relaxed) > 0 {
        let mut parts = std::mem::take(&mut *cur);
        // loom threads of one execution finish in schedule-dependent order; the outcome is the
        // multiset of what each of them observed
        parts.sort();
        let mut set = OUTCOMES.lock().unwrap_or_else(|e| e.into_inner());
        if set.len() < OUTCOME_CAP {
            set.insert(parts.join(" "));
        }
    }
    cur.clear();
}

/// first statement of every model closure
pub fn exec_begin() {
    flush_outcome();
    EXECS.fetch_add(1, Ordering::Relaxed);
}

/// record what a (loom) thread observed in this execution
pub fn note(s: impl Into<String>) {
    CUR.lock().unwrap_or_else(|e| e.into_inner()).push(s.into());
}

pub fn executions() -> u64 {
    EXECS.load(Ordering::Relaxed)
}

/// optional check to run once after the last execution (the scenario files install it from
/// their `begin`); `Some(msg)` is a violation
static AFTER: Mutex<Option<fn() -> Option<String>>> = Mutex::new(None);

pub fn set_after_check(f: fn() -> Option<String>) {
    *AFTER.lock().unwrap_or_else(|e| e.into_inner()) = Some(f);
}

// ---------------------------------------------------------------------------------------------
// panic capture
// ---------------------------------------------------------------------------------------------

static FIRST_PANIC: Mutex<Option<(String, String, Vec<String>)>> = Mutex::new(None);

fn install_panic_hook() {
    std::panic::set_hook(Box::new(|info| {
        let msg = if let Some(s) = info.payload().downcast_ref::<&str>() {
            s.to_string()
        } else if let Some(s) = info.payload().downcast_ref::<String>() {
            s.clone()
        } else {
            "panic (non-string payload)".to_string()
        };
        let loc = info
            .location()
            .map(|l| format!("{}:{}", l.file(), l.line()))
            .unwrap_or_default();
        // the line the parent parses when the process later aborts
        eprintln!(
            "[loommc-panic] {} @ {}",
            msg.lines().next().unwrap_or(""),
            loc
        );
        let mut g = FIRST_PANIC.lock().unwrap_or_else(|e| e.into_inner());
        if g.is_none() {
            let bt = std::backtrace::Backtrace::force_capture().to_string();
            let mut frames = Vec::new();
            for l in bt.lines() {
                let l = l.trim();
                // "12: s2n_quic_core::sync::spsc::state::State<T>::close"
                if let Some((_, sym)) = l.split_once(": ") {
                    if (sym.contains("s2n_quic")
                        || sym.starts_with("loom::")
                        || sym.starts_with("<loom::"))
                        && !sym.contains("verif_loommc::support")
                        && !sym.contains("{{closure}}")
                    {
                        let sym = sym.to_string();
                        let is_loom = !sym.contains("s2n_quic");
                        let loom_frames = frames
                            .iter()
                            .filter(|f: &&String| !f.contains("s2n_quic"))
                            .count();
                        if frames.last() != Some(&sym)
                            && frames.len() < 16
                            && !(is_loom && loom_frames >= 3)
                        {
                            frames.push(sym);
                        }
                    }
                }
            }
            eprintln!("[loommc-frames] {}", frames.join(" <- "));
            *g = Some((msg, loc, frames));
        }
    }));
}

/// digits -> N (thread ids, lengths, object indices vary with the schedule), keeping the one
/// number that matters: the poison pattern of the quarantining allocator
pub fn normalise(line: &str) -> String {
    const POISON_DEC: &str = "16059518370053021406"; // 0xDEDEDEDEDEDEDEDE
    let poisoned = line.contains(POISON_DEC) || line.to_ascii_lowercase().contains("dededede");
    let mut out = String::with_capacity(line.len());
    let mut in_num = false;
    for c in line.chars() {
        if c.is_ascii_digit() {
            if !in_num {
                out.push('N');
            }
            in_num = true;
        } else {
            in_num = false;
            out.push(c);
        }
    }
    if out.len() > 160 {
        let mut cut = 160;
        while !out.is_char_boundary(cut) {
            cut -= 1;
        }
        out.truncate(cut);
    }
    if poisoned {
        out.push_str(" [freed-memory-poison 0xDEDEDEDEDEDEDEDE]");
    }
    out
}

/// the s2n-quic frames of a captured backtrace, innermost first, as part of the fingerprint:
/// another failure with the same message but a different call path is a different finding
fn s2n_frames(frames: &str) -> String {
    frames
        .split(" <- ")
        .filter(|f| f.contains("s2n_quic") && !f.contains("verif_loommc"))
        .take(4)
        .collect::<Vec<_>>()
        .join("<")
}

fn mk_violation(
    scn: &Scenario,
    tier: Tier,
    first_line: &str,
    detail_extra: &str,
    execution: u64,
) -> Violation {
    let clause = format!("loom.{}", scn.name);
    let mut v = Violation::new(&clause, format!("{}{}", first_line, detail_extra));
    v.fingerprint = format!("{}|{}|{}", ENGINE, scn.name, normalise(first_line));
    if let Some((_, via)) = detail_extra.split_once("via ") {
        let via = via.split(';').next().unwrap_or("").trim_end_matches(']');
        let f = s2n_frames(via);
        if !f.is_empty() {
            v.fingerprint.push_str("|via ");
            v.fingerprint.push_str(&f);
        }
    }
    v.replay = Json::obj()
        .set("engine", ENGINE)
        .set("family", scn.family)
        .set("scenario", scn.name)
        .set("test", test_path(scn))
        .set(
            "preemption_bound",
            match scn.bound(tier) {
                Some(b) => Json::Int(b as i128),
                None => Json::Null,
            },
        )
        .set("failing_execution", execution)
        .set("config", scn.config.clone());
    v
}

fn wall_cap(scn: &Scenario, tier: Tier) -> u64 {
    // experiment override (not used by the driver)
    std::env::var("VERIF_LOOMMC_WALL")
        .ok()
        .and_then(|s| s.parse::<u64>().ok())
        .unwrap_or_else(|| tier.pick(scn.max_duration_s.0, scn.max_duration_s.1))
}

fn test_path(scn: &Scenario) -> String {
    // "s2n_quic_core::sync::verif_loommc" -> "sync::verif_loommc::<name>"
    let m = scn
        .module
        .split_once("::")
        .map(|(_, rest)| rest)
        .unwrap_or("");
    if m.is_empty() {
        scn.name.to_string()
    } else {
        format!("{}::{}", m, scn.name)
    }
}

fn out_dir() -> String {
    std::env::var("VERIF_OUT_DIR")
        .unwrap_or_else(|_| format!("{}/loommc-out", std::env::temp_dir().display()))
}

// ---------------------------------------------------------------------------------------------
// child: the actual loom run
// ---------------------------------------------------------------------------------------------

fn run_model(scn: &Scenario, tier: Tier, model: impl Fn() + Send + Sync + 'static) -> Report {
    let t0 = Instant::now();
    let bound = scn.bound(tier);
    let max_duration = Duration::from_secs(wall_cap(scn, tier));
    let interval = 500usize;

    let mut b = loom::model::Builder::new();
    b.preemption_bound = bound;
    b.max_branches = scn.max_branches;
    b.max_duration = Some(max_duration);
    b.max_permutations = None;
    b.checkpoint_file = None;
    b.checkpoint_interval = interval;
    b.log = false;

    install_panic_hook();
    let res = catch_unwind(AssertUnwindSafe(|| {
        b.check(move || {
            exec_begin();
            model();
        })
    }));
    let wall = t0.elapsed();
    flush_outcome();
    let execs = executions();

    let mut rep = Report::new(ENGINE, scn.family);
    rep.states = execs;
    rep.transitions = execs;
    rep.executions = execs;
    rep.max_depth = bound.unwrap_or(0) as u64;
    let bound_txt = match bound {
        Some(b) => format!(
            "all interleavings and C11 load outcomes with <= {} preemptions (loom DPOR)",
            b
        ),
        None => {
            "all interleavings and C11 load outcomes, no preemption bound (loom DPOR)".to_string()
        }
    };
    {
        let set = OUTCOMES.lock().unwrap_or_else(|e| e.into_inner());
        rep.distinct_outcomes = set.len() as u64;
        let n = set.len();
        for (i, o) in set.iter().enumerate() {
            if i == 0 || i == n / 2 || i + 1 == n {
                rep.samples.push(
                    Json::obj()
                        .set("scenario", scn.name)
                        .set("outcome", o.as_str()),
                );
            }
        }
    }
    match res {
        Ok(()) => {
            // `check` returns silently when max_duration is exceeded; it only looks at the clock
            // when `iteration % checkpoint_interval == 0`
            let capped = wall >= max_duration && (execs + 1) % interval as u64 == 0;
            if capped {
                rep.exhaustive = false;
                rep.cap_hit = Some(format!(
                    "max_duration {}s hit after {} executions",
                    max_duration.as_secs(),
                    execs
                ));
                rep.completed_bound =
                    Some(format!("INCOMPLETE: {} (stopped by wall cap)", bound_txt));
            } else {
                rep.completed_bound = Some(bound_txt);
            }
            let after = *AFTER.lock().unwrap_or_else(|e| e.into_inner());
            if let Some(msg) = after.and_then(|f| f()) {
                rep.violations
                    .push(mk_violation(scn, tier, &msg, " [after-run check]", execs));
            }
        }
        Err(_) => {
            let (msg, loc, frames) = FIRST_PANIC
                .lock()
                .unwrap_or_else(|e| e.into_inner())
                .clone()
                .unwrap_or_else(|| ("panic (not captured)".into(), String::new(), Vec::new()));
            let first = msg.lines().next().unwrap_or("").to_string();
            if first.contains("exceeded maximum number of branches") {
                rep.cap_hit = Some(format!(
                    "max_branches {} exceeded in execution {}",
                    scn.max_branches, execs
                ));
            }
            let extra = format!(
                " @ {} [execution {}; via {}]",
                loc,
                execs,
                frames.join(" <- ")
            );
            rep.violations
                .push(mk_violation(scn, tier, &first, &extra, execs));
            rep.exhaustive = false;
            rep.completed_bound = Some(format!(
                "stopped at first failing execution ({}); {}",
                execs, bound_txt
            ));
            rep.extra.push(("x_panic_message".into(), Json::Str(msg)));
            rep.extra.push((
                "x_panic_frames".into(),
                Json::Arr(frames.into_iter().map(Json::Str).collect()),
            ));
        }
    }
    rep.extra.push(("config".into(), scn.config.clone()));
    rep.extra
        .push(("x_scenario".into(), Json::Str(scn.name.into())));
    rep.extra
        .push(("x_max_branches".into(), Json::Int(scn.max_branches as i128)));
    rep.wall_s = wall.as_secs_f64();
    rep
}

// ---------------------------------------------------------------------------------------------
// parent: isolate, collect, never leave a `.started` without a `.json`
// ---------------------------------------------------------------------------------------------

fn write_report(dir: &str, name: &str, rep: Report) {
    eprintln!("[mc] loommc scenario {}:", name);
    let mut out = Output::new();
    out.push(rep);
    out.write_named(dir, name);
}

/// Entry point of every scenario `#[test]`.
pub fn tier() -> Tier {
    Tier::from_env()
}

pub fn run(scn: Scenario, model: impl Fn() + Send + Sync + 'static) {
    let tier = Tier::from_env();
    let dir = out_dir();

    // replay mode: only the recorded scenario runs, result is a line for the driver
    if let Ok(path) = std::env::var("VERIF_REPLAY") {
        if std::env::var("VERIF_LOOMMC_CHILD").is_err() {
            let want = std::fs::read_to_string(&path)
                .ok()
                .and_then(|s| Json::parse(&s).ok())
                .and_then(|j| {
                    j.get("scenario")
                        .and_then(|s| s.as_str())
                        .map(|s| s.to_string())
                });
            if want.as_deref() != Some(scn.name) {
                return;
            }
        }
    }

    if std::env::var("VERIF_LOOMMC_CHILD").ok().as_deref() == Some(scn.name) {
        let rep = run_model(&scn, tier, model);
        write_report(&dir, scn.name, rep);
        return;
    }

    let _ = std::fs::create_dir_all(&dir);
    let started = format!("{}/{}.started", dir, scn.name);
    let json = format!("{}/{}.json", dir, scn.name);
    let _ = std::fs::remove_file(&json);
    std::fs::write(&started, test_path(&scn)).expect("write .started");

    let exe = std::env::current_exe().expect("current_exe");
    let t0 = Instant::now();
    let mut child = std::process::Command::new(exe)
        .args([
            test_path(&scn).as_str(),
            "--exact",
            "--nocapture",
            "--test-threads",
            "1",
        ])
        .env("VERIF_LOOMMC_CHILD", scn.name)
        .env("VERIF_OUT_DIR", &dir)
        .env("RUST_BACKTRACE", "0")
        .stdout(std::process::Stdio::piped())
        .stderr(std::process::Stdio::piped())
        .spawn()
        .expect("spawn scenario child");
    let mut so = child.stdout.take().unwrap();
    let mut se = child.stderr.take().unwrap();
    let h1 = std::thread::spawn(move || {
        let mut s = String::new();
        let _ = so.read_to_string(&mut s);
        s
    });
    let h2 = std::thread::spawn(move || {
        let mut v = Vec::new();
        let _ = se.read_to_end(&mut v);
        String::from_utf8_lossy(&v).into_owned()
    });
    // hard deadline: the scenario's own wall cap + slack (a derailed execution may hang)
    let hard = Duration::from_secs(wall_cap(&scn, tier) * 2 + 60);
    let mut timed_out = false;
    let status = loop {
        match child.try_wait() {
            Ok(Some(st)) => break Some(st),
            Ok(None) => {
                if t0.elapsed() > hard {
                    let _ = child.kill();
                    timed_out = true;
                    break child.wait().ok();
                }
                std::thread::sleep(Duration::from_millis(20));
            }
            Err(_) => break None,
        }
    };
    let _stdout = h1.join().unwrap_or_default();
    let stderr = h2.join().unwrap_or_default();
    for l in stderr.lines() {
        if l.starts_with("[mc]") {
            eprintln!("{}", l);
        }
    }

    if !std::path::Path::new(&json).exists() {
        // the child died before it could report
        let first_panic = stderr
            .lines()
            .find_map(|l| l.strip_prefix("[loommc-panic] "))
            .unwrap_or("no panic line captured")
            .to_string();
        let (msg, loc) = match first_panic.rsplit_once(" @ ") {
            Some((m, l)) => (m.to_string(), l.to_string()),
            None => (first_panic.clone(), String::new()),
        };
        let mut rep = Report::new(ENGINE, scn.family);
        rep.exhaustive = false;
        rep.max_depth = scn.bound(tier).unwrap_or(0) as u64;
        rep.wall_s = t0.elapsed().as_secs_f64();
        rep.extra.push(("config".into(), scn.config.clone()));
        rep.extra
            .push(("x_scenario".into(), Json::Str(scn.name.into())));
        if timed_out {
            rep.cap_hit = Some(format!("child killed after {}s", hard.as_secs()));
            let mut v = Violation::new(
                "machinery.timeout",
                format!(
                    "scenario {} did not finish within {}s",
                    scn.name,
                    hard.as_secs()
                ),
            );
            v.fingerprint = format!("{}|{}|timeout", ENGINE, scn.name);
            rep.violations.push(v);
        } else {
            let frames = stderr
                .lines()
                .find_map(|l| l.strip_prefix("[loommc-frames] "))
                .unwrap_or("");
            let tail: Vec<&str> = stderr
                .lines()
                .filter(|l| !l.starts_with("[loommc-frames]"))
                .rev()
                .take(4)
                .collect();
            let extra = format!(
                " @ {} [process aborted, status {:?}; via {}; stderr tail: {}]",
                loc,
                status,
                frames,
                tail.into_iter().rev().collect::<Vec<_>>().join(" / ")
            );
            rep.completed_bound = Some("process aborted in a failing execution".into());
            rep.violations.push(mk_violation(
                &scn,
                tier,
                &format!("process aborted: {}", msg),
                &extra,
                0,
            ));
        }
        write_report(&dir, scn.name, rep);
    }
    let _ = std::fs::remove_file(&started);

    // make the #[test] itself fail when the scenario found something
    let txt = std::fs::read_to_string(&json).unwrap_or_default();
    let viol = Json::parse(&txt)
        .ok()
        .and_then(|j| j.get("reports").and_then(|r| r.as_arr()).cloned())
        .map(|rs| {
            rs.iter()
                .flat_map(|r| {
                    r.get("violations")
                        .and_then(|v| v.as_arr())
                        .cloned()
                        .unwrap_or_default()
                })
                .filter_map(|v| {
                    v.get("detail")
                        .and_then(|d| d.as_str())
                        .map(|s| s.to_string())
                })
                .collect::<Vec<_>>()
        })
        .unwrap_or_default();
    if std::env::var("VERIF_REPLAY").is_ok() {
        eprintln!(
            "replay: {} {}",
            if viol.is_empty() { "ok" } else { "VIOLATED" },
            scn.name
        );
    }
    if !viol.is_empty() {
        panic!("loommc scenario {} VIOLATED: {}", scn.name, viol[0]);
    }
}

// ---------------------------------------------------------------------------------------------
// helpers shared by the scenario files
// ---------------------------------------------------------------------------------------------

/// exactly-once drop accounting for queue items (std atomics: invisible to loom)
pub mod drops {
    use std::sync::atomic::{AtomicU32, Ordering};
    pub const MAX: usize = 16;
    #[allow(clippy::declare_interior_mutable_const)]
    const Z: AtomicU32 = AtomicU32::new(0);
    pub static CREATED: [AtomicU32; MAX] = [Z; MAX];
    pub static DROPPED: [AtomicU32; MAX] = [Z; MAX];

    pub fn reset() {
        for i in 0..MAX {
            CREATED[i].store(0, Ordering::Relaxed);
            DROPPED[i].store(0, Ordering::Relaxed);
        }
    }

    /// every created item dropped exactly once; none dropped that was not created
    pub fn check(what: &str) {
        for i in 0..MAX {
            let c = CREATED[i].load(Ordering::Relaxed);
            let d = DROPPED[i].load(Ordering::Relaxed);
            assert!(c <= 1, "{}: harness created item {} {} times", what, i, c);
            assert!(d <= c, "{}: item {} dropped {} times but created {} times (double drop / drop of unwritten slot)", what, i, d, c);
            assert!(
                d == c,
                "{}: item {} was created but never dropped (leak)",
                what,
                i
            );
        }
    }

    #[derive(Debug)]
    pub struct Item(pub u32);

    impl Item {
        pub fn new(i: u32) -> Item {
            CREATED[i as usize].fetch_add(1, Ordering::Relaxed);
            Item(i)
        }
    }

    impl Drop for Item {
        fn drop(&mut self) {
            // an index outside the table is a slot that was never written (poison / garbage)
            assert!(
                (self.0 as usize) < MAX,
                "dropping an item with garbage index {:#x} (unwritten or freed slot)",
                self.0
            );
            DROPPED[self.0 as usize].fetch_add(1, Ordering::Relaxed);
        }
    }
}

// loommc / loomx flavour: C17 scenarios on the REAL `s2n_quic_transport::wakeup_queue` under loom.
//
// Mounted by hook H4 at the end of quic/s2n-quic-transport/src/wakeup_queue.rs:
//
//     #[cfg(all(test, aws_s2n_quic_verif, aws_s2n_quic_verif_loom))]
//     #[path = "/verif/engines/loommc/transport_wakeup.rs"]
//     mod verif_loommc;
//
// Build flavour `loomx`: RUSTFLAGS="--cfg aws_s2n_quic_verif --cfg aws_s2n_quic_verif_loom",
// -p s2n-quic-transport. H4 switches the file's `Mutex` / `AtomicBool` to loom's (std `Arc`
// stays, `impl Wake for WakeupHandle` needs it).
//
// Oracle (independent of the code): every `wakeup()` issued after the last `wakeup_handled()`
// of that handle makes the id come out of a later `poll_pending_wakeups`, and if the endpoint
// was parked it is woken. The endpoint parks on a loom `Notify` that only the queue's stored
// `Waker` (or, where stated, the harness) notifies; a lost wake-up is a loom deadlock.
#![allow(dead_code, clippy::all)]

#[path = "/verif/engines/mccore/mccore.rs"]
mod mccore;
#[path = "/verif/engines/loommc/support.rs"]
mod support;

use self::support::{self as sup, Scenario};
use super::{WakeupHandle, WakeupQueue};
use alloc::collections::VecDeque;
use core::task::{Context, Waker};
use loom::sync::atomic::{AtomicBool, AtomicU32, Ordering};
use std::sync::atomic::{AtomicU32 as StdU32, Ordering as StdOrd};
use std::sync::Arc;
use std::task::Wake;

/// the endpoint's waker: a loom `Notify` behind the std `Wake` trait
struct Park(loom::sync::Notify);

impl Wake for Park {
    fn wake(self: Arc<Self>) {
        self.0.notify();
    }
    fn wake_by_ref(self: &Arc<Self>) {
        self.0.notify();
    }
}

// loom's Notify is Send + Sync
fn park_pair() -> (Arc<Park>, Waker) {
    let p = Arc::new(Park(loom::sync::Notify::new()));
    (p.clone(), Waker::from(p))
}

/// Two handles waking concurrently with the endpoint polling. Nobody but the queue's stored
/// waker ever unparks the endpoint.
#[test]
fn c17_wq_two_handles_wake() {
    let scn = Scenario::new("c17_wq_two_handles_wake", module_path!(), "c17.wakeup_queue")
        .cfg("handles", 2u64)
        .cfg("shape", "h1.wakeup() || h2.wakeup() || endpoint: poll, handle, park until both ids were seen");
    sup::run(scn, || {
        let mut queue = WakeupQueue::<u32>::new();
        let h1 = Arc::new(queue.create_wakeup_handle(1));
        let h2 = Arc::new(queue.create_wakeup_handle(2));
        let (t1, t2) = (h1.clone(), h2.clone());
        let a = loom::thread::spawn(move || t1.wakeup());
        let b = loom::thread::spawn(move || t2.wakeup());

        let (park, waker) = park_pair();
        let cx = Context::from_waker(&waker);
        let mut swap = VecDeque::new();
        let mut seen = [0u32; 3];
        let mut parks = 0u32;
        let mut polls = 0u32;
        loop {
            queue.poll_pending_wakeups(&mut swap, &cx);
            polls += 1;
            // endpoint/mod.rs:202-270 (`poll_wakeups`): Ready when ids were returned (the event
            // loop polls again), Pending - i.e. sleep - only after a poll that returned nothing,
            // which is the poll that stored the waker
            let empty = swap.is_empty();
            for id in swap.drain(..) {
                seen[id as usize] += 1;
                match id {
                    // connection_impl.rs:1304 calls wakeup_handled() from on_wakeup
                    1 => h1.wakeup_handled(),
                    2 => h2.wakeup_handled(),
                    _ => panic!("unknown id {} returned", id),
                }
            }
            if seen[1] > 0 && seen[2] > 0 {
                break;
            }
            if empty {
                parks += 1;
                park.0.wait();
            }
        }
        assert_eq!((seen[1], seen[2]), (1, 1), "an id was returned more often than it was woken");
        sup::note(format!("ep:polls={},parks={}", polls, parks));
        a.join().unwrap();
        b.join().unwrap();
        // nothing is left behind
        queue.poll_pending_wakeups(&mut swap, &cx);
        assert!(swap.is_empty(), "phantom wakeup after both were handled: {:?}", swap);
    });
}

/// Re-arming: h1 wakes, looks whether the endpoint already handled it, wakes again. A second
/// `wakeup()` that starts after `wakeup_handled()` finished must be delivered again. The
/// wakers also race with h2. Thread exit is signalled by the harness (`done` + notify), so
/// this scenario checks delivery, not the wake itself (that is c17_wq_two_handles_wake).
fn rearm(name: &'static str, with_h2: bool, bounds: (usize, usize)) {
    let scn = Scenario::new(name, module_path!(), "c17.wakeup_queue")
        .bounds(bounds.0, bounds.1)
        .cfg("handles", if with_h2 { 2u64 } else { 1u64 })
        .cfg(
            "shape",
            if with_h2 {
                "h1.wakeup(); observe handled?; h1.wakeup() || h2.wakeup() || endpoint polls until both threads are done"
            } else {
                "h1.wakeup(); observe handled?; h1.wakeup() || endpoint polls until the thread is done"
            },
        );
    sup::run(scn, move || {
        static REQUIRED: StdU32 = StdU32::new(0);
        REQUIRED.store(1, StdOrd::Relaxed);

        let mut queue = WakeupQueue::<u32>::new();
        let h1 = Arc::new(queue.create_wakeup_handle(1));
        let h2 = Arc::new(queue.create_wakeup_handle(2));
        let handled1 = Arc::new(AtomicBool::new(false));
        let done = Arc::new(AtomicU32::new(0));
        let (park, waker) = park_pair();

        let (t1, hd, d1, p1) = (h1.clone(), handled1.clone(), done.clone(), park.clone());
        let a = loom::thread::spawn(move || {
            t1.wakeup();
            if hd.load(Ordering::Acquire) {
                // the endpoint finished `wakeup_handled()` for the first one: the next
                // wakeup() is "issued after the last wakeup_handled()"
                REQUIRED.store(2, StdOrd::Relaxed);
            }
            t1.wakeup();
            d1.fetch_add(1, Ordering::Release);
            p1.0.notify();
        });
        let (t2, d2, p2) = (h2.clone(), done.clone(), park.clone());
        let b = if with_h2 {
            Some(loom::thread::spawn(move || {
                t2.wakeup();
                d2.fetch_add(1, Ordering::Release);
                p2.0.notify();
            }))
        } else {
            d2.fetch_add(1, Ordering::Release);
            None
        };

        let cx = Context::from_waker(&waker);
        let mut swap = VecDeque::new();
        let mut seen = [0u32; 3];
        let mut parks = 0u32;
        loop {
            let finished = done.load(Ordering::Acquire) == 2;
            queue.poll_pending_wakeups(&mut swap, &cx);
            let empty = swap.is_empty();
            for id in swap.drain(..) {
                seen[id as usize] += 1;
                match id {
                    1 => {
                        h1.wakeup_handled();
                        handled1.store(true, Ordering::Release);
                    }
                    2 => h2.wakeup_handled(),
                    _ => panic!("unknown id {} returned", id),
                }
            }
            if finished {
                // both threads were done before this poll: it returned everything pending
                break;
            }
            if empty {
                parks += 1;
                park.0.wait();
            }
        }
        let required = REQUIRED.load(StdOrd::Relaxed);
        assert!(seen[1] >= required, "h1 woke again after its wakeup was handled, but id 1 was returned only {} time(s)", seen[1]);
        assert!(seen[1] <= 2, "id 1 returned {} times for 2 wakeup() calls", seen[1]);
        assert_eq!(seen[2], with_h2 as u32, "id 2 returned {} times for {} wakeup() call(s)", seen[2], with_h2 as u32);
        sup::note(format!("ep:seen1={},required={},parks={}", seen[1], required, parks.min(3)));
        a.join().unwrap();
        if let Some(b) = b {
            b.join().unwrap();
        }
    });
}

/// one handle, one waking thread: small enough for one more preemption than the tier default
/// (loom's preemption-bounded DPOR is not complete within its bound; the stuck-flag schedule of
/// "flag set after queueing" needs bound 3 here)
#[test]
fn c17_wq_rearm() {
    rearm("c17_wq_rearm", false, (3, 4));
}

#[test]
fn c17_wq_rearm_two_handles() {
    rearm("c17_wq_rearm_two_handles", true, (2, 3));
}

// mccore: tiny explicit-state explorer shared by every /verif engine.
//
// std-only on purpose: this single file is `#[path]`-mounted into the harness crates *and*
// into the unit-test builds of the s2n-quic crates themselves (txmc / loommc), where no extra
// dependency can be added.
//
// * `Json`      minimal JSON value + writer + parser (result files, replay files)
// * `Sys`       a system under exploration: real object(s) + harness bookkeeping
// * `explore`   level-synchronous parallel BFS over operation histories with state
//               de-duplication on a 128-bit key; states are rebuilt by replay (or forked when
//               the system can clone itself)
// * `Report`    counters, samples, violations -> result JSON consumed by /verif/check
#![allow(dead_code)]

use std::collections::{BTreeMap, HashSet};
use std::fmt::Debug;
use std::hash::{Hash, Hasher};
use std::panic::{catch_unwind, AssertUnwindSafe};
use std::sync::atomic::{AtomicBool, AtomicU64, Ordering};
use std::sync::Mutex;
use std::time::Instant;

// ---------------------------------------------------------------------------------------------
// JSON
// ---------------------------------------------------------------------------------------------

#[derive(Clone, Debug, PartialEq)]
pub enum Json {
    Null,
    Bool(bool),
    Int(i128),
    Num(f64),
    Str(String),
    Arr(Vec<Json>),
    Obj(Vec<(String, Json)>),
}

impl Json {
    pub fn obj() -> Json {
        Json::Obj(Vec::new())
    }
    pub fn set(mut self, k: &str, v: impl Into<Json>) -> Json {
        self.put(k, v);
        self
    }
    pub fn put(&mut self, k: &str, v: impl Into<Json>) {
        if let Json::Obj(items) = self {
            let v = v.into();
            if let Some(slot) = items.iter_mut().find(|(kk, _)| kk == k) {
                slot.1 = v;
            } else {
                items.push((k.to_string(), v));
            }
        }
    }
    pub fn get(&self, k: &str) -> Option<&Json> {
        match self {
            Json::Obj(items) => items.iter().find(|(kk, _)| kk == k).map(|(_, v)| v),
            _ => None,
        }
    }
    pub fn as_str(&self) -> Option<&str> {
        match self {
            Json::Str(s) => Some(s),
            _ => None,
        }
    }
    pub fn as_i128(&self) -> Option<i128> {
        match self {
            Json::Int(i) => Some(*i),
            Json::Num(f) => Some(*f as i128),
            _ => None,
        }
    }
    pub fn as_arr(&self) -> Option<&Vec<Json>> {
        match self {
            Json::Arr(a) => Some(a),
            _ => None,
        }
    }
    pub fn write(&self, out: &mut String) {
        match self {
            Json::Null => out.push_str("null"),
            Json::Bool(b) => out.push_str(if *b { "true" } else { "false" }),
            Json::Int(i) => out.push_str(&i.to_string()),
            Json::Num(f) => {
                if f.is_finite() {
                    out.push_str(&format!("{}", f))
                } else {
                    out.push_str("null")
                }
            }
            Json::Str(s) => {
                out.push('"');
                for c in s.chars() {
                    match c {
                        '"' => out.push_str("\\\""),
                        '\\' => out.push_str("\\\\"),
                        '\n' => out.push_str("\\n"),
                        '\r' => out.push_str("\\r"),
                        '\t' => out.push_str("\\t"),
                        c if (c as u32) < 0x20 => out.push_str(&format!("\\u{:04x}", c as u32)),
                        c => out.push(c),
                    }
                }
                out.push('"');
            }
            Json::Arr(a) => {
                out.push('[');
                for (i, v) in a.iter().enumerate() {
                    if i > 0 {
                        out.push(',');
                    }
                    v.write(out);
                }
                out.push(']');
            }
            Json::Obj(o) => {
                out.push('{');
                for (i, (k, v)) in o.iter().enumerate() {
                    if i > 0 {
                        out.push(',');
                    }
                    Json::Str(k.clone()).write(out);
                    out.push(':');
                    v.write(out);
                }
                out.push('}');
            }
        }
    }
    pub fn to_string(&self) -> String {
        let mut s = String::new();
        self.write(&mut s);
        s
    }
    pub fn parse(s: &str) -> Result<Json, String> {
        let b = s.as_bytes();
        let mut p = 0usize;
        let v = parse_value(b, &mut p)?;
        skip_ws(b, &mut p);
        if p != b.len() {
            return Err(format!("trailing data at {}", p));
        }
        Ok(v)
    }
}

fn skip_ws(b: &[u8], p: &mut usize) {
    while *p < b.len() && (b[*p] as char).is_ascii_whitespace() {
        *p += 1;
    }
}

fn parse_value(b: &[u8], p: &mut usize) -> Result<Json, String> {
    skip_ws(b, p);
    if *p >= b.len() {
        return Err("eof".into());
    }
    match b[*p] {
        b'n' => {
            *p += 4;
            Ok(Json::Null)
        }
        b't' => {
            *p += 4;
            Ok(Json::Bool(true))
        }
        b'f' => {
            *p += 5;
            Ok(Json::Bool(false))
        }
        b'"' => {
            *p += 1;
            let mut out = String::new();
            loop {
                if *p >= b.len() {
                    return Err("eof in string".into());
                }
                let c = b[*p];
                *p += 1;
                match c {
                    b'"' => break,
                    b'\\' => {
                        let e = b[*p];
                        *p += 1;
                        match e {
                            b'n' => out.push('\n'),
                            b'r' => out.push('\r'),
                            b't' => out.push('\t'),
                            b'b' => out.push('\u{8}'),
                            b'f' => out.push('\u{c}'),
                            b'u' => {
                                let h = std::str::from_utf8(&b[*p..*p + 4])
                                    .map_err(|e| e.to_string())?;
                                let cp = u32::from_str_radix(h, 16).map_err(|e| e.to_string())?;
                                *p += 4;
                                out.push(char::from_u32(cp).unwrap_or('?'));
                            }
                            other => out.push(other as char),
                        }
                    }
                    _ => {
                        // copy raw utf-8 bytes
                        let start = *p - 1;
                        let mut end = *p;
                        while end < b.len() && b[end] != b'"' && b[end] != b'\\' {
                            end += 1;
                        }
                        out.push_str(
                            std::str::from_utf8(&b[start..end]).map_err(|e| e.to_string())?,
                        );
                        *p = end;
                    }
                }
            }
            Ok(Json::Str(out))
        }
        b'[' => {
            *p += 1;
            let mut a = Vec::new();
            loop {
                skip_ws(b, p);
                if *p < b.len() && b[*p] == b']' {
                    *p += 1;
                    break;
                }
                a.push(parse_value(b, p)?);
                skip_ws(b, p);
                if *p < b.len() && b[*p] == b',' {
                    *p += 1;
                }
            }
            Ok(Json::Arr(a))
        }
        b'{' => {
            *p += 1;
            let mut o = Vec::new();
            loop {
                skip_ws(b, p);
                if *p < b.len() && b[*p] == b'}' {
                    *p += 1;
                    break;
                }
                let k = match parse_value(b, p)? {
                    Json::Str(s) => s,
                    _ => return Err("object key".into()),
                };
                skip_ws(b, p);
                if *p >= b.len() || b[*p] != b':' {
                    return Err("expected :".into());
                }
                *p += 1;
                let v = parse_value(b, p)?;
                o.push((k, v));
                skip_ws(b, p);
                if *p < b.len() && b[*p] == b',' {
                    *p += 1;
                }
            }
            Ok(Json::Obj(o))
        }
        _ => {
            let start = *p;
            while *p < b.len() && matches!(b[*p], b'-' | b'+' | b'.' | b'e' | b'E' | b'0'..=b'9') {
                *p += 1;
            }
            let t = std::str::from_utf8(&b[start..*p]).map_err(|e| e.to_string())?;
            if let Ok(i) = t.parse::<i128>() {
                Ok(Json::Int(i))
            } else {
                t.parse::<f64>()
                    .map(Json::Num)
                    .map_err(|e| format!("number {:?}: {}", t, e))
            }
        }
    }
}

macro_rules! json_from_int { ($($t:ty),*) => { $(impl From<$t> for Json { fn from(v: $t) -> Json { Json::Int(v as i128) } })* } }
json_from_int!(u8, u16, u32, u64, usize, i32, i64, i128, u128);
impl From<f64> for Json {
    fn from(v: f64) -> Json {
        Json::Num(v)
    }
}
impl From<bool> for Json {
    fn from(v: bool) -> Json {
        Json::Bool(v)
    }
}
impl From<&str> for Json {
    fn from(v: &str) -> Json {
        Json::Str(v.to_string())
    }
}
impl From<String> for Json {
    fn from(v: String) -> Json {
        Json::Str(v)
    }
}
impl<T: Into<Json>> From<Vec<T>> for Json {
    fn from(v: Vec<T>) -> Json {
        Json::Arr(v.into_iter().map(Into::into).collect())
    }
}

// ---------------------------------------------------------------------------------------------
// hashing helpers
// ---------------------------------------------------------------------------------------------

/// 128-bit key of anything hashable (two independently keyed SipHash runs).
pub fn key128<T: Hash + ?Sized>(t: &T) -> u128 {
    let mut a = std::collections::hash_map::DefaultHasher::new();
    0x9e37_79b9_7f4a_7c15u64.hash(&mut a);
    t.hash(&mut a);
    let mut b = std::collections::hash_map::DefaultHasher::new();
    0xc2b2_ae3d_27d4_eb4fu64.hash(&mut b);
    t.hash(&mut b);
    0x1234_5678u32.hash(&mut b);
    ((a.finish() as u128) << 64) | b.finish() as u128
}

pub fn splitmix64(mut x: u64) -> u64 {
    x = x.wrapping_add(0x9e37_79b9_7f4a_7c15);
    let mut z = x;
    z = (z ^ (z >> 30)).wrapping_mul(0xbf58_476d_1ce4_e5b9);
    z = (z ^ (z >> 27)).wrapping_mul(0x94d0_49bb_1331_11eb);
    z ^ (z >> 31)
}

/// position-dependent payload byte: offset `o` of stream/key `k`
pub fn prf_byte(k: u64, o: u64) -> u8 {
    splitmix64(k ^ o.wrapping_mul(0x2545_f491_4f6c_dd1d)) as u8
}

pub fn prf_fill(k: u64, off: u64, buf: &mut [u8]) {
    for (i, b) in buf.iter_mut().enumerate() {
        *b = prf_byte(k, off + i as u64);
    }
}

pub fn prf_vec(k: u64, off: u64, len: usize) -> Vec<u8> {
    let mut v = vec![0u8; len];
    prf_fill(k, off, &mut v);
    v
}

pub fn hex(b: &[u8]) -> String {
    let mut s = String::with_capacity(b.len() * 2);
    for x in b {
        s.push_str(&format!("{:02x}", x));
    }
    s
}

pub fn unhex(s: &str) -> Vec<u8> {
    (0..s.len() / 2)
        .map(|i| u8::from_str_radix(&s[2 * i..2 * i + 2], 16).unwrap_or(0))
        .collect()
}

// ---------------------------------------------------------------------------------------------
// violations / report
// ---------------------------------------------------------------------------------------------

#[derive(Clone, Debug)]
pub struct Violation {
    /// short stable name of the oracle clause that failed, e.g. "reasm.content"
    pub clause: String,
    /// human-readable detail
    pub detail: String,
    /// what identifies the failing case for the known-findings file (stable across runs)
    pub fingerprint: String,
    /// replayable artefact (family, config, ops / schedule / input)
    pub replay: Json,
}

impl Violation {
    pub fn new(clause: &str, detail: impl Into<String>) -> Violation {
        Violation {
            clause: clause.into(),
            detail: detail.into(),
            fingerprint: String::new(),
            replay: Json::Null,
        }
    }
}

pub fn violation<T>(clause: &str, detail: impl Into<String>) -> Result<T, Violation> {
    Err(Violation::new(clause, detail))
}

pub fn ensure(cond: bool, clause: &str, detail: impl FnOnce() -> String) -> Result<(), Violation> {
    if cond {
        Ok(())
    } else {
        Err(Violation::new(clause, detail()))
    }
}

#[derive(Debug, Default)]
pub struct Report {
    pub engine: String,
    pub family: String,
    pub states: u64,
    pub transitions: u64,
    pub executions: u64,
    pub max_depth: u64,
    pub distinct_outcomes: u64,
    pub exhaustive: bool,
    pub cap_hit: Option<String>,
    pub completed_bound: Option<String>,
    pub samples: Vec<Json>,
    pub violations: Vec<Violation>,
    pub extra: Vec<(String, Json)>,
    pub wall_s: f64,
}

impl Report {
    pub fn new(engine: &str, family: &str) -> Report {
        Report {
            engine: engine.into(),
            family: family.into(),
            exhaustive: true,
            ..Default::default()
        }
    }
    pub fn to_json(&self) -> Json {
        let mut j = Json::obj()
            .set("engine", self.engine.as_str())
            .set("family", self.family.as_str())
            .set("states", self.states)
            .set("transitions", self.transitions)
            .set("executions", self.executions)
            .set("max_depth", self.max_depth)
            .set("distinct_outcomes", self.distinct_outcomes)
            .set("exhaustive", self.exhaustive)
            .set(
                "cap_hit",
                match &self.cap_hit {
                    Some(s) => Json::Str(s.clone()),
                    None => Json::Null,
                },
            )
            .set(
                "completed_bound",
                match &self.completed_bound {
                    Some(s) => Json::Str(s.clone()),
                    None => Json::Null,
                },
            )
            .set("samples", Json::Arr(self.samples.clone()))
            .set("wall_s", self.wall_s);
        let mut vs = Vec::new();
        for v in &self.violations {
            vs.push(
                Json::obj()
                    .set("clause", v.clause.as_str())
                    .set("detail", v.detail.as_str())
                    .set("fingerprint", v.fingerprint.as_str())
                    .set("replay", v.replay.clone()),
            );
        }
        j.put("violations", Json::Arr(vs));
        for (k, v) in &self.extra {
            j.put(k, v.clone());
        }
        j
    }
}

/// Collects the reports of one engine invocation and writes them where the driver asked
/// (`VERIF_OUT` or the explicit path).
pub struct Output {
    pub reports: Vec<Report>,
}

impl Output {
    pub fn new() -> Output {
        Output {
            reports: Vec::new(),
        }
    }
    pub fn push(&mut self, r: Report) {
        eprintln!(
            "[mc] {}/{}: states={} transitions={} executions={} depth={} outcomes={} exhaustive={} cap={:?} violations={} wall={:.1}s",
            r.engine,
            r.family,
            r.states,
            r.transitions,
            r.executions,
            r.max_depth,
            r.distinct_outcomes,
            r.exhaustive,
            r.cap_hit,
            r.violations.len(),
            r.wall_s
        );
        for v in r.violations.iter().take(3) {
            eprintln!("[mc]   violation {}: {}", v.clause, v.detail);
        }
        self.reports.push(r);
    }
    pub fn write(&self, path: &str) {
        let j = Json::obj().set(
            "reports",
            Json::Arr(self.reports.iter().map(|r| r.to_json()).collect()),
        );
        std::fs::write(path, j.to_string()).expect("write result file");
    }
    /// append mode used by in-crate test harnesses (several #[test]s write to one directory)
    pub fn write_named(&self, dir: &str, name: &str) {
        let _ = std::fs::create_dir_all(dir);
        self.write(&format!("{}/{}.json", dir, name));
    }
}

// ---------------------------------------------------------------------------------------------
// explicit-state exploration
// ---------------------------------------------------------------------------------------------

pub trait Sys: Sized + Send {
    type Op: Clone + Debug + Send + Sync;
    /// operations enabled in this state, simplest first
    fn ops(&self) -> Vec<Self::Op>;
    /// apply one operation to the real object(s) and the reference model; compare
    fn step(&mut self, op: &Self::Op) -> Result<(), Violation>;
    /// canonical key of the state (fine-grained: merge only what truly has the same future)
    fn key(&self) -> u128;
    /// optional: cheap copy of the whole system (real objects included)
    fn fork(&self) -> Option<Self> {
        None
    }
    /// optional: classify the state for the "distinct outcomes" vacuity counter
    fn outcome(&self) -> u64 {
        0
    }
}

#[derive(Clone)]
pub struct Limits {
    pub max_depth: usize,
    pub wall_s: f64,
    pub max_states: u64,
    pub threads: usize,
    pub max_violations: usize,
}

impl Limits {
    pub fn depth(d: usize) -> Limits {
        Limits {
            max_depth: d,
            wall_s: 600.0,
            max_states: 50_000_000,
            threads: default_threads(),
            max_violations: 8,
        }
    }
    pub fn wall(mut self, s: f64) -> Limits {
        self.wall_s = s;
        self
    }
    pub fn states(mut self, n: u64) -> Limits {
        self.max_states = n;
        self
    }
}

pub fn default_threads() -> usize {
    std::env::var("VERIF_THREADS")
        .ok()
        .and_then(|s| s.parse().ok())
        .unwrap_or_else(|| {
            std::thread::available_parallelism()
                .map(|n| n.get())
                .unwrap_or(4)
        })
}

fn panic_message(e: Box<dyn std::any::Any + Send>) -> String {
    if let Some(s) = e.downcast_ref::<&str>() {
        s.to_string()
    } else if let Some(s) = e.downcast_ref::<String>() {
        s.clone()
    } else {
        "panic (non-string payload)".to_string()
    }
}

/// Run `f`, turning a panic into a violation of clause `<prefix>.panic`.
pub fn guarded<T>(prefix: &str, f: impl FnOnce() -> Result<T, Violation>) -> Result<T, Violation> {
    match catch_unwind(AssertUnwindSafe(f)) {
        Ok(r) => r,
        Err(e) => {
            let msg = panic_message(e);
            // keep the fingerprint stable: first line, digits kept (they name the assertion)
            let first = msg.lines().next().unwrap_or("").to_string();
            Err(Violation::new(&format!("{}.panic", prefix), first))
        }
    }
}

/// silence the default panic hook while exploring (panics are expected outcomes to record)
pub fn quiet_panics() {
    std::panic::set_hook(Box::new(|_| {}));
}

fn rebuild<S: Sys>(init: &(dyn Fn() -> S + Sync), hist: &[u16]) -> Result<S, String> {
    let mut s = init();
    for (d, &i) in hist.iter().enumerate() {
        let ops = s.ops();
        let op = ops.get(i as usize).ok_or_else(|| {
            format!(
                "replay diverged at depth {}: op index {} of {}",
                d,
                i,
                ops.len()
            )
        })?;
        guarded("replay", || s.step(op))
            .map_err(|v| format!("replay diverged at depth {}: {} {}", d, v.clause, v.detail))?;
    }
    Ok(s)
}

/// describe a history as the Debug rendering of each op (rebuilds the state to do so)
pub fn describe<S: Sys>(init: &(dyn Fn() -> S + Sync), hist: &[u16]) -> Vec<String> {
    let mut s = init();
    let mut out = Vec::new();
    for &i in hist {
        let ops = s.ops();
        let Some(op) = ops.get(i as usize) else { break };
        out.push(format!("{:?}", op));
        if guarded("describe", || s.step(op)).is_err() {
            break;
        }
    }
    out
}

/// Breadth-first search over operation histories of `S`.
///
/// Level-synchronous: every state at depth d is expanded before any at depth d+1, the set of
/// states and the transition count are therefore independent of thread scheduling.
pub fn explore<S: Sys>(
    engine: &str,
    family: &str,
    config: Json,
    init: &(dyn Fn() -> S + Sync),
    lim: &Limits,
) -> Report {
    let t0 = Instant::now();
    let mut rep = Report::new(engine, family);
    let seen: Vec<Mutex<HashSet<u128>>> = (0..64).map(|_| Mutex::new(HashSet::new())).collect();
    let outcomes: Mutex<HashSet<u64>> = Mutex::new(HashSet::new());
    let violations: Mutex<BTreeMap<String, Violation>> = Mutex::new(BTreeMap::new());
    let transitions = AtomicU64::new(0);
    let states = AtomicU64::new(0);
    let capped = AtomicBool::new(false);

    let mk_violation = |mut v: Violation, hist: &[u16]| {
        let ops = describe(init, hist);
        if v.fingerprint.is_empty() {
            v.fingerprint = format!("{}|{}|{}|{}", engine, family, v.clause, ops.join(";"));
        }
        v.replay = Json::obj()
            .set("engine", engine)
            .set("family", family)
            .set("config", config.clone())
            .set("clause", v.clause.as_str())
            .set("detail", v.detail.as_str())
            .set(
                "history",
                hist.iter().map(|&i| i as u64).collect::<Vec<u64>>(),
            )
            .set("ops", ops);
        v
    };

    // initial state
    let s0 = match catch_unwind(AssertUnwindSafe(|| init())) {
        Ok(s) => s,
        Err(e) => {
            rep.violations.push(mk_violation(
                Violation::new("init.panic", panic_message(e)),
                &[],
            ));
            rep.wall_s = t0.elapsed().as_secs_f64();
            return rep;
        }
    };
    let k0 = s0.key();
    seen[(k0 % 64) as usize].lock().unwrap().insert(k0);
    outcomes.lock().unwrap().insert(s0.outcome());
    states.store(1, Ordering::Relaxed);
    drop(s0);

    let mut frontier: Vec<Vec<u16>> = vec![vec![]];
    let mut depth = 0usize;
    let mut sample_hist: Vec<Vec<u16>> = Vec::new();
    while !frontier.is_empty() && depth < lim.max_depth {
        // states first reached in this level: key -> lexicographically smallest history reaching it
        // (makes the representative history, and with it samples and fingerprints, independent of
        // thread timing)
        let level: Vec<Mutex<std::collections::HashMap<u128, Vec<u16>>>> = (0..64)
            .map(|_| Mutex::new(std::collections::HashMap::new()))
            .collect();
        let cursor = AtomicU64::new(0);
        let nthreads = lim.threads.max(1).min(frontier.len().max(1));
        std::thread::scope(|scope| {
            for _ in 0..nthreads {
                scope.spawn(|| {
                    loop {
                        let i = cursor.fetch_add(1, Ordering::Relaxed) as usize;
                        if i >= frontier.len() {
                            break;
                        }
                        if capped.load(Ordering::Relaxed) {
                            break;
                        }
                        if (i & 0xff) == 0
                            && (t0.elapsed().as_secs_f64() > lim.wall_s
                                || states.load(Ordering::Relaxed) > lim.max_states)
                        {
                            capped.store(true, Ordering::Relaxed);
                            break;
                        }
                        let hist = &frontier[i];
                        let base = match rebuild(init, hist) {
                            Ok(s) => s,
                            Err(e) => {
                                let v = mk_violation(Violation::new("machinery.replay", e), hist);
                                violations
                                    .lock()
                                    .unwrap()
                                    .entry(v.fingerprint.clone())
                                    .or_insert(v);
                                continue;
                            }
                        };
                        let ops = base.ops();
                        let nops = ops.len();
                        let mut base_opt = Some(base);
                        for (oi, op) in ops.iter().enumerate() {
                            // obtain a fresh copy of the parent state
                            let mut s = if oi + 1 == nops {
                                base_opt.take().unwrap()
                            } else if let Some(f) = base_opt.as_ref().unwrap().fork() {
                                f
                            } else {
                                match rebuild(init, hist) {
                                    Ok(s) => s,
                                    Err(_) => continue,
                                }
                            };
                            transitions.fetch_add(1, Ordering::Relaxed);
                            let mut h2 = hist.clone();
                            h2.push(oi as u16);
                            match guarded("step", || s.step(op)) {
                                Err(v) => {
                                    let v = mk_violation(v, &h2);
                                    let mut g = violations.lock().unwrap();
                                    match g.get(&v.fingerprint) {
                                        // keep the smallest history per fingerprint
                                        Some(old)
                                            if old.replay.get("history").map(|h| h.to_string())
                                                <= v.replay
                                                    .get("history")
                                                    .map(|h| h.to_string()) => {}
                                        _ => {
                                            if g.len() < lim.max_violations * 4
                                                || g.contains_key(&v.fingerprint)
                                            {
                                                g.insert(v.fingerprint.clone(), v);
                                            }
                                        }
                                    }
                                    // a violating state is not expanded further
                                }
                                Ok(()) => {
                                    let k = s.key();
                                    if seen[(k % 64) as usize].lock().unwrap().contains(&k) {
                                        continue;
                                    }
                                    let mut g = level[(k % 64) as usize].lock().unwrap();
                                    match g.get_mut(&k) {
                                        Some(old) => {
                                            if h2 < *old {
                                                *old = h2;
                                            }
                                        }
                                        None => {
                                            g.insert(k, h2);
                                            drop(g);
                                            states.fetch_add(1, Ordering::Relaxed);
                                            outcomes.lock().unwrap().insert(s.outcome());
                                        }
                                    }
                                }
                            }
                        }
                    }
                });
            }
        });
        if capped.load(Ordering::Relaxed) {
            rep.exhaustive = false;
            rep.cap_hit = Some(format!(
                "cap hit while expanding depth {} (wall {:.0}s / states {}); depths < {} fully expanded",
                depth,
                t0.elapsed().as_secs_f64(),
                states.load(Ordering::Relaxed),
                depth
            ));
            break;
        }
        let mut nf: Vec<Vec<u16>> = Vec::new();
        for (shard, m) in level.into_iter().enumerate() {
            let m = m.into_inner().unwrap();
            let mut g = seen[shard].lock().unwrap();
            for (k, h) in m {
                g.insert(k);
                nf.push(h);
            }
        }
        nf.sort();
        depth += 1;
        if !nf.is_empty() {
            rep.max_depth = depth as u64;
            sample_hist.push(nf[nf.len() / 2].clone());
        }
        frontier = nf;
    }
    rep.completed_bound = Some(format!("depth {}", depth));
    rep.states = states.load(Ordering::Relaxed);
    rep.transitions = transitions.load(Ordering::Relaxed);
    rep.executions = rep.transitions;
    rep.distinct_outcomes = outcomes.lock().unwrap().len() as u64;
    // samples: the longest explored history and one mid-depth history, written as op lists
    sample_hist.reverse();
    for h in sample_hist.iter().take(2) {
        rep.samples.push(
            Json::obj()
                .set("family", family)
                .set("ops", describe(init, h)),
        );
    }
    let mut vs: Vec<Violation> = violations.into_inner().unwrap().into_values().collect();
    // shortest first: the first counterexample is the easiest to read
    vs.sort_by_key(|v| {
        v.replay
            .get("history")
            .and_then(|h| h.as_arr())
            .map(|a| a.len())
            .unwrap_or(0)
    });
    vs.truncate(lim.max_violations);
    rep.violations = vs;
    rep.extra.push(("config".into(), config));
    rep.wall_s = t0.elapsed().as_secs_f64();
    rep
}

/// Re-execute one recorded history without the explorer. Returns the violation it ends in, if any.
pub fn replay_history<S: Sys>(
    init: &(dyn Fn() -> S + Sync),
    hist: &[u16],
) -> Result<Vec<String>, (Vec<String>, Violation)> {
    let mut s = init();
    let mut trace = Vec::new();
    for &i in hist {
        let ops = s.ops();
        let Some(op) = ops.get(i as usize) else {
            return Err((
                trace,
                Violation::new(
                    "machinery.replay",
                    format!("op index {} out of range {}", i, ops.len()),
                ),
            ));
        };
        trace.push(format!("{:?}", op));
        if let Err(v) = guarded("step", || s.step(op)) {
            return Err((trace, v));
        }
    }
    Ok(trace)
}

// ---------------------------------------------------------------------------------------------
// bounded-exhaustive enumeration of independent cases (inputs / schedules)
// ---------------------------------------------------------------------------------------------

/// Evaluate `check(i)` for every i in 0..n on all cores. `check` returns an outcome class (for the
/// vacuity counter) or a violation. Cases are independent, so this is plain enumeration.
pub fn enumerate(
    engine: &str,
    family: &str,
    n: u64,
    wall_s: f64,
    check: &(dyn Fn(u64) -> Result<u64, Violation> + Sync),
    describe_case: &(dyn Fn(u64) -> Json + Sync),
) -> Report {
    let t0 = Instant::now();
    let mut rep = Report::new(engine, family);
    let cursor = AtomicU64::new(0);
    let done = AtomicU64::new(0);
    let capped = AtomicBool::new(false);
    let outcomes: Mutex<HashSet<u64>> = Mutex::new(HashSet::new());
    let violations: Mutex<BTreeMap<String, Violation>> = Mutex::new(BTreeMap::new());
    let chunk = (n / 4096).clamp(1, 1 << 14);
    std::thread::scope(|scope| {
        for _ in 0..default_threads() {
            scope.spawn(|| {
                let mut local: HashSet<u64> = HashSet::new();
                loop {
                    let start = cursor.fetch_add(chunk, Ordering::Relaxed);
                    if start >= n || capped.load(Ordering::Relaxed) {
                        break;
                    }
                    if t0.elapsed().as_secs_f64() > wall_s {
                        capped.store(true, Ordering::Relaxed);
                        break;
                    }
                    let end = (start + chunk).min(n);
                    for i in start..end {
                        match guarded("case", || check(i)) {
                            Ok(o) => {
                                local.insert(o);
                            }
                            Err(mut v) => {
                                let mut g = violations.lock().unwrap();
                                if g.len() < 64 {
                                    let case = describe_case(i);
                                    if v.fingerprint.is_empty() {
                                        v.fingerprint = format!(
                                            "{}|{}|{}|{}",
                                            engine,
                                            family,
                                            v.clause,
                                            case.to_string()
                                        );
                                    }
                                    v.replay = Json::obj()
                                        .set("engine", engine)
                                        .set("family", family)
                                        .set("clause", v.clause.as_str())
                                        .set("detail", v.detail.as_str())
                                        .set("case_index", i)
                                        .set("case", case);
                                    g.entry(v.fingerprint.clone()).or_insert(v);
                                }
                            }
                        }
                    }
                    done.fetch_add(end - start, Ordering::Relaxed);
                }
                outcomes.lock().unwrap().extend(local);
            });
        }
    });
    let d = done.load(Ordering::Relaxed);
    rep.states = d;
    rep.transitions = d;
    rep.executions = d;
    rep.distinct_outcomes = outcomes.lock().unwrap().len() as u64;
    if capped.load(Ordering::Relaxed) {
        rep.exhaustive = false;
        rep.cap_hit = Some(format!(
            "wall cap {:.0}s hit after {} of {} cases",
            wall_s, d, n
        ));
    }
    rep.completed_bound = Some(format!("{} of {} cases", d, n));
    if n > 0 {
        rep.samples.push(describe_case(0));
        rep.samples.push(describe_case(n / 2));
        rep.samples.push(describe_case(n - 1));
    }
    let mut vs: Vec<Violation> = violations.into_inner().unwrap().into_values().collect();
    vs.sort_by_key(|v| {
        v.replay
            .get("case_index")
            .and_then(|c| c.as_i128())
            .unwrap_or(0)
    });
    vs.truncate(8);
    rep.violations = vs;
    rep.wall_s = t0.elapsed().as_secs_f64();
    rep
}

/// tier helper
#[derive(Clone, Copy, Debug, PartialEq)]
pub enum Tier {
    Quick,
    Thorough,
}

impl Tier {
    pub fn from_env() -> Tier {
        match std::env::var("VERIF_TIER").as_deref() {
            Ok("thorough") => Tier::Thorough,
            _ => Tier::Quick,
        }
    }
    pub fn pick<T>(self, quick: T, thorough: T) -> T {
        match self {
            Tier::Quick => quick,
            Tier::Thorough => thorough,
        }
    }
}

#!/bin/bash
# Generates the certificate chains netmc embeds with include_str! (run ONCE, offline; the checks
# never call openssl).  Output: for each of `medium` and `large`
#   <name>-chain.pem   leaf first, then the intermediates (what the server presents)
#   <name>-key.pem     the leaf's private key (EC P-256: signing stays cheap per execution)
# and one shared root.pem (the only certificate the client trusts).
#
# The bulk of the TLS Certificate message comes from RSA-4096 intermediates (about 1.4 kB each) and
# a long subjectAltName list in the leaf:
#   medium: leaf + 2 intermediates  -> Certificate message of about 4.6 kB  (> 3 x 1200)
#   large : leaf + 4 intermediates  -> Certificate message of about 8.6 kB  (> 6 x 1200)
# Validity 2020-01-01 .. 2120-01-01: s2n-tls validates against the real wall clock
# (s2n_config wall clock = time(NULL)), not the virtual clock of the executor.
set -e
OPENSSL=${OPENSSL:-/root/miniconda/bin/openssl}
cd "$(dirname "$0")"
W=$(mktemp -d)
NB=20200101000000Z
NA=21200101000000Z

cat > $W/ca.cnf <<EOF
[ req ]
prompt = no
distinguished_name = dn
[ dn ]
O = netmc
CN = netmc root
[ v3_ca ]
basicConstraints = critical,CA:TRUE
keyUsage = critical,keyCertSign,cRLSign
subjectKeyIdentifier = hash
EOF

# root (self-signed, RSA-4096)
$OPENSSL genpkey -algorithm RSA -pkeyopt rsa_keygen_bits:4096 -out $W/root.key 2>/dev/null
$OPENSSL req -new -x509 -key $W/root.key -out root.pem -config $W/ca.cnf -extensions v3_ca -not_before $NB -not_after $NA -set_serial 1

# intermediates i1..i4, each signed by the previous one (i1 by the root)
prev_cert=root.pem
prev_key=$W/root.key
for i in 1 2 3 4; do
  $OPENSSL genpkey -algorithm RSA -pkeyopt rsa_keygen_bits:4096 -out $W/i$i.key 2>/dev/null
  $OPENSSL req -new -key $W/i$i.key -out $W/i$i.csr -subj "/O=netmc/CN=netmc intermediate $i"
  $OPENSSL x509 -req -in $W/i$i.csr -CA $prev_cert -CAkey $prev_key -out $W/i$i.pem -extfile $W/ca.cnf -extensions v3_ca -not_before $NB -not_after $NA -set_serial $((10 + i)) 2>/dev/null
  prev_cert=$W/i$i.pem
  prev_key=$W/i$i.key
done

leaf() { # name, issuing intermediate index, number of extra SAN entries
  local name=$1 issuer=$2 sans=$3
  {
    echo "[ leaf ]"
    echo "basicConstraints = critical,CA:FALSE"
    echo "keyUsage = critical,digitalSignature"
    echo "extendedKeyUsage = serverAuth"
    echo "subjectAltName = @alt"
    echo "[ alt ]"
    echo "DNS.1 = localhost"
    echo "IP.1 = 127.0.0.1"
    for k in $(seq 2 $((sans + 1))); do
      echo "DNS.$k = host-$k.a-rather-long-subdomain-label-to-add-bytes.netmc.example"
    done
  } > $W/$name.cnf
  $OPENSSL genpkey -algorithm EC -pkeyopt ec_paramgen_curve:prime256v1 -out $name-key.pem 2>/dev/null
  $OPENSSL req -new -key $name-key.pem -out $W/$name.csr -subj "/O=netmc/CN=localhost"
  $OPENSSL x509 -req -in $W/$name.csr -CA $W/i$issuer.pem -CAkey $W/i$issuer.key -out $W/$name.pem -extfile $W/$name.cnf -extensions leaf -not_before $NB -not_after $NA -set_serial $((100 + issuer)) 2>/dev/null
  # chain: leaf, then intermediates from the issuer up to i1 (the root is not sent)
  cat $W/$name.pem > $name-chain.pem
  for i in $(seq $issuer -1 1); do cat $W/i$i.pem >> $name-chain.pem; done
}

leaf medium 2 12
leaf large 4 30

# report: DER sizes (the Certificate message adds 3+5 bytes per entry and 4+1+3 in front)
for name in medium large; do
  total=0
  n=$(grep -c BEGIN $name-chain.pem)
  for k in $(seq 1 $n); do
    sz=$(awk -v k=$k '/BEGIN/{c++} c==k' $name-chain.pem | $OPENSSL x509 -outform der | wc -c)
    total=$((total + sz + 5))
  done
  echo "$name: $n certificates, TLS Certificate message about $((total + 8)) bytes"
  $OPENSSL verify -CAfile root.pem -untrusted <(awk '/BEGIN/{c++} c>=2' $name-chain.pem) <(awk '/BEGIN/{c++} c==1' $name-chain.pem)
done
rm -rf $W

// Scenario families (the "configurations" quantifier is enumerated here) and which monitors
// decide which property.
#![allow(dead_code)]
use crate::mccore::Tier;
use crate::monitors::{self, Expect, V};
use crate::net::Action;
use crate::record::Record;
use crate::scenario::*;

#[derive(Clone, Debug)]
pub struct Case {
    pub scn: Scenario,
    /// deviation menu for this scenario
    pub menu: Vec<Action>,
    /// deviation bound to explore
    pub k: usize,
    /// extra single-deviation menu applied at every index on top of `menu` (k = 1 only), e.g. blackholes
    pub extra: Vec<Action>,
    pub expect: Expect,
    /// datagrams the harness injects itself in every execution of this case
    pub injects: Vec<crate::net::Inject>,
    /// run every execution twice (forging off / on) and require identical observations
    pub differential: bool,
    /// deviations are only placed at datagram indices >= this (0 = everywhere)
    pub first_index: u32,
    /// adversarial peer: which endpoint rewrites which of its packets into which catalogue item
    pub adv: Option<Adv>,
    /// deviations are only placed at datagram indices <= this (u32::MAX = everywhere)
    pub last_index: u32,
}

#[derive(Clone, Debug)]
pub struct Adv {
    pub attacker: u8,
    pub space: u8,
    /// the n-th packet the attacker writes in that space
    pub nth: u32,
    pub item: usize,
}

pub struct AdvItem {
    pub name: &'static str,
    /// spaces in which the item is injected
    pub spaces: &'static [u8],
    /// which endpoint may play the attacker (2 = both)
    pub attacker: u8,
    /// argument: the attacker (so that stream-directed items can use a fresh stream the attacker may open)
    pub payload: fn(u8) -> Vec<u8>,
    /// acceptable transport error codes (RFC 9000 20.1): the prescribed one, alternatives the RFC names, PROTOCOL_VIOLATION where section 11 allows a generic code
    pub allowed: &'static [u64],
    pub rfc: &'static str,
}

fn vi(out: &mut Vec<u8>, v: u64) {
    if v < 1 << 6 {
        out.push(v as u8);
    } else if v < 1 << 14 {
        out.extend_from_slice(&((v as u16) | 0x4000).to_be_bytes());
    } else if v < 1 << 30 {
        out.extend_from_slice(&((v as u32) | 0x8000_0000).to_be_bytes());
    } else {
        out.extend_from_slice(&(v | 0xc000_0000_0000_0000).to_be_bytes());
    }
}

fn frame(ty: u64, fields: &[u64], tail: &[u8]) -> Vec<u8> {
    let mut o = Vec::new();
    vi(&mut o, ty);
    for f in fields {
        vi(&mut o, *f);
    }
    o.extend_from_slice(tail);
    // pad so that the packet stays long enough for any header-protection sample
    o.extend_from_slice(&[0u8; 24]);
    o
}

const PV: u64 = 0x0a;
const FLOW: u64 = 0x03;
const STREAM_LIMIT: u64 = 0x04;
const STREAM_STATE: u64 = 0x05;
const FINAL_SIZE: u64 = 0x06;
const FRAME_ENC: u64 = 0x07;
const CID_LIMIT: u64 = 0x09;
const CRYPTO_BUF: u64 = 0x0d;

pub fn adv_catalogue() -> Vec<AdvItem> {
    vec![
        // RFC 9000 12.4 table: frames not permitted in Initial / Handshake packets
        AdvItem { name: "stream-in-long-header-space", spaces: &[0, 1], attacker: 2, payload: |_a| frame(0x0a, &[0, 3], b"abc"), allowed: &[PV], rfc: "12.4/12.5: STREAM only in 0-RTT/1-RTT => PROTOCOL_VIOLATION" },
        AdvItem { name: "max-data-in-long-header-space", spaces: &[0, 1], attacker: 2, payload: |_a| frame(0x10, &[100_000], b""), allowed: &[PV], rfc: "12.4" },
        AdvItem { name: "new-connection-id-in-long-header-space", spaces: &[0, 1], attacker: 2, payload: |_a| { let mut t = vec![8u8]; t.extend_from_slice(&[7u8; 8]); t.extend_from_slice(&[9u8; 16]); frame(0x18, &[1, 0], &t) }, allowed: &[PV], rfc: "12.4" },
        AdvItem { name: "handshake-done-in-long-header-space", spaces: &[0, 1], attacker: 2, payload: |_a| frame(0x1e, &[], b""), allowed: &[PV], rfc: "12.4" },
        AdvItem { name: "reset-stream-in-long-header-space", spaces: &[0, 1], attacker: 2, payload: |_a| frame(0x04, &[0, 1, 0], b""), allowed: &[PV], rfc: "12.4" },
        AdvItem { name: "app-close-in-long-header-space", spaces: &[0, 1], attacker: 2, payload: |_a| frame(0x1d, &[1, 0], b""), allowed: &[PV], rfc: "12.4/12.5: CONNECTION_CLOSE of type 0x1d only in 0-RTT/1-RTT" },
        // the remaining frame types of RFC 9000 Table 3 that are not marked I or H
        AdvItem { name: "stop-sending-in-long-header-space", spaces: &[0, 1], attacker: 2, payload: |_a| frame(0x05, &[0, 1], b""), allowed: &[PV], rfc: "12.4" },
        AdvItem { name: "new-token-in-long-header-space", spaces: &[0, 1], attacker: 1, payload: |_a| frame(0x07, &[4], b"tokn"), allowed: &[PV], rfc: "12.4" },
        AdvItem { name: "max-stream-data-in-long-header-space", spaces: &[0, 1], attacker: 2, payload: |_a| frame(0x11, &[0, 100_000], b""), allowed: &[PV], rfc: "12.4" },
        AdvItem { name: "max-streams-bidi-in-long-header-space", spaces: &[0, 1], attacker: 2, payload: |_a| frame(0x12, &[100], b""), allowed: &[PV], rfc: "12.4" },
        AdvItem { name: "max-streams-uni-in-long-header-space", spaces: &[0, 1], attacker: 2, payload: |_a| frame(0x13, &[100], b""), allowed: &[PV], rfc: "12.4" },
        AdvItem { name: "data-blocked-in-long-header-space", spaces: &[0, 1], attacker: 2, payload: |_a| frame(0x14, &[1000], b""), allowed: &[PV], rfc: "12.4" },
        AdvItem { name: "stream-data-blocked-in-long-header-space", spaces: &[0, 1], attacker: 2, payload: |_a| frame(0x15, &[0, 1000], b""), allowed: &[PV], rfc: "12.4" },
        AdvItem { name: "streams-blocked-bidi-in-long-header-space", spaces: &[0, 1], attacker: 2, payload: |_a| frame(0x16, &[10], b""), allowed: &[PV], rfc: "12.4" },
        AdvItem { name: "streams-blocked-uni-in-long-header-space", spaces: &[0, 1], attacker: 2, payload: |_a| frame(0x17, &[10], b""), allowed: &[PV], rfc: "12.4" },
        AdvItem { name: "retire-connection-id-in-long-header-space", spaces: &[0, 1], attacker: 2, payload: |_a| frame(0x19, &[0], b""), allowed: &[PV], rfc: "12.4" },
        AdvItem { name: "path-response-in-long-header-space", spaces: &[0, 1], attacker: 2, payload: |_a| frame(0x1b, &[], &[1, 2, 3, 4, 5, 6, 7, 8]), allowed: &[PV], rfc: "12.4" },
        AdvItem { name: "path-challenge-in-long-header-space", spaces: &[0, 1], attacker: 2, payload: |_a| frame(0x1a, &[], &[1, 2, 3, 4, 5, 6, 7, 8]), allowed: &[PV], rfc: "12.4" },
        // 1-RTT rule breaches
        AdvItem { name: "handshake-done-to-server", spaces: &[2], attacker: 0, payload: |_a| frame(0x1e, &[], b""), allowed: &[PV], rfc: "19.20: a server MUST treat receipt of HANDSHAKE_DONE as PROTOCOL_VIOLATION" },
        AdvItem { name: "new-token-to-server", spaces: &[2], attacker: 0, payload: |_a| frame(0x07, &[4], b"tokn"), allowed: &[PV], rfc: "19.7: servers MUST treat NEW_TOKEN as PROTOCOL_VIOLATION" },
        AdvItem { name: "ack-of-unsent-packet", spaces: &[2], attacker: 2, payload: |_a| frame(0x02, &[5000, 0, 0, 0], b""), allowed: &[PV], rfc: "13.1: acknowledging a packet that was not sent SHOULD be PROTOCOL_VIOLATION" },
        AdvItem { name: "max-streams-above-2^60", spaces: &[2], attacker: 2, payload: |_a| frame(0x12, &[(1u64 << 60) + 1], b""), allowed: &[FRAME_ENC, STREAM_LIMIT, PV], rfc: "19.11: FRAME_ENCODING_ERROR" },
        AdvItem { name: "stream-offset-beyond-2^62", spaces: &[2], attacker: 2, payload: |a| frame(0x0e, &[if a == 0 { 4 } else { 1 }, (1u64 << 62) - 2, 3], b"abc"), allowed: &[FRAME_ENC, FLOW, PV], rfc: "19.8: FRAME_ENCODING_ERROR or FLOW_CONTROL_ERROR" },
        AdvItem { name: "stream-data-beyond-connection-limit", spaces: &[2], attacker: 2, payload: |a| frame(0x0e, &[if a == 0 { 4 } else { 1 }, 3_000_000_000, 3], b"abc"), allowed: &[FLOW, PV], rfc: "4.1: FLOW_CONTROL_ERROR" },
        AdvItem { name: "stream-id-beyond-limit", spaces: &[2], attacker: 0, payload: |_a| frame(0x0a, &[4 * 5000, 1], b"a"), allowed: &[STREAM_LIMIT, PV], rfc: "4.6: STREAM_LIMIT_ERROR" },
        AdvItem { name: "stream-for-unopened-local-stream", spaces: &[2], attacker: 0, payload: |_a| frame(0x0a, &[4 * 3 + 1, 1], b"a"), allowed: &[STREAM_STATE, PV], rfc: "19.8: STREAM_STATE_ERROR" },
        AdvItem { name: "max-stream-data-for-unopened-local-stream", spaces: &[2], attacker: 0, payload: |_a| frame(0x11, &[4 * 3 + 1, 100], b""), allowed: &[STREAM_STATE, PV], rfc: "19.10: STREAM_STATE_ERROR" },
        AdvItem { name: "new-connection-id-retire-prior-to-above-seq", spaces: &[2], attacker: 2, payload: |_a| { let mut t = vec![8u8]; t.extend_from_slice(&[7u8; 8]); t.extend_from_slice(&[9u8; 16]); frame(0x18, &[5, 6], &t) }, allowed: &[FRAME_ENC, PV], rfc: "19.15: FRAME_ENCODING_ERROR" },
        AdvItem { name: "new-connection-id-length-0", spaces: &[2], attacker: 2, payload: |_a| { let mut t = vec![0u8]; t.extend_from_slice(&[9u8; 16]); frame(0x18, &[5, 0], &t) }, allowed: &[FRAME_ENC, PV], rfc: "19.15: FRAME_ENCODING_ERROR" },
        AdvItem { name: "new-connection-id-length-21", spaces: &[2], attacker: 2, payload: |_a| { let mut t = vec![21u8]; t.extend_from_slice(&[7u8; 21]); t.extend_from_slice(&[9u8; 16]); frame(0x18, &[5, 0], &t) }, allowed: &[FRAME_ENC, PV], rfc: "19.15: FRAME_ENCODING_ERROR" },
        AdvItem { name: "new-connection-id-above-limit", spaces: &[2], attacker: 2, payload: |_a| {
            let mut o = Vec::new();
            for seq in 10u64..22 {
                let mut t = vec![8u8];
                t.extend_from_slice(&[seq as u8; 8]);
                t.extend_from_slice(&[seq as u8 + 100; 16]);
                let mut fr = Vec::new();
                vi(&mut fr, 0x18);
                vi(&mut fr, seq);
                vi(&mut fr, 0);
                fr.extend_from_slice(&t);
                o.extend_from_slice(&fr);
            }
            o
        }, allowed: &[CID_LIMIT, PV], rfc: "5.1.1: CONNECTION_ID_LIMIT_ERROR" },
        AdvItem { name: "retire-connection-id-unissued", spaces: &[2], attacker: 2, payload: |_a| frame(0x19, &[900], b""), allowed: &[PV], rfc: "19.16: PROTOCOL_VIOLATION" },
        AdvItem { name: "crypto-beyond-buffer", spaces: &[1], attacker: 2, payload: |_a| frame(0x06, &[1 << 30, 3], b"abc"), allowed: &[CRYPTO_BUF, PV], rfc: "7.5: CRYPTO_BUFFER_EXCEEDED" },
        AdvItem { name: "unknown-frame-type", spaces: &[0, 1, 2], attacker: 2, payload: |_a| frame(0x3f, &[], b""), allowed: &[FRAME_ENC, PV], rfc: "12.4: FRAME_ENCODING_ERROR" },
    ]
}


fn menu_null() -> Vec<Action> {
    vec![Action::Drop, Action::Dup(1000), Action::Delay(3)]
}

fn menu_tls() -> Vec<Action> {
    vec![Action::Drop, Action::Dup(1000), Action::Delay(3), Action::Corrupt(0, 0x01), Action::Corrupt(1, 0x80), Action::Corrupt(2, 0xff), Action::Truncate]
}

fn echo_task(size: usize, chunk: usize) -> Vec<Op> {
    vec![Op::OpenBidi, Op::Write(size, chunk), Op::Finish, Op::AwaitReader]
}

fn uni_task(size: usize, chunk: usize) -> Vec<Op> {
    vec![Op::OpenUni, Op::Write(size, chunk), Op::Close]
}

pub fn family(name: &str, tier: Tier) -> Vec<Case> {
    let mut out = Vec::new();
    let quick = tier == Tier::Quick;
    match name {
        // ------------------------------------------------------------------ DATA
        "data" => {
            // covering set: every value of every dimension at least once with null TLS
            let mut add = |s: Scenario, k: usize| {
                let menu = if s.tls == Tls::Null { menu_null() } else { menu_tls() };
                out.push(Case { scn: s, menu, k, extra: vec![], expect: Expect::Complete, injects: vec![], differential: false, first_index: 0, adv: None, last_index: u32::MAX });
            };
            let mut s = Scenario::base("data/echo-10000-whole");
            s.tasks = vec![echo_task(10_000, 0)];
            add(s, 2);
            let mut s = Scenario::base("data/echo-1-byte");
            s.tasks = vec![echo_task(1, 0)];
            add(s, 2);
            let mut s = Scenario::base("data/echo-1199-bbr-mtu1228");
            s.tasks = vec![echo_task(1199, 0)];
            s.cc = Cc::Bbr;
            s.mtu = 1228;
            add(s, 2);
            let mut s = Scenario::base("data/echo-4097-chunk1000-smallread");
            s.tasks = vec![echo_task(4097, 1000)];
            s.client_small_read = Some(700);
            s.client_read_pause_us = 1000;
            s.server_mode.small_read = Some(300);
            add(s, if quick { 1 } else { 2 });
            // the third receive API: `receive_vectored` with fewer chunk slots than the stream has
            // buffered slots; its `is_open` flag is the application's only end-of-stream signal
            let mut s = Scenario::base("data/echo-20000-vectored-2-slots");
            s.tasks = vec![echo_task(20_000, 0), uni_task(9000, 3000)];
            s.vectored_slots = Some(2);
            s.server_mode.vectored_slots = Some(2);
            s.server_mode.read_delay_ms = 0;
            s.client_read_pause_us = 20_000;
            add(s, 1);
            let mut s = Scenario::base("data/echo-5000-vectored-1-slot-tls");
            s.tls = Tls::S2n;
            s.tasks = vec![echo_task(5000, 700)];
            s.vectored_slots = Some(1);
            s.server_mode.vectored_slots = Some(1);
            s.server_mode.read_pause_us = 30_000;
            add(s, 1);
            // the two endpoints advertise different max_ack_delay values: each must run its delayed-ACK
            // timer with the value it advertised itself, not with the peer's
            let mut s = Scenario::base("data/ack-delay-client200-server25-sink");
            s.client.max_ack_delay_ms = Some(200);
            s.server_mode.echo = false;
            s.tasks = vec![vec![Op::OpenBidi, Op::Write(100, 0), Op::Sleep(400), Op::Write(100, 0), Op::Sleep(400), Op::Write(2500, 0), Op::Sleep(400), Op::Finish, Op::AwaitReader]];
            add(s, 1);
            let mut s = Scenario::base("data/ack-delay-client25-server200-push");
            s.server.max_ack_delay_ms = Some(200);
            s.tasks = vec![vec![Op::OpenUni, Op::Write(10, 0), Op::Sleep(600), Op::Close]];
            s.server_mode.push_streams = 2;
            s.server_mode.push_size = 2500;
            s.client_accepts_uni = true;
            add(s, 1);
            let mut s = Scenario::base("data/echo-12289-windows-1500-3000");
            s.tasks = vec![echo_task(12_289, 0)];
            s.client.stream_window = Some(1500);
            s.client.conn_window = Some(3000);
            s.server.stream_window = Some(1500);
            s.server.conn_window = Some(3000);
            add(s, 1);
            let mut s = Scenario::base("data/bidi+uni-4096");
            s.tasks = vec![echo_task(4096, 1000), uni_task(4096, 1)];
            add(s, if quick { 1 } else { 2 });
            let mut s = Scenario::base("data/three-bidi-4096-bbr");
            s.tasks = vec![echo_task(4096, 0), echo_task(4097, 1000), echo_task(1, 0)];
            s.cc = Cc::Bbr;
            add(s, 1);
            let mut s = Scenario::base("data/echo-70000");
            s.tasks = vec![echo_task(70_000, 0)];
            add(s, 1);
            let mut s = Scenario::base("data/push-3x5000");
            s.tasks = vec![vec![Op::Sleep(400)]];
            s.server_mode.push_streams = 3;
            s.server_mode.push_size = 5000;
            s.client_accepts_uni = true;
            add(s, 1);
            let mut s = Scenario::base("data/tls-echo-10000");
            s.tls = Tls::S2n;
            s.tasks = vec![echo_task(10_000, 1000)];
            add(s, 1);
            // Retry before the handshake (RFC 9000 8.1.2), then a small and a medium transfer
            let mut s = Scenario::base("data/null-retry-echo-10000");
            s.retry = Retry::Det;
            s.tasks = vec![echo_task(10_000, 0)];
            add(s, 1);
            let mut s = Scenario::base("data/tls-retry-echo-1+4097");
            s.tls = Tls::S2n;
            s.retry = Retry::Det;
            s.tasks = vec![echo_task(1, 0), echo_task(4097, 1000)];
            add(s, if quick { 0 } else { 1 });
            // segmentation boundaries: every stream length around one and two full packets (the last
            // frame of a stream is trimmed / padded / split differently for each), loss-free and with the
            // last flights dropped once
            let sweep: Vec<usize> = if quick { (1130..=1200).step_by(1).chain((2290..=2400).step_by(3)).collect() } else { (1100..=1210).chain(2250..=2420).chain(3400..=3620).collect() };
            for size in sweep {
                let mut s = Scenario::base(&format!("data/sweep-{}-mtu1228", size));
                s.mtu = 1228;
                s.tasks = vec![echo_task(size, 0)];
                s.linger_ms = 50;
                add(s, 0);
            }
            if !quick {
                for (size, mtu, cc) in [(1usize, 1228u16, Cc::Bbr), (4096, 1228, Cc::Cubic), (12_289, 1500, Cc::Bbr), (70_000, 1228, Cc::Bbr)] {
                    for chunk in [0usize, 1000] {
                        let mut s = Scenario::base(&format!("data/x-echo-{}-mtu{}-{:?}-chunk{}", size, mtu, cc, chunk));
                        s.tasks = vec![echo_task(size, chunk)];
                        s.mtu = mtu;
                        s.cc = cc;
                        add(s, if size <= 4096 { 2 } else { 1 });
                    }
                }
                let mut s = Scenario::base("data/tls-bidi+uni-bbr");
                s.tls = Tls::S2n;
                s.cc = Cc::Bbr;
                s.tasks = vec![echo_task(4097, 0), uni_task(1199, 0)];
                add(s, 1);
            }
            // bulk transfers in one direction: the receiver answers with ACK-only packets while more than
            // a hundred packets are outstanding, so packet numbers are truncated against a basis that is
            // far behind (RFC 9000 17.1 / A.2, A.3)
            let mut s = Scenario::base("data/upload-400000-sink");
            s.server_mode.echo = false;
            s.tasks = vec![vec![Op::OpenUni, Op::Write(400_000, 0), Op::Close]];
            out.push(Case { scn: s, menu: menu_null(), k: 1, extra: vec![], expect: Expect::Complete, injects: vec![], differential: false, first_index: 0, adv: None, last_index: 24 });
            let mut s = Scenario::base("data/download-400000-push-tls");
            s.tls = Tls::S2n;
            s.tasks = vec![vec![Op::OpenUni, Op::Write(10, 0), Op::Close]];
            s.server_mode.push_streams = 1;
            s.server_mode.push_size = 400_000;
            s.client_accepts_uni = true;
            out.push(Case { scn: s, menu: menu_null(), k: 1, extra: vec![], expect: Expect::Complete, injects: vec![], differential: false, first_index: 0, adv: None, last_index: 24 });
        }
        // ------------------------------------------------------------------ LIVE
        "live" => {
            let bh = |dirs: &[u8]| -> Vec<Action> { dirs.iter().map(|d| Action::BlackholeFor(*d, 2000)).collect() };
            // L1: blocking of every kind, finite faults, must complete
            let mut add = |s: Scenario, k: usize| {
                let menu = if s.tls == Tls::Null { menu_null() } else { menu_tls() };
                out.push(Case { scn: s, menu, k, extra: bh(&[0, 1, 2]), expect: Expect::Complete, injects: vec![], differential: false, first_index: 0, adv: None, last_index: u32::MAX });
            };
            let mut s = Scenario::base("live/stream-credit");
            s.server.stream_window = Some(1000);
            s.client.stream_window = Some(1000);
            s.server_mode.read_pause_us = 2000;
            s.tasks = vec![echo_task(6000, 0)];
            add(s, if quick { 1 } else { 2 });
            let mut s = Scenario::base("live/conn-credit");
            s.server.conn_window = Some(1500);
            s.client.conn_window = Some(1500);
            s.tasks = vec![echo_task(4000, 0), echo_task(4000, 1000)];
            add(s, if quick { 1 } else { 2 });
            // a reader that sleeps and then drains in one burst: a single MAX_DATA / MAX_STREAM_DATA is all
            // that can unblock the sender, so its loss must be repaired by retransmission
            let mut s = Scenario::base("live/conn-credit-burst-reader");
            s.server.conn_window = Some(2000);
            s.server_mode.read_delay_ms = 400;
            s.server_mode.echo = false;
            s.tasks = vec![vec![Op::OpenBidi, Op::Write(5000, 0), Op::Finish, Op::AwaitReader]];
            add(s, if quick { 1 } else { 2 });
            let mut s = Scenario::base("live/stream-credit-burst-reader");
            s.server.stream_window = Some(2000);
            s.server_mode.read_delay_ms = 400;
            s.server_mode.echo = false;
            s.tasks = vec![uni_task(5000, 0), vec![Op::OpenBidi, Op::Write(5000, 0), Op::Finish, Op::AwaitReader]];
            add(s, if quick { 1 } else { 2 });
            let mut s = Scenario::base("live/stream-count-credit");
            s.server.max_bidi_remote = Some(1);
            s.client.max_bidi_local = Some(1);
            s.tasks = vec![[echo_task(500, 0), echo_task(500, 0), echo_task(500, 0)].concat()];
            add(s, if quick { 1 } else { 2 });
            let mut s = Scenario::base("live/stream-count-credit-peer-only");
            s.server.max_bidi_remote = Some(1);
            s.tasks = vec![[echo_task(500, 0), echo_task(500, 0), echo_task(500, 0)].concat()];
            add(s, if quick { 1 } else { 2 });
            let mut s = Scenario::base("live/stream-count-credit-local-only");
            s.client.max_bidi_local = Some(1);
            s.tasks = vec![[echo_task(500, 0), echo_task(500, 0), echo_task(500, 0)].concat()];
            add(s, if quick { 1 } else { 2 });
            let mut s = Scenario::base("live/tls-amplification");
            s.tls = Tls::S2n;
            s.tasks = vec![echo_task(3000, 0)];
            add(s, if quick { 1 } else { 2 });
            // the server's first flight exceeds 3 x the client's first datagram: it stops at the
            // anti-amplification limit and only the client's own probes (RFC 9002 6.2.2.1) release it
            for (name, cert) in [("live/tls-amplification-cert-medium", Cert::Medium), ("live/tls-amplification-cert-large", Cert::Large)] {
                let mut s = Scenario::base(name);
                s.tls = Tls::S2n;
                s.cert = cert;
                s.expect_amp_block = true;
                s.tasks = vec![echo_task(3000, 0)];
                add(s, if quick { 1 } else { 2 });
            }
            let mut s = Scenario::base("live/null-retry");
            s.retry = Retry::Det;
            s.tasks = vec![echo_task(3000, 0)];
            add(s, if quick { 1 } else { 2 });
            let mut s = Scenario::base("live/tls-retry-cert-medium");
            s.tls = Tls::S2n;
            s.cert = Cert::Medium;
            s.retry = Retry::Det;
            s.expect_amp_block = true;
            s.tasks = vec![echo_task(3000, 0)];
            add(s, if quick { 0 } else { 1 });
            // the idle timer restarts when an endpoint sends its first ack-eliciting packet after a silence
            // (RFC 9000 10.1): an application that pauses for almost the whole idle timeout and then writes
            // again must survive a short outage of the return direction around the old deadline (an outage
            // of the forward direction lets the peer, which has heard nothing for the whole period, time
            // out legitimately)
            let mut s = Scenario::base("live/pause-near-idle-then-write");
            s.client.idle_ms = Some(3000);
            s.server.idle_ms = Some(3000);
            s.tasks = vec![vec![Op::OpenBidi, Op::Write(200, 0), Op::Sleep(2700), Op::Write(200, 0), Op::Finish, Op::AwaitReader]];
            s.horizon_ms = 60_000;
            out.push(Case { scn: s, menu: vec![Action::Drop], k: 1, extra: vec![Action::BlackholeFor(1, 600)], expect: Expect::Complete, injects: vec![], differential: false, first_index: 0, adv: None, last_index: u32::MAX });
            // L2: the network never recovers: blackhole from every datagram index on
            for (name, idle, tls, cert, retry) in [
                ("live/blackhole-idle-3s", 3000u64, Tls::Null, Cert::Stock, Retry::Off),
                ("live/blackhole-idle-100ms", 100, Tls::Null, Cert::Stock, Retry::Off),
                ("live/blackhole-tls-idle-3s", 3000, Tls::S2n, Cert::Stock, Retry::Off),
                ("live/blackhole-tls-cert-large-idle-3s", 3000, Tls::S2n, Cert::Large, Retry::Off),
                ("live/blackhole-null-retry-idle-3s", 3000, Tls::Null, Cert::Stock, Retry::Det),
            ] {
                let mut s = Scenario::base(name);
                s.tls = tls;
                s.cert = cert;
                s.retry = retry;
                s.client.idle_ms = Some(idle);
                s.server.idle_ms = Some(idle);
                s.client.handshake_ms = Some(5000);
                s.server.handshake_ms = Some(5000);
                s.tasks = vec![echo_task(6000, 1000)];
                s.horizon_ms = 60_000;
                out.push(Case { scn: s, menu: vec![], k: 0, extra: vec![Action::BlackholeFrom(0), Action::BlackholeFrom(1), Action::BlackholeFrom(2)], expect: Expect::Report, injects: vec![], differential: false, first_index: 0, adv: None, last_index: u32::MAX });
            }
            // thorough: a blackhole window or a drop, followed by a further drop / delay, all within the
            // handshake of the large-certificate scenarios (the server is blocked twice, the client's
            // probe is lost, ...)
            if !quick {
                for (name, cert, last) in [("live/tls-amplification-cert-medium-pairs", Cert::Medium, 15u32), ("live/tls-amplification-cert-large-pairs", Cert::Large, 18)] {
                    let mut s = Scenario::base(name);
                    s.tls = Tls::S2n;
                    s.cert = cert;
                    s.expect_amp_block = true;
                    s.tasks = vec![echo_task(3000, 0)];
                    out.push(Case { scn: s, menu: vec![Action::Drop, Action::Delay(3)], k: 2, extra: bh(&[0, 1, 2]), expect: Expect::Complete, injects: vec![], differential: false, first_index: 0, adv: None, last_index: last });
                }
            }
        }
        // ------------------------------------------------------------------ FLOW
        "flow" => {
            let windows: &[u64] = if quick { &[1, 1200, 4096] } else { &[1, 2, 1199, 1200, 4096] };
            for &sw in windows {
                for &cw in windows {
                    if quick && sw != cw && !(sw == 1 || cw == 1) {
                        continue;
                    }
                    let mut s = Scenario::base(&format!("flow/echo-3000-sw{}-cw{}", sw, cw));
                    s.server.stream_window = Some(sw);
                    s.server.conn_window = Some(cw);
                    s.client.stream_window = Some(sw.max(64));
                    s.client.conn_window = Some(cw.max(64));
                    s.tasks = vec![echo_task(if sw.min(cw) < 10 { 40 } else { 3000 }, 0)];
                    s.horizon_ms = 120_000;
                    out.push(Case { scn: s, menu: menu_null(), k: 1, extra: vec![], expect: Expect::Complete, injects: vec![], differential: false, first_index: 0, adv: None, last_index: u32::MAX });
                }
            }
            // write > window then reset: the RESET_STREAM final size
            for (sw, cw) in [(10u64, 1000u64), (1000, 10), (1200, 4096)] {
                let mut s = Scenario::base(&format!("flow/write-reset-sw{}-cw{}", sw, cw));
                s.server.stream_window = Some(sw);
                s.server.conn_window = Some(cw);
                s.server_mode.echo = false;
                s.tasks = vec![
                    vec![Op::OpenBidi, Op::Write(100, 0), Op::Sleep(60), Op::Reset(5), Op::Sleep(200)],
                    vec![Op::OpenUni, Op::Write(100, 0), Op::Reset(5), Op::Sleep(200)],
                ];
                out.push(Case { scn: s, menu: menu_null(), k: if quick { 1 } else { 2 }, extra: vec![], expect: Expect::Nothing, injects: vec![], differential: false, first_index: 0, adv: None, last_index: u32::MAX });
            }
            // stream data windows that differ per kind of stream and per role (initial_max_stream_data_
            // bidi_local / bidi_remote / uni all pairwise different, on both sides): a sender must take the
            // limit of the right kind from the peer's parameters and a receiver must enforce / re-advertise
            // the window of the right kind - both orderings of (local, remote), so that a mix-up of the
            // perspectives shows as an overrun in one of them and as a stall / wrong credit in the other
            for (name, srv, cli) in [("a", (700u64, 2500u64, 1300u64), (2100u64, 900u64, 1600u64)), ("b", (2500, 700, 1900), (900, 2100, 1100))] {
                let mut s = Scenario::base(&format!("flow/asym-stream-windows-{}", name));
                s.server.win_kinds = Some(srv);
                s.client.win_kinds = Some(cli);
                s.tasks = vec![echo_task(6000, 0), uni_task(4000, 0)];
                s.server_mode.push_streams = 2;
                s.server_mode.push_size = 3000;
                s.client_accepts_uni = true;
                s.horizon_ms = 120_000;
                out.push(Case { scn: s, menu: menu_null(), k: 1, extra: vec![], expect: Expect::Complete, injects: vec![], differential: false, first_index: 0, adv: None, last_index: u32::MAX });
            }
            // stream-count limits that differ per stream type (and per role): the opener must respect the
            // limit of the type it opens, not the other one
            for (bidi, uni) in [(4u64, 1u64), (1, 4), (3, 2)] {
                let mut s = Scenario::base(&format!("flow/open-many-bidi{}-uni{}", bidi, uni));
                s.server.max_bidi_remote = Some(bidi);
                s.server.max_uni_remote = Some(uni);
                s.client.max_bidi_remote = Some(uni);
                s.client.max_uni_remote = Some(bidi);
                s.tasks = vec![[echo_task(300, 0), echo_task(300, 0), echo_task(300, 0)].concat(), [uni_task(300, 0), uni_task(300, 0), uni_task(300, 0)].concat()];
                s.server_mode.push_streams = 3;
                s.server_mode.push_size = 200;
                s.client_accepts_uni = true;
                out.push(Case { scn: s, menu: menu_null(), k: 1, extra: vec![], expect: Expect::Complete, injects: vec![], differential: false, first_index: 0, adv: None, last_index: u32::MAX });
            }
            // stream-count limits
            for lim in [1u64, 2] {
                let mut s = Scenario::base(&format!("flow/open-many-limit{}", lim));
                s.server.max_bidi_remote = Some(lim);
                s.server.max_uni_remote = Some(lim);
                s.tasks = vec![[echo_task(300, 0), echo_task(300, 0), echo_task(300, 0)].concat(), [uni_task(300, 0), uni_task(300, 0), uni_task(300, 0)].concat()];
                out.push(Case { scn: s, menu: menu_null(), k: if quick { 1 } else { 2 }, extra: vec![], expect: Expect::Complete, injects: vec![], differential: false, first_index: 0, adv: None, last_index: u32::MAX });
            }
        }
        // ------------------------------------------------------------------ LIFECYCLE
        "lifecycle" => {
            // one disturbing action at script step j over a multi-stream transfer
            let base_tasks = || vec![echo_task(5000, 1000), uni_task(3000, 1000), echo_task(2000, 0)];
            let mut idx = 0;
            for j in 0..4usize {
                for act in ["reset", "close", "drop", "finish-early"] {
                    let mut s = Scenario::base(&format!("lifecycle/{}-at-{}", act, j));
                    let mut t0 = vec![Op::OpenBidi];
                    for step in 0..4 {
                        if step == j {
                            match act {
                                "reset" => t0.push(Op::Reset(11)),
                                "close" => t0.push(Op::CloseConnection(12)),
                                "drop" => t0.push(Op::DropStream),
                                _ => t0.push(Op::Finish),
                            }
                        }
                        t0.push(Op::Write(1500, 0));
                    }
                    t0.push(Op::Finish);
                    t0.push(Op::Sleep(300));
                    let mut tasks = base_tasks();
                    tasks[0] = t0;
                    s.tasks = tasks;
                    idx += 1;
                    if quick && idx % 2 == 0 && act != "reset" {
                        continue;
                    }
                    out.push(Case { scn: s, menu: menu_null(), k: if quick { 1 } else { 2 }, extra: vec![], expect: Expect::Nothing, injects: vec![], differential: false, first_index: 0, adv: None, last_index: u32::MAX });
                }
            }
            // peer-driven: server sends STOP_SENDING / resets its direction / closes
            for (name, f) in [
                ("lifecycle/server-stop-sending", Box::new(|m: &mut ServerMode| m.stop_sending_after = Some(1000)) as Box<dyn Fn(&mut ServerMode)>),
                ("lifecycle/server-reset", Box::new(|m: &mut ServerMode| m.reset_after = Some(1000))),
                ("lifecycle/server-close", Box::new(|m: &mut ServerMode| m.close_after_ms = Some(60))),
            ] {
                let mut s = Scenario::base(name);
                f(&mut s.server_mode);
                s.tasks = base_tasks();
                out.push(Case { scn: s, menu: menu_null(), k: if quick { 1 } else { 2 }, extra: vec![], expect: Expect::Nothing, injects: vec![], differential: false, first_index: 0, adv: None, last_index: u32::MAX });
            }
        }
        // ------------------------------------------------------------------ HS
        "hs" => {
            for (name, tls, mtu) in [("hs/tls-1500", Tls::S2n, 1500u16), ("hs/tls-1228", Tls::S2n, 1228), ("hs/null-1500", Tls::Null, 1500)] {
                let mut s = Scenario::base(name);
                s.tls = tls;
                s.mtu = mtu;
                s.tasks = vec![echo_task(2000, 0)];
                let menu = if tls == Tls::Null { menu_null() } else { menu_tls() };
                out.push(Case { scn: s, menu, k: if tls == Tls::Null { 2 } else if quick { 1 } else { 2 }, extra: vec![], expect: Expect::Complete, injects: vec![], differential: false, first_index: 0, adv: None, last_index: u32::MAX });
            }
            // certificate chains above 3 x 1200 and 6 x 1200 bytes: the server runs into the
            // anti-amplification limit in the middle of its first flight.  Thorough: every pair of
            // drop / duplicate / delay, plus every single corruption / truncation
            let damage = || vec![Action::Corrupt(0, 0x01), Action::Corrupt(1, 0x80), Action::Corrupt(2, 0xff), Action::Truncate];
            for (name, cert, mtu) in [("hs/tls-cert-medium-1500", Cert::Medium, 1500u16), ("hs/tls-cert-large-1500", Cert::Large, 1500), ("hs/tls-cert-large-1228", Cert::Large, 1228)] {
                if quick && mtu == 1228 {
                    continue;
                }
                let mut s = Scenario::base(name);
                s.tls = Tls::S2n;
                s.cert = cert;
                s.mtu = mtu;
                s.expect_amp_block = true;
                s.tasks = vec![echo_task(2000, 0)];
                let (menu, k, extra) = if quick { (menu_null(), 1, vec![]) } else if mtu == 1228 { (menu_tls(), 1, vec![]) } else { (menu_null(), 2, damage()) };
                // thorough pairs stay within the handshake (it ends around datagram 12 / 15 of the
                // fault-free run; what follows is the same transfer and close as in hs/tls-1500)
                let last_index = if quick || k == 1 { u32::MAX } else if cert == Cert::Medium { 15 } else { 18 };
                out.push(Case { scn: s, menu, k, extra, expect: Expect::Complete, injects: vec![], differential: false, first_index: 0, adv: None, last_index });
            }
            // Retry: every fault at every index, the Retry datagram and the second Initial included
            for (name, tls, cert, retry) in [
                ("hs/null-retry", Tls::Null, Cert::Stock, Retry::Det),
                ("hs/tls-retry", Tls::S2n, Cert::Stock, Retry::Det),
                ("hs/tls-retry-stock-token", Tls::S2n, Cert::Stock, Retry::Stock),
                ("hs/tls-retry-cert-medium", Tls::S2n, Cert::Medium, Retry::Det),
            ] {
                if quick && cert == Cert::Medium {
                    continue;
                }
                let mut s = Scenario::base(name);
                s.tls = tls;
                s.cert = cert;
                s.retry = retry;
                s.expect_amp_block = cert != Cert::Stock;
                s.tasks = vec![echo_task(2000, 0)];
                let (menu, k, extra) = if tls == Tls::Null {
                    (menu_null(), 2, vec![])
                } else if retry == Retry::Stock {
                    // no corruption: the stock token format burns a token on a corrupted copy of the
                    // Initial that carries it (see notes/wL.md); its tokens also expire after 1-2 s
                    (menu_null(), 1, vec![])
                } else if quick {
                    (menu_tls(), 1, vec![])
                } else if cert == Cert::Medium {
                    (menu_null(), 2, damage())
                } else {
                    // pairs include a Retry whose integrity tag is damaged
                    (vec![Action::Drop, Action::Dup(1000), Action::Delay(3), Action::Corrupt(2, 0xff)], 2, vec![Action::Corrupt(0, 0x01), Action::Corrupt(1, 0x80), Action::Truncate])
                };
                let last_index = if quick || k == 1 || tls == Tls::Null { u32::MAX } else if cert == Cert::Medium { 17 } else { 12 };
                out.push(Case { scn: s, menu, k, extra, expect: Expect::Complete, injects: vec![], differential: false, first_index: 0, adv: None, last_index });
            }
            // early close by the server application: CONNECTION_CLOSE packets count too
            let mut s = Scenario::base("hs/tls-server-early-close");
            s.tls = Tls::S2n;
            s.server_mode.close_after_ms = Some(0);
            s.tasks = vec![echo_task(2000, 0)];
            out.push(Case { scn: s, menu: menu_tls(), k: 1, extra: vec![], expect: Expect::Nothing, injects: vec![], differential: false, first_index: 0, adv: None, last_index: u32::MAX });
        }
        // ------------------------------------------------------------------ MIGRATE: rebinding, connection-id rotation
        "migrate" => {
            for limit in [2u64, 3, 4] {
                let mut s = Scenario::base(&format!("migrate/rebind-echo-8000-cidlimit{}", limit));
                // real TLS: after a rebind the server emits bursts of >128 small packets; a packet delayed
                // past such a burst reconstructs to a wrong packet number, which only the AEAD rejects -
                // with null TLS it would be accepted (an artefact of running without integrity protection)
                s.tls = Tls::S2n;
                s.client.active_cids = Some(limit);
                s.server.active_cids = Some(limit);
                // keep-alive every 300 ms: a client that has nothing to send when its NAT binding changes
                // is only found again by the server once it transmits from the new address (nothing QUIC
                // could do about a silent receiver), e.g. thorough [19D,25R]: rebind on the client's last ACK
                s.client.keep_alive_ms = Some(300);
                s.tasks = vec![vec![Op::KeepAlive(true), Op::OpenBidi, Op::Write(3000, 0), Op::Sleep(120), Op::Write(3000, 0), Op::Sleep(120), Op::Write(2000, 0), Op::Finish, Op::AwaitReader]];
                s.horizon_ms = 120_000;
                // RFC 9000 9: no migration before the handshake is confirmed - a client whose address changes
                // mid-handshake legitimately fails to connect, so deviations start after the handshake
                out.push(Case { scn: s, menu: vec![Action::RebindClient, Action::Drop, Action::Delay(3)], k: if quick { 1 } else { 2 }, extra: vec![], expect: Expect::Complete, injects: vec![], differential: false, first_index: 10, adv: None, last_index: u32::MAX });
            }
            // the server has plenty to send when the client's address changes: the new path is
            // amplification-limited until it is validated
            let mut s = Scenario::base("migrate/rebind-during-server-push");
            s.tls = Tls::S2n;
            // the client keeps sending a trickle of its own: a silent receiver behind a rebinding NAT cannot
            // be found again by the server (nothing QUIC could do about that)
            let mut trickle = vec![Op::OpenUni];
            for _ in 0..30 {
                trickle.push(Op::Write(50, 0));
                trickle.push(Op::Sleep(30));
            }
            trickle.push(Op::Close);
            s.tasks = vec![trickle];
            s.server_mode.push_streams = 2;
            s.server_mode.push_size = 40_000;
            s.client_accepts_uni = true;
            s.horizon_ms = 120_000;
            out.push(Case { scn: s, menu: vec![Action::RebindClient, Action::Drop], k: if quick { 1 } else { 2 }, extra: vec![], expect: Expect::Complete, injects: vec![], differential: false, first_index: 10, adv: None, last_index: u32::MAX });
            // connection-id expiry: the stock minimum lifetime (60 s) in a 150 s keep-alive scenario
            let mut s = Scenario::base("migrate/rotation-60s");
            s.tls = Tls::S2n;
            s.cid_lifetime_ms = Some(60_000);
            s.client.idle_ms = Some(300_000);
            s.server.idle_ms = Some(300_000);
            let mut ops = vec![Op::KeepAlive(true), Op::OpenBidi];
            for _ in 0..8 {
                ops.push(Op::Write(200, 0));
                ops.push(Op::Sleep(20_000));
            }
            ops.push(Op::Finish);
            ops.push(Op::AwaitReader);
            s.tasks = vec![ops];
            s.horizon_ms = 400_000;
            out.push(Case { scn: s, menu: vec![Action::RebindClient, Action::Drop], k: 1, extra: vec![], expect: Expect::Complete, injects: vec![], differential: false, first_index: 10, adv: None, last_index: u32::MAX });
        }
        // ------------------------------------------------------------------ TPE2E: edited transport-parameter blocks
        "tpe2e" => {
            for (i, item) in tp_catalogue().iter().enumerate() {
                for who in [crate::record::CLIENT, crate::record::SERVER] {
                    if item.who != 2 && item.who != who {
                        continue;
                    }
                    let mut s = Scenario::base(&format!("tpe2e/{}-{}", item.name, if who == 0 { "from-client" } else { "from-server" }));
                    s.tp_edit = Some((who, item.edit.clone()));
                    if item.retry {
                        s.retry = Retry::Det;
                    }
                    s.tasks = vec![echo_task(3000, 0)];
                    s.horizon_ms = if item.accept { 30_000 } else { 12_000 };
                    s.linger_ms = 100;
                    let _ = i;
                    out.push(Case { scn: s, menu: vec![], k: 0, extra: vec![], expect: if item.accept && !item.limits_only { Expect::Complete } else { Expect::Nothing }, injects: vec![], differential: false, first_index: 0, adv: None, last_index: u32::MAX });
                }
            }
        }
        // ------------------------------------------------------------------ ADV: an otherwise honest peer that breaks one rule
        "adv" => {
            let cat = adv_catalogue();
            for (i, item) in cat.iter().enumerate() {
                for attacker in [crate::record::CLIENT, crate::record::SERVER] {
                    if item.attacker != 2 && item.attacker != attacker {
                        continue;
                    }
                    for &space in item.spaces {
                        // injection point: every packet index of the honest run in that space (the run has at
                        // most ~3 packets per long-header space and ~12 in the application space)
                        let nths: Vec<u32> = if space == 2 { if quick { vec![0, 1, 3, 6] } else { (0..10).collect() } } else { vec![0, 1] };
                        for nth in nths {
                            let mut s = Scenario::base(&format!("adv/{}-{}-sp{}-n{}", item.name, if attacker == 0 { "client-attacks" } else { "server-attacks" }, space, nth));
                            s.tasks = vec![echo_task(6000, 1000)];
                            s.horizon_ms = 30_000;
                            out.push(Case { scn: s, menu: vec![], k: 0, extra: vec![], expect: Expect::Nothing, injects: vec![], differential: false, first_index: 0, adv: Some(Adv { attacker, space, nth, item: i }), last_index: u32::MAX });
                        }
                    }
                }
            }
        }
        // ------------------------------------------------------------------ STRAY: datagrams for no connection
        "stray" => {
            // every size 1..=1400 of four kinds of stray datagrams, spread over several runs; each comes
            // from its own source port so that the reply (if any) can be attributed
            let runs = if quick { 10usize } else { 28 };
            let step = if quick { 4usize } else { 1 };
            for run in 0..runs {
                let mut s = Scenario::base(&format!("stray/run-{}", run));
                s.tasks = vec![echo_task(2000, 0)];
                let mut injects = Vec::new();
                let mut size = 1 + run * step;
                while size <= 1400 {
                    for kind in 0..4u8 {
                        injects.push(crate::net::Inject { before_idx: 4 + (size % 3) as u32, to: crate::record::SERVER, payload: stray_payload(kind, size), from_peer: false, src_port: stray_port(kind, size) });
                    }
                    size += runs * step;
                }
                out.push(Case { scn: s, menu: vec![], k: 0, extra: vec![], expect: Expect::Complete, injects, differential: false, first_index: 0, adv: None, last_index: u32::MAX });
            }
        }
        // ------------------------------------------------------------------ FORGE: forged variants of genuine datagrams
        "forge" => {
            for (name, tls) in [("forge/tls-echo-3000", Tls::S2n), ("forge/null-hs-only", Tls::Null)] {
                let mut s = Scenario::base(name);
                s.tls = tls;
                s.tasks = vec![echo_task(if tls == Tls::S2n { 3000 } else { 10 }, 0)];
                // with null TLS nothing is authenticated: only the handshake datagrams (Initial packets are
                // protected by nothing there either) - so null is used for replays only
                let menu = if tls == Tls::S2n { vec![Action::Forge(0), Action::Forge(1), Action::Forge(2), Action::Forge(3)] } else { vec![Action::Dup(60_000), Action::Dup(400_000)] };
                out.push(Case { scn: s, menu, k: 1, extra: vec![], expect: Expect::Complete, injects: vec![], differential: tls == Tls::S2n, first_index: 0, adv: None, last_index: u32::MAX });
            }
            {
                // (both tiers) forgeries of the packets that follow a loss (retransmissions, the ACKs that
                // report the gap) - every pair (drop at i, forge at j > i) - and of a multi-stream transfer
                // under BBR with a key update in the middle
                let mut s = Scenario::base("forge/tls-echo-3000-after-loss");
                s.tls = Tls::S2n;
                s.tasks = vec![echo_task(3000, 0)];
                out.push(Case { scn: s, menu: vec![Action::Drop, Action::Dup(1000), Action::Delay(3), Action::Forge(0), Action::Forge(1), Action::Forge(3)], k: 2, extra: vec![], expect: Expect::Complete, injects: vec![], differential: true, first_index: 0, adv: None, last_index: u32::MAX });
                let mut s = Scenario::base("forge/tls-multi-stream-bbr");
                s.tls = Tls::S2n;
                s.cc = Cc::Bbr;
                s.tasks = vec![echo_task(6000, 1000), uni_task(4000, 0), echo_task(1, 0)];
                out.push(Case { scn: s, menu: vec![Action::Forge(0), Action::Forge(1), Action::Forge(2), Action::Forge(3)], k: 1, extra: vec![], expect: Expect::Complete, injects: vec![], differential: true, first_index: 0, adv: None, last_index: u32::MAX });
            }
            // a replay that is older than the duplicate window (128 packet numbers): each of the first
            // datagrams of a 1.5 MB upload is delivered again 100 ms later, several hundred packets on (late in the
            // transfer packet numbers are sent in two bytes, so the old number still reconstructs)
            let mut s = Scenario::base("forge/tls-replay-older-than-window");
            s.tls = Tls::S2n;
            s.server_mode.echo = false;
            s.tasks = vec![vec![Op::OpenUni, Op::Write(1_500_000, 0), Op::Close]];
            out.push(Case { scn: s, menu: vec![Action::Dup(100_000)], k: 1, extra: vec![], expect: Expect::Complete, injects: vec![], differential: false, first_index: if quick { 600 } else { 4 }, adv: None, last_index: if quick { 640 } else { 1200 } });
            let mut s = Scenario::base("forge/tls-replays");
            s.tls = Tls::S2n;
            s.tasks = vec![echo_task(3000, 1000)];
            out.push(Case { scn: s, menu: vec![Action::Dup(1000), Action::Dup(60_000), Action::Dup(400_000)], k: if quick { 1 } else { 2 }, extra: vec![], expect: Expect::Complete, injects: vec![], differential: false, first_index: 0, adv: None, last_index: u32::MAX });
        }
        // ------------------------------------------------------------------ KEYUP (hook H5)
        "keyup" => {
            for (name, tls, n, size) in [("keyup/tls-every-60", Tls::S2n, 60u64, 120_000usize), ("keyup/null-every-40", Tls::Null, 40, 80_000)] {
                let mut s = Scenario::base(name);
                s.tls = tls;
                s.key_update_every = Some(n);
                // flow control caps the rate at ~5 packets per round trip, so that consecutive key updates
                // are more than 3 PTO apart (the limit real AEAD limits guarantee by many orders of
                // magnitude): a peer may only start the next update once the previous one is acknowledged,
                // and a receiver may defer creating the next keys for that long (RFC 9001 6.1, 6.5)
                s.client.stream_window = Some(6000);
                s.client.conn_window = Some(6000);
                s.server.stream_window = Some(6000);
                s.server.conn_window = Some(6000);
                s.tasks = vec![echo_task(size, 0)];
                s.horizon_ms = 120_000;
                // deviations start after the handshake: a lost handshake flight inflates the RTT estimate to
                // ~1 s and with it the PTO-long key retention window beyond the artificial update interval of
                // hook H5 - a state real AEAD limits cannot produce
                out.push(Case { scn: s, menu: vec![Action::Drop, Action::Delay(3), Action::Dup(1000)], k: 1, extra: vec![], expect: Expect::Complete, injects: vec![], differential: false, first_index: 12, adv: None, last_index: u32::MAX });
            }
        }
        _ => panic!("unknown family {}", name),
    }
    out
}

pub struct TpItem {
    pub name: &'static str,
    /// who sends the edited block: 0 client, 1 server, 2 both (one scenario each)
    pub who: u8,
    pub edit: TpEdit,
    /// RFC 9000 7.4 / 18.2 verdict
    pub accept: bool,
    /// accepted, but the declared limits make the transfer stall (only the sender-side limit monitor is of interest)
    pub limits_only: bool,
    /// the handshake is preceded by a real Retry (the verdict of connection-id parameters depends on it)
    pub retry: bool,
}

fn vint(v: u64) -> Vec<u8> {
    let mut o = Vec::new();
    vi(&mut o, v);
    o
}

pub fn tp_catalogue() -> Vec<TpItem> {
    let rej = |name: &'static str, who: u8, edit: TpEdit| TpItem { name, who, edit, accept: false, limits_only: false, retry: false };
    let acc = |name: &'static str, who: u8, edit: TpEdit| TpItem { name, who, edit, accept: true, limits_only: false, retry: false };
    // RFC 9000 7.3: after a Retry the server MUST send original_destination_connection_id = the
    // Destination Connection ID of the client's *first* Initial and retry_source_connection_id = the
    // Source Connection ID of the Retry packet; the client MUST treat a missing or mismatching value
    // as TRANSPORT_PARAMETER_ERROR
    let rrej = |name: &'static str, edit: TpEdit| TpItem { name, who: 1, edit, accept: false, limits_only: false, retry: true };
    let racc = |name: &'static str, edit: TpEdit| TpItem { name, who: 1, edit, accept: true, limits_only: false, retry: true };
    vec![
        rej("ack-delay-exponent-21", 2, TpEdit::Replace(0x0a, vec![21])),
        acc("ack-delay-exponent-20", 2, TpEdit::Replace(0x0a, vec![20])),
        rej("max-ack-delay-2^14", 2, TpEdit::Replace(0x0b, vint(1 << 14))),
        acc("max-ack-delay-2^14-1", 2, TpEdit::Replace(0x0b, vint((1 << 14) - 1))),
        rej("max-udp-payload-1199", 2, TpEdit::Replace(0x03, vint(1199))),
        acc("max-udp-payload-1200", 2, TpEdit::Replace(0x03, vint(1200))),
        rej("active-cid-limit-1", 2, TpEdit::Replace(0x0e, vec![1])),
        acc("active-cid-limit-2", 2, TpEdit::Replace(0x0e, vec![2])),
        rej("max-streams-bidi-2^60+1", 2, TpEdit::Replace(0x08, vint((1 << 60) + 1))),
        rej("max-streams-uni-2^60+1", 2, TpEdit::Replace(0x09, vint((1 << 60) + 1))),
        rej("duplicate-initial-max-data", 2, TpEdit::Append(vec![0x04, 0x01, 0x05, 0x04, 0x01, 0x05])),
        rej("duplicate-max-idle-timeout", 2, TpEdit::Append(vec![0x01, 0x01, 0x05, 0x01, 0x01, 0x06])),
        rej("client-sends-stateless-reset-token", 0, TpEdit::Replace(0x02, vec![7; 16])),
        rej("client-sends-original-destination-connection-id", 0, TpEdit::Replace(0x00, vec![7; 8])),
        rej("client-sends-retry-source-connection-id", 0, TpEdit::Replace(0x10, vec![7; 8])),
        rej("client-sends-preferred-address", 0, TpEdit::Replace(0x0d, { let mut v = vec![1, 2, 3, 4, 0x11, 0x51]; v.extend_from_slice(&[0x20, 1, 0xd, 0xb8, 0, 0, 0, 0, 0, 0, 0, 0, 0, 0, 0, 1, 0x01, 0xbb]); v.push(4); v.extend_from_slice(&[9; 4]); v.extend_from_slice(&[8; 16]); v })),
        rej("initial-source-connection-id-mismatch", 2, TpEdit::Replace(0x0f, vec![0xab; 16])),
        rej("initial-source-connection-id-missing", 2, TpEdit::Remove(0x0f)),
        rej("original-destination-connection-id-mismatch", 1, TpEdit::Replace(0x00, vec![0xab; 8])),
        rej("original-destination-connection-id-missing", 1, TpEdit::Remove(0x00)),
        rej("retry-source-connection-id-without-retry", 1, TpEdit::Replace(0x10, vec![0xab; 8])),
        acc("unknown-grease-parameter-len0", 2, TpEdit::Append(vec![0x1b, 0x00])),
        acc("unknown-grease-parameter-len8", 2, TpEdit::Append(vec![0x40, 0x3a, 0x08, 1, 2, 3, 4, 5, 6, 7, 8])),
        acc("unknown-large-id", 2, TpEdit::Append(vec![0xc0, 0, 0, 0, 0xff, 0, 0, 0x1b, 0x01, 0x09])),
        TpItem { name: "declares-stream-data-10", who: 2, edit: TpEdit::Replace(0x06, vec![10]), accept: true, limits_only: true, retry: false },
        TpItem { name: "declares-max-data-100", who: 2, edit: TpEdit::Replace(0x04, vint(100)), accept: true, limits_only: true, retry: false },
        TpItem { name: "declares-max-streams-bidi-0", who: 1, edit: TpEdit::Replace(0x08, vec![0]), accept: true, limits_only: true, retry: false },
        racc("after-retry-genuine-values", TpEdit::Append(vec![])),
        racc("after-retry-unknown-parameter", TpEdit::Append(vec![0x1b, 0x00])),
        rrej("after-retry-retry-source-connection-id-mismatch", TpEdit::Replace(0x10, vec![0xab; 16])),
        rrej("after-retry-retry-source-connection-id-missing", TpEdit::Remove(0x10)),
        rrej("after-retry-retry-source-connection-id-is-original-dcid", TpEdit::Copy { from: 0x00, to: 0x10 }),
        rrej("after-retry-original-destination-connection-id-is-retry-scid", TpEdit::Copy { from: 0x10, to: 0x00 }),
        rrej("after-retry-original-destination-connection-id-mismatch", TpEdit::Replace(0x00, vec![0xab; 8])),
        rrej("after-retry-original-destination-connection-id-missing", TpEdit::Remove(0x00)),
        rrej("after-retry-initial-source-connection-id-mismatch", TpEdit::Replace(0x0f, vec![0xab; 16])),
    ]
}

pub fn stray_port(kind: u8, size: usize) -> u16 {
    10_000 + (kind as u16) * 2000 + size as u16
}

/// kind 0: short header, unknown connection id; 1: long header, unknown version; 2: a Version
/// Negotiation packet; 3: Initial with a supported version in an undersized datagram
pub fn stray_payload(kind: u8, size: usize) -> Vec<u8> {
    let mut p = vec![0u8; size];
    crate::mccore::prf_fill(0x57a7 ^ kind as u64, size as u64, &mut p);
    match kind {
        0 => {
            p[0] = 0x40 | (p[0] & 0x3f);
        }
        1 | 2 | 3 => {
            p[0] = 0xc0 | (p[0] & 0x0f);
            let version: [u8; 4] = match kind {
                1 => [0x1a, 0x2a, 0x3a, 0x4a],
                2 => [0, 0, 0, 0],
                _ => [0, 0, 0, 1],
            };
            for (i, b) in version.iter().enumerate() {
                if 1 + i < size {
                    p[1 + i] = *b;
                }
            }
            // DCID len 8, SCID len 8
            if size > 5 {
                p[5] = 8;
            }
            if size > 14 {
                p[14] = 8;
            }
            if kind == 3 {
                // token length 0, length field = rest
                if size > 23 {
                    p[23] = 0;
                }
                if size > 25 {
                    let rest = (size - 26) as u16;
                    p[24] = 0x40 | (rest >> 8) as u8;
                    p[25] = rest as u8;
                }
            }
        }
        _ => {}
    }
    p
}

pub struct PropertySpec {
    pub families: Vec<&'static str>,
    pub monitors: Vec<&'static str>,
}

pub fn property(p: &str) -> Option<PropertySpec> {
    let general = vec!["data", "live", "flow", "lifecycle", "hs"];
    let spec = |monitors: Vec<&'static str>| Some(PropertySpec { families: general.clone(), monitors });
    match p {
        "C01" => spec(vec!["data"]),
        "C02" => spec(vec!["live"]),
        "C03" => spec(vec!["fc"]),
        "C04" => Some(PropertySpec { families: vec!["data", "live", "flow", "lifecycle", "hs", "adv"], monitors: vec!["credit", "adv"] }),
        "C08" => spec(vec!["ack"]),
        "C09" => spec(vec!["loss", "retry"]),
        "C10" => spec(vec!["sendgate"]),
        "C11" => Some(PropertySpec { families: vec!["data", "live", "flow", "lifecycle", "hs", "stray", "migrate"], monitors: vec!["amp", "stray", "retry"] }),
        "C13" => Some(PropertySpec { families: vec!["migrate"], monitors: vec!["cid", "data", "live"] }),
        "C14" => Some(PropertySpec { families: vec!["tpe2e"], monitors: vec!["tpe2e", "fc", "data", "live", "retry"] }),
        "C06" => Some(PropertySpec { families: vec!["forge"], monitors: vec!["auth", "ack", "data", "live"] }),
        "C12" => spec(vec!["txcons"]),
        "C15" => Some(PropertySpec { families: vec!["keyup"], monitors: vec!["keyup", "data", "live"] }),
        // development aids (not registered with the driver): one family under every handshake-relevant monitor
        "Xhs" | "Xlive" | "Xdata" | "Xtpe2e" => {
            let fam: &'static str = match p {
                "Xhs" => "hs",
                "Xlive" => "live",
                "Xdata" => "data",
                _ => "tpe2e",
            };
            Some(PropertySpec { families: vec![fam], monitors: vec!["data", "live", "fc", "ack", "amp", "txcons", "loss", "sendgate", "retry", "tpe2e"] })
        }
        _ => None,
    }
}

pub fn run_monitors(names: &[String], case: &Case, r: &Record, only_finite_faults: bool) -> V {
    let mut out = V::new();
    monitors::mon_panic(r, &mut out);
    for m in names {
        match m.as_str() {
            "data" => monitors::mon_data(&case.scn, r, &mut out),
            "live" => {
                let expect = match case.expect {
                    Expect::Complete if only_finite_faults => Expect::Complete,
                    Expect::Complete => Expect::Nothing,
                    e => e,
                };
                monitors::mon_live(&case.scn, r, expect, &mut out)
            }
            "fc" => monitors::mon_fc(&case.scn, r, &mut out),
            "credit" => {
                // with a rewriting attacker the frames it "sends" are not the library's own
                if case.adv.is_none() {
                    monitors::mon_credit(&case.scn, r, &mut out)
                }
            }
            "ack" => monitors::mon_ack(&case.scn, r, &mut out),
            "amp" => monitors::mon_amp(&case.scn, r, &mut out),
            "txcons" => monitors::mon_txcons(&case.scn, r, &mut out),
            "loss" => {
                monitors::mon_loss(&case.scn, r, &mut out);
                monitors::mon_inflight(&case.scn, r, true, false, &mut out);
            }
            "sendgate" => monitors::mon_sendgate(&case.scn, r, &mut out),
            "keyup" => monitors::mon_keyup(&case.scn, r, &mut out),
            "stray" => monitors::mon_stray(&case.scn, r, &mut out),
            "cid" => monitors::mon_cid(&case.scn, r, &mut out),
            "tpe2e" => monitors::mon_tpe2e(&case.scn, r, &mut out),
            "adv" => {
                if let Some(adv) = &case.adv {
                    monitors::mon_adv(&case.scn, r, adv, &mut out)
                }
            }
            "auth" => monitors::mon_auth(&case.scn, r, &mut out),
            "retry" => monitors::mon_retry(&case.scn, r, &mut out),
            other => panic!("unknown monitor {}", other),
        }
    }
    out
}

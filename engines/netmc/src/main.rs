// netmc: stateless deviation-bounded exploration of two complete s2n-quic endpoints on the
// repository's deterministic executor, with a harness-owned network.
//
//   netmc run <Cxx> --out <result.json>     master: explores every family serving the property
//   netmc worker                            one execution per stdin line (spawned by the master)
//   netmc replay <replay.json>              re-execute one recorded schedule
//   netmc probe ...                         development aid
#[path = "../../mccore/mccore.rs"]
pub mod mccore;
mod families;
mod monitors;
mod net;
mod record;
mod scenario;
mod wire;

use families::Case;
use mccore::*;
use net::{parse_schedule, schedule_string, Action, Schedule};
use scenario::*;
use std::collections::{BTreeMap, HashMap, HashSet, VecDeque};
use std::io::{BufRead, BufReader, Write};
use std::process::{Child, ChildStdin, ChildStdout, Command, Stdio};
use std::sync::{Arc, Condvar, Mutex};

// ------------------------------------------------------------------------------------------
// one job = one execution
// ------------------------------------------------------------------------------------------

#[derive(Clone, Debug)]
struct Job {
    family: String,
    case: usize,
    schedule: Schedule,
    /// Some((hash, clauses)) = this is a determinism re-run that must reproduce the hash - or, when the
    /// first run violated a monitor, at least every violated clause (with real TLS the key material
    /// differs between runs; a change to the code under test can make what an endpoint does with a
    /// forged datagram depend on it, so the hash may legitimately differ while the violation is
    /// reproduced; a violation that is NOT reproduced is a machinery error, never a verdict)
    verify: Option<(String, Vec<String>)>,
}

#[derive(Clone, Debug, Default)]
struct JobResult {
    n_dgrams: usize,
    hash: String,
    outcome: String,
    violations: Vec<(String, String)>,
    crashed: bool,
    end_t: u64,
    /// what the execution exercised (monitors::facts)
    facts: Vec<(String, u64)>,
}

fn trace_hash(case: &Case, r: &record::Record) -> u128 {
    // With real TLS the key material differs between runs and so do a few lengths (DER-encoded ECDSA
    // signatures are 70-72 bytes): the reproducibility check then compares what the applications
    // observed, not the packetisation.
    let tls = case.scn.tls == Tls::S2n;
    let mut s = String::new();
    if tls {
        let mut read_total: BTreeMap<(u8, u64), u64> = BTreeMap::new();
        for a in &r.app {
            match &a.ev {
                record::App::Read { stream, len, .. } => *read_total.entry((a.ep, *stream)).or_insert(0) += *len as u64,
                record::App::Write { .. } => {}
                other => s.push_str(&format!("a{},{:?};", a.ep, other)),
            }
        }
        s.push_str(&format!("{:?};{:?};{:?}", read_total, r.stalled, r.panicked.is_some()));
        return key128(&s);
    }
    for d in &r.dgrams {
        s.push_str(&format!("d{},{},{},{},{},{:?};", d.idx, d.t, d.from, d.payload.len(), d.action, d.delivered_at));
        if !tls {
            s.push_str(&hex(&d.payload[..d.payload.len().min(48)]));
        }
    }
    for p in r.tx.iter().chain(r.rx.iter()) {
        s.push_str(&format!("p{},{},{},{},{};", p.t, p.ep, p.space, p.pn, p.frames.iter().map(|f| f.name()).collect::<Vec<_>>().join("+")));
    }
    for a in &r.app {
        s.push_str(&format!("a{},{},{:?};", a.t, a.ep, a.ev));
    }
    s.push_str(&format!("e{};{:?};{:?}", r.events.len(), r.stalled, r.panicked.is_some()));
    key128(&s)
}

fn outcome_class(r: &record::Record) -> String {
    use record::App;
    let mut eof = 0;
    let mut errs = 0;
    let mut timeouts = 0;
    for a in &r.app {
        match &a.ev {
            App::Eof { .. } => eof += 1,
            App::ReadError { .. } | App::WriteError { .. } | App::ConnectError(_) | App::OpenError(_) => errs += 1,
            App::TaskTimeout { .. } => timeouts += 1,
            _ => {}
        }
    }
    format!("eof{}-err{}-to{}-dg{}-end{}", eof, errs, timeouts, r.dgrams.len(), r.end_t / 1000)
}

fn build_input(case: &Case, schedule: &Schedule) -> ExecInput {
    let mut input = ExecInput::plain(schedule.clone());
    input.injects = case.injects.clone();
    if let Some(adv) = &case.adv {
        let payload = (families::adv_catalogue()[adv.item].payload)(adv.attacker);
        let (space, nth) = (adv.space, adv.nth);
        let mut seen = 0u32;
        let rewrite: record::TxRewrite = Box::new(move |sp, _pn, _orig| {
            if sp != space {
                return None;
            }
            seen += 1;
            if seen - 1 == nth {
                Some(payload.clone())
            } else {
                None
            }
        });
        if adv.attacker == record::CLIENT {
            input.client_rewrite = Some(rewrite);
        } else {
            input.server_rewrite = Some(rewrite);
        }
    }
    input
}

fn run_job(cases: &BTreeMap<String, Vec<Case>>, job: &Job, monitors: &[String]) -> JobResult {
    let case = &cases[&job.family][job.case];
    let input = build_input(case, &job.schedule);
    let r = execute(&case.scn, input);
    let finite = !job.schedule.iter().any(|(_, a)| matches!(a, Action::BlackholeFrom(_)));
    let mut violations = families::run_monitors(monitors, case, &r, finite);
    if case.differential && job.schedule.iter().any(|(_, a)| matches!(a, Action::Forge(_))) {
        // differential oracle: the same schedule without the forged datagrams
        let mut base = ExecInput::plain(job.schedule.clone());
        base.forge = false;
        let r0 = execute(&case.scn, base);
        let forged = r.dgrams.iter().filter(|d| d.action == "forged").count();
        let (o0, o1) = (monitors::observation(&r0), monitors::observation(&r));
        if std::env::var("NETMC_DUMP_OBS").is_ok() {
            eprintln!("OBS0 {}", o0);
            eprintln!("OBS1 {}", o1);
        }
        if o0 != o1 {
            let pos = o0.bytes().zip(o1.bytes()).position(|(x, y)| x != y).unwrap_or(o0.len().min(o1.len()));
            let lo = pos.saturating_sub(60);
            violations.push(("forge.effect".into(), format!("{} forged datagrams changed what the endpoints did: without them ...{}..., with them ...{}...", forged, &o0[lo..(pos + 80).min(o0.len())], &o1[lo..(pos + 80).min(o1.len())])));
        }
        if forged == 0 && !job.schedule.iter().any(|(i, a)| matches!(a, Action::Forge(3)) && *i < 2) {
            violations.push(("machinery.forge_vacuous".into(), "no forged datagram was produced".into()));
        }
    }
    let facts: Vec<(String, u64)> = monitors::facts(&r).into_iter().map(|(k, v)| (k.to_string(), v)).collect();
    let fact = |name: &str| facts.iter().find(|f| f.0 == name).map_or(0, |f| f.1);
    if job.schedule.is_empty() && r.panicked.is_none() && r.stalled.is_none() {
        // vacuity guards on the fault-free run of scenarios built to reach a particular state
        if case.scn.expect_amp_block && (fact("amp_limit_reached") == 0 || fact("amp_released") == 0) {
            violations.push(("machinery.amp_vacuous".into(), format!("{}: the fault-free run does not show the server stopped at 3x the bytes received and released by a later client datagram ({:?})", case.scn.name, facts)));
        }
        if case.scn.retry != Retry::Off && fact("retry_taken_over") == 0 {
            violations.push(("machinery.retry_vacuous".into(), format!("{}: the fault-free run shows no Retry taken over by the client ({:?})", case.scn.name, facts)));
        }
    }
    JobResult { n_dgrams: r.dgrams.iter().filter(|d| d.idx != u32::MAX).count(), hash: format!("{:032x}", trace_hash(case, &r)), outcome: outcome_class(&r), violations, crashed: false, end_t: r.end_t, facts }
}

fn result_to_json(r: &JobResult) -> Json {
    Json::obj()
        .set("n", r.n_dgrams)
        .set("hash", r.hash.as_str())
        .set("outcome", r.outcome.as_str())
        .set("end_t", r.end_t)
        .set("facts", Json::Arr(r.facts.iter().filter(|f| f.1 != 0).map(|f| Json::obj().set("k", f.0.as_str()).set("v", f.1)).collect()))
        .set("violations", Json::Arr(r.violations.iter().map(|(c, d)| Json::obj().set("clause", c.as_str()).set("detail", d.as_str())).collect()))
}

fn result_from_json(j: &Json) -> JobResult {
    JobResult {
        n_dgrams: j.get("n").and_then(|x| x.as_i128()).unwrap_or(0) as usize,
        hash: j.get("hash").and_then(|x| x.as_str()).unwrap_or("").to_string(),
        outcome: j.get("outcome").and_then(|x| x.as_str()).unwrap_or("").to_string(),
        end_t: j.get("end_t").and_then(|x| x.as_i128()).unwrap_or(0) as u64,
        violations: j.get("violations").and_then(|x| x.as_arr()).map(|a| a.iter().map(|v| (v.get("clause").and_then(|x| x.as_str()).unwrap_or("").to_string(), v.get("detail").and_then(|x| x.as_str()).unwrap_or("").to_string())).collect()).unwrap_or_default(),
        crashed: false,
        facts: j.get("facts").and_then(|x| x.as_arr()).map(|a| a.iter().map(|f| (f.get("k").and_then(|x| x.as_str()).unwrap_or("").to_string(), f.get("v").and_then(|x| x.as_i128()).unwrap_or(0) as u64)).collect()).unwrap_or_default(),
    }
}

fn load_cases(fams: &[&str], tier: Tier) -> BTreeMap<String, Vec<Case>> {
    fams.iter().map(|f| (f.to_string(), families::family(f, tier))).collect()
}

// ------------------------------------------------------------------------------------------
// worker
// ------------------------------------------------------------------------------------------

fn worker_main() {
    quiet_panics();
    let tier = Tier::from_env();
    let stdin = std::io::stdin();
    let stdout = std::io::stdout();
    let mut cases: BTreeMap<String, Vec<Case>> = BTreeMap::new();
    for line in stdin.lock().lines() {
        let Ok(line) = line else { break };
        let parts: Vec<&str> = line.split('\t').collect();
        if parts.len() < 4 {
            continue;
        }
        let family = parts[0].to_string();
        let case: usize = parts[1].parse().unwrap();
        let schedule = parse_schedule(parts[2]).expect("schedule");
        let monitors: Vec<String> = parts[3].split(',').filter(|s| !s.is_empty()).map(|s| s.to_string()).collect();
        if !cases.contains_key(&family) {
            cases.insert(family.clone(), families::family(&family, tier));
        }
        let job = Job { family, case, schedule, verify: None };
        let res = run_job(&cases, &job, &monitors);
        let mut o = stdout.lock();
        let _ = writeln!(o, "{}", result_to_json(&res).to_string());
        let _ = o.flush();
    }
}

struct Worker {
    child: Child,
    stdin: ChildStdin,
    stdout: BufReader<ChildStdout>,
}

fn spawn_worker() -> Worker {
    let exe = std::env::current_exe().expect("current exe");
    let mut child = Command::new(exe).arg("worker").stdin(Stdio::piped()).stdout(Stdio::piped()).stderr(Stdio::null()).spawn().expect("spawn worker");
    let stdin = child.stdin.take().unwrap();
    let stdout = BufReader::new(child.stdout.take().unwrap());
    Worker { child, stdin, stdout }
}

impl Worker {
    fn run(&mut self, job: &Job, monitors: &str) -> Option<JobResult> {
        let line = format!("{}\t{}\t{}\t{}\n", job.family, job.case, schedule_string(&job.schedule), monitors);
        if self.stdin.write_all(line.as_bytes()).is_err() || self.stdin.flush().is_err() {
            return None;
        }
        let mut out = String::new();
        match self.stdout.read_line(&mut out) {
            Ok(n) if n > 0 => Json::parse(out.trim()).ok().map(|j| result_from_json(&j)),
            _ => None,
        }
    }
}

// ------------------------------------------------------------------------------------------
// master: iterative deviation bounding
// ------------------------------------------------------------------------------------------

struct Shared {
    queue: VecDeque<Job>,
    in_flight: usize,
    done: bool,
    // accounting
    executions: u64,
    transitions: u64,
    hashes: HashSet<String>,
    outcomes: HashSet<String>,
    per_family: BTreeMap<String, (u64, u64, usize)>, // executions, datagram decisions, max k completed
    violations: Vec<(Job, String, String)>,
    machinery: Vec<String>,
    samples: Vec<Json>,
    verify_counter: u64,
    facts: BTreeMap<String, u64>,
    per_scenario: BTreeMap<(String, usize), u64>,
    /// violating executions whose re-run reproduced every violated clause with a different trace hash
    divergent_reproduced: u64,
    deadline: std::time::Instant,
    capped: bool,
}

fn children(case: &Case, parent: &Job, n_dgrams: usize) -> Vec<Job> {
    let mut out = Vec::new();
    let depth = parent.schedule.len();
    let start = parent.schedule.last().map(|(i, _)| *i + 1).unwrap_or(0).max(case.first_index);
    // a blackhole-from ends the interesting part of the schedule
    if parent.schedule.iter().any(|(_, a)| matches!(a, Action::BlackholeFrom(_))) {
        return out;
    }
    // forgeries are always the last deviation of a schedule: the replies some of them provoke (a
    // Version Negotiation for a flipped version field, a stateless reset for a flipped connection id)
    // are datagrams of their own and shift the index of everything sent after them, so a later
    // deviation would hit different datagrams in the run with and in the baseline without the forgeries
    if parent.schedule.iter().any(|(_, a)| matches!(a, Action::Forge(_))) {
        return out;
    }
    for i in start..(n_dgrams as u32).min(case.last_index.saturating_add(1)) {
        if depth < case.k {
            for a in &case.menu {
                let mut s = parent.schedule.clone();
                s.push((i, a.clone()));
                out.push(Job { family: parent.family.clone(), case: parent.case, schedule: s, verify: None });
            }
        }
        if depth == 0 {
            for a in &case.extra {
                let mut s = parent.schedule.clone();
                s.push((i, a.clone()));
                out.push(Job { family: parent.family.clone(), case: parent.case, schedule: s, verify: None });
            }
        }
    }
    out
}

fn case_list_idx(cs: &[Case], c: &Case) -> usize {
    cs.iter().position(|x| std::ptr::eq(x, c)).unwrap_or(usize::MAX)
}

fn master(property: &str, out_path: &str) {
    let tier = Tier::from_env();
    let spec = families::property(property).unwrap_or_else(|| {
        eprintln!("netmc: no families registered for {}", property);
        std::process::exit(2);
    });
    let cases = Arc::new(load_cases(&spec.families, tier));
    let monitors = spec.monitors.join(",");
    let wall = tier.pick(240.0, 1500.0);
    let t0 = std::time::Instant::now();
    let mut queue = VecDeque::new();
    for (fam, cs) in cases.iter() {
        for (i, _) in cs.iter().enumerate() {
            queue.push_back(Job { family: fam.clone(), case: i, schedule: vec![], verify: None });
        }
    }
    let shared = Arc::new((
        Mutex::new(Shared {
            queue,
            in_flight: 0,
            done: false,
            executions: 0,
            transitions: 0,
            hashes: HashSet::new(),
            outcomes: HashSet::new(),
            per_family: BTreeMap::new(),
            violations: Vec::new(),
            machinery: Vec::new(),
            samples: Vec::new(),
            verify_counter: 0,
            facts: BTreeMap::new(),
            per_scenario: BTreeMap::new(),
            divergent_reproduced: 0,
            deadline: t0 + std::time::Duration::from_secs_f64(wall),
            capped: false,
        }),
        Condvar::new(),
    ));
    let nthreads = default_threads();
    std::thread::scope(|scope| {
        for _ in 0..nthreads {
            let shared = shared.clone();
            let cases = cases.clone();
            let monitors = monitors.clone();
            scope.spawn(move || {
                let mut worker = spawn_worker();
                loop {
                    let job = {
                        let (m, cv) = &*shared;
                        let mut g = m.lock().unwrap();
                        loop {
                            if g.done {
                                break None;
                            }
                            if std::time::Instant::now() > g.deadline && !g.queue.is_empty() {
                                g.capped = true;
                                g.queue.clear();
                            }
                            if let Some(j) = g.queue.pop_front() {
                                g.in_flight += 1;
                                break Some(j);
                            }
                            if g.in_flight == 0 {
                                g.done = true;
                                cv.notify_all();
                                break None;
                            }
                            g = cv.wait(g).unwrap();
                        }
                    };
                    let Some(job) = job else { break };
                    let res = match worker.run(&job, &monitors) {
                        Some(r) => r,
                        None => {
                            // the worker process died: record and respawn
                            let _ = worker.child.kill();
                            let _ = worker.child.wait();
                            worker = spawn_worker();
                            JobResult { crashed: true, ..Default::default() }
                        }
                    };
                    let (m, cv) = &*shared;
                    let mut g = m.lock().unwrap();
                    g.in_flight -= 1;
                    let case = &cases[&job.family][job.case];
                    if res.crashed {
                        g.violations.push((job.clone(), "exec.abort".into(), "the execution aborted the worker process (double panic / abort inside the endpoint)".into()));
                    } else if let Some((expected, clauses)) = &job.verify {
                        if *expected != res.hash {
                            let reproduced = !clauses.is_empty() && clauses.iter().all(|c| res.violations.iter().any(|(rc, _)| rc == c));
                            if reproduced {
                                g.divergent_reproduced += 1;
                            } else {
                                g.machinery.push(format!("nondeterminism: {} case {} schedule [{}] gave trace {} then {} (violated clauses of the first run: {:?}, of the re-run: {:?})", job.family, job.case, schedule_string(&job.schedule), expected, res.hash, clauses, res.violations.iter().map(|v| v.0.clone()).collect::<Vec<_>>()));
                            }
                        }
                    } else {
                        g.executions += 1;
                        g.transitions += res.n_dgrams as u64;
                        g.hashes.insert(res.hash.clone());
                        for (k, v) in &res.facts {
                            *g.facts.entry(k.clone()).or_insert(0) += *v;
                        }
                        *g.per_scenario.entry((job.family.clone(), job.case)).or_insert(0) += 1;
                        g.outcomes.insert(res.outcome.clone());
                        let pf = g.per_family.entry(job.family.clone()).or_insert((0, 0, 0));
                        pf.0 += 1;
                        pf.1 += res.n_dgrams as u64;
                        pf.2 = pf.2.max(job.schedule.len());
                        g.verify_counter += 1;
                        let verify = g.verify_counter % 97 == 1 || !res.violations.is_empty();
                        if verify {
                            let mut vj = job.clone();
                            let mut cl: Vec<String> = res.violations.iter().map(|v| v.0.clone()).collect();
                            cl.sort();
                            cl.dedup();
                            vj.verify = Some((res.hash.clone(), cl));
                            g.queue.push_back(vj);
                        }
                        if g.samples.len() < 12 && (job.schedule.len() == case.k || g.samples.len() < 3) {
                            g.samples.push(Json::obj().set("family", job.family.as_str()).set("scenario", case.scn.name.as_str()).set("schedule", schedule_string(&job.schedule)).set("datagrams", res.n_dgrams).set("outcome", res.outcome.as_str()));
                        }
                        for (c, d) in &res.violations {
                            g.violations.push((job.clone(), c.clone(), d.clone()));
                        }
                        // expand (a violating execution is still expanded: later deviations are independent cases)
                        if !g.capped {
                            for ch in children(case, &job, res.n_dgrams) {
                                g.queue.push_back(ch);
                            }
                        }
                    }
                    cv.notify_all();
                }
                let _ = worker.child.kill();
                let _ = worker.child.wait();
            });
        }
    });
    let g = shared.0.lock().unwrap();
    let mut rep = Report::new("netmc", &format!("{}[{}]", property, spec.families.join("+")));
    rep.states = g.executions;
    rep.transitions = g.transitions;
    rep.executions = g.executions;
    // with real TLS the reproducibility hash is deliberately coarse; the outcome class (what the
    // applications saw + datagram count + end time) then tells executions apart
    rep.distinct_outcomes = g.hashes.len().max(g.outcomes.len()) as u64;
    rep.max_depth = g.per_family.values().map(|x| x.2 as u64).max().unwrap_or(0);
    rep.exhaustive = !g.capped;
    if g.capped {
        rep.cap_hit = Some(format!("wall cap {:.0}s hit; the queue was cut", wall));
    }
    rep.completed_bound = Some(format!("per scenario deviation bound k as listed in x_cases; families {:?}", g.per_family));
    rep.samples = g.samples.clone();
    let mut case_list = Vec::new();
    for (fam, cs) in cases.iter() {
        for c in cs {
            let n = g.per_scenario.get(&(fam.clone(), case_list_idx(cs, c))).copied().unwrap_or(0);
            case_list.push(Json::obj().set("family", fam.as_str()).set("scenario", c.scn.name.as_str()).set("executions", n).set("k", c.k).set("menu", c.menu.iter().map(|a| a.code()).collect::<Vec<_>>()).set("extra", c.extra.iter().map(|a| a.code()).collect::<Vec<_>>()));
        }
    }
    rep.extra.push(("x_cases".into(), Json::Arr(case_list)));
    rep.extra.push(("x_distinct_outcome_classes".into(), Json::Int(g.outcomes.len() as i128)));
    rep.extra.push(("x_monitors".into(), Json::Str(monitors.clone())));
    // number of executions in which each fact held (monitors::facts)
    let mut fj = Json::obj();
    for (k, v) in g.facts.iter() {
        fj = fj.set(k.as_str(), *v);
    }
    rep.extra.push(("x_facts".into(), fj));
    rep.extra.push(("x_violations_reproduced_with_divergent_trace".into(), Json::Int(g.divergent_reproduced as i128)));
    // shortest schedule first, one violation per (scenario, clause)
    let mut vs = g.violations.clone();
    vs.sort_by_key(|(j, c, _)| (j.schedule.len(), j.family.clone(), j.case, c.clone(), schedule_string(&j.schedule)));
    let mut seen = HashSet::new();
    // at most 8 reports per clause, so that a clause with many instances (e.g. a known finding)
    // cannot crowd another clause out of the report
    let mut per_clause: HashMap<String, usize> = HashMap::new();
    for (job, clause, detail) in vs {
        let case = &cases[&job.family][job.case];
        if !seen.insert((job.family.clone(), job.case, clause.clone())) {
            continue;
        }
        let n = per_clause.entry(clause.clone()).or_insert(0);
        if *n >= 8 {
            continue;
        }
        *n += 1;
        let sched = schedule_string(&job.schedule);
        let mut v = Violation::new(&clause, detail.clone());
        v.fingerprint = format!("netmc|{}|{}|{}|[{}]", job.family, case.scn.name, clause, sched);
        v.replay = Json::obj()
            .set("engine", "netmc")
            .set("family", job.family.as_str())
            .set("case", job.case)
            .set("scenario", case.scn.describe())
            .set("schedule", sched)
            .set("monitors", monitors.as_str())
            .set("tier", if tier == Tier::Quick { "quick" } else { "thorough" })
            .set("clause", clause.as_str())
            .set("detail", detail.as_str());
        rep.violations.push(v);
        if rep.violations.len() >= 64 {
            break;
        }
    }
    for m in g.machinery.iter().take(3) {
        rep.violations.push(Violation::new("machinery.nondeterminism", m.clone()));
    }
    rep.wall_s = t0.elapsed().as_secs_f64();
    let mut out = Output::new();
    out.push(rep);
    out.write(out_path);
}

fn replay_main(path: &str) {
    quiet_panics();
    let text = std::fs::read_to_string(path).expect("read replay file");
    let j = Json::parse(&text).expect("parse replay file");
    let family = j.get("family").and_then(|x| x.as_str()).expect("family").to_string();
    let case = j.get("case").and_then(|x| x.as_i128()).expect("case") as usize;
    let sched = j.get("schedule").and_then(|x| x.as_str()).unwrap_or("");
    let monitors: Vec<String> = j.get("monitors").and_then(|x| x.as_str()).unwrap_or("").split(',').filter(|s| !s.is_empty()).map(|s| s.to_string()).collect();
    let tier = if j.get("tier").and_then(|x| x.as_str()) == Some("thorough") { Tier::Thorough } else { Tier::Quick };
    let mut cases = BTreeMap::new();
    cases.insert(family.clone(), families::family(&family, tier));
    let job = Job { family, case, schedule: parse_schedule(sched).expect("schedule"), verify: None };
    let res = run_job(&cases, &job, &monitors);
    println!("replay: scenario {} schedule [{}] datagrams {} outcome {}", cases[&job.family][job.case].scn.name, sched, res.n_dgrams, res.outcome);
    if res.violations.is_empty() {
        println!("replay: no violation");
    } else {
        for (c, d) in &res.violations {
            println!("replay: VIOLATED {}: {}", c, d);
        }
        std::process::exit(1);
    }
}

fn main() {
    let args: Vec<String> = std::env::args().skip(1).collect();
    match args.first().map(|s| s.as_str()) {
        Some("worker") => worker_main(),
        Some("run") => {
            let prop = args.get(1).expect("property id");
            let out = args.iter().position(|a| a == "--out").and_then(|i| args.get(i + 1)).expect("--out");
            master(prop, out);
        }
        Some("replay") => replay_main(&args[1]),
        Some("probe") => {
            // netmc probe <family> <case> [schedule] [monitors]
            let fam = args.get(1).map(|s| s.as_str()).unwrap_or("data");
            let idx: usize = args.get(2).and_then(|s| s.parse().ok()).unwrap_or(0);
            let sched = args.get(3).and_then(|s| parse_schedule(s)).unwrap_or_default();
            let mons: Vec<String> = args.get(4).map(|s| s.split(',').map(|x| x.to_string()).collect()).unwrap_or_default();
            let cases = families::family(fam, Tier::from_env());
            for (i, c) in cases.iter().enumerate() {
                eprintln!("  case {}: {} k={} menu={:?}", i, c.scn.name, c.k, c.menu.iter().map(|a| a.code()).collect::<Vec<_>>());
            }
            let case = &cases[idx];
            let t0 = std::time::Instant::now();
            let r = execute(&case.scn, build_input(case, &sched));
            println!("{}: wall {:?} dgrams={} tx={} rx={} events={} app={} end_t={}us stalled={:?} panicked={:?}", case.scn.name, t0.elapsed(), r.dgrams.len(), r.tx.len(), r.rx.len(), r.events.len(), r.app.len(), r.end_t, r.stalled, r.panicked);
            if std::env::var("NETMC_VERBOSE").is_ok() {
                for d in &r.dgrams {
                    println!("  #{} t={} from={} len={} kind={:?} act={} delivered={:?}", d.idx, d.t, d.from, d.payload.len(), wire::datagram_packet_kinds(&d.payload), d.action, d.delivered_at);
                }
                for a in &r.app {
                    println!("  app t={} ep={} {:?}", a.t, a.ep, a.ev);
                }
                for p in r.tx.iter() {
                    println!("  tx t={} ep={} sp={} pn={} {:?} err={:?}", p.t, p.ep, p.space, p.pn, p.frames.iter().map(|f| match f { wire::F::Stream { id, off, data, fin } => format!("STREAM({},{}..{},{})", id, off, off + data.len() as u64, fin), other => format!("{:?}", other) }).collect::<Vec<_>>(), p.parse_error);
                }
                for e in r.events.iter() {
                    println!("  ev t={} ep={} {:?}", e.t, e.ep, e.ev);
                }
            }
            println!("  facts {:?}", monitors::facts(&r).into_iter().filter(|f| f.1 != 0).collect::<Vec<_>>());
            let finite = !sched.iter().any(|(_, a)| matches!(a, Action::BlackholeFrom(_)));
            for (c, d) in families::run_monitors(&mons, case, &r, finite) {
                println!("  VIOLATION {}: {}", c, d);
            }
        }
        _ => {
            eprintln!("usage: netmc run <Cxx> --out f | worker | replay f | probe fam case [sched] [monitors]");
            std::process::exit(2);
        }
    }
}

// Monitors: pure functions over the record of one execution.  Each returns violations as
// (clause, detail).  A clause name starts with the monitor name.
#![allow(dead_code)]
use crate::record::*;
use crate::scenario::{Cc, Scenario};
use crate::wire::{self, Kind, F};
use std::collections::{BTreeMap, BTreeSet, HashMap};

pub type V = Vec<(String, String)>;

fn v(out: &mut V, clause: &str, detail: String) {
    if out.len() < 16 {
        out.push((clause.to_string(), detail));
    }
}

pub fn other(ep: u8) -> u8 {
    1 - ep
}

fn epn(ep: u8) -> &'static str {
    if ep == CLIENT {
        "client"
    } else {
        "server"
    }
}

// ------------------------------------------------------------------------------------------
// transport parameters as *received* by an endpoint (i.e. declared by its peer)
// ------------------------------------------------------------------------------------------

#[derive(Clone, Debug, Default)]
pub struct Tp {
    pub initial_max_data: u64,
    pub bidi_local: u64,
    pub bidi_remote: u64,
    pub uni: u64,
    pub streams_bidi: u64,
    pub streams_uni: u64,
    pub max_ack_delay_ms: u64,
    pub max_idle_timeout_ms: u64,
    pub active_connection_id_limit: u64,
    pub max_udp_payload_size: u64,
}

fn field(text: &str, name: &str) -> Option<u64> {
    let pat = format!("{}: ", name);
    let i = text.find(&pat)? + pat.len();
    let rest = &text[i..];
    let end = rest.find(|c: char| !c.is_ascii_digit()).unwrap_or(rest.len());
    rest[..end].parse().ok()
}

/// transport parameters received by `ep` (declared by its peer).  The event does not carry
/// initial_max_data: that one value comes from the peer's configuration in the scenario (the
/// library default when the scenario leaves it unset).
pub fn received_tp(scn: &Scenario, r: &Record, ep: u8) -> Option<Tp> {
    let peer_cfg = if ep == CLIENT { &scn.server } else { &scn.client };
    // an edited block (tpe2e) overrides the configured connection window
    let edited_max_data = match &scn.tp_edit {
        Some((who, crate::scenario::TpEdit::Replace(0x04, v))) if *who != ep => { let mut p = 0; crate_tp_varint(v, &mut p) }
        _ => None,
    };
    for e in &r.events {
        if e.ep == ep {
            if let Ev::TransportParametersReceived { text } = &e.ev {
                return Some(Tp {
                    initial_max_data: edited_max_data.unwrap_or(peer_cfg.conn_window.unwrap_or(3_750_000)),
                    bidi_local: field(text, "initial_max_stream_data_bidi_local")?,
                    bidi_remote: field(text, "initial_max_stream_data_bidi_remote")?,
                    uni: field(text, "initial_max_stream_data_uni")?,
                    streams_bidi: field(text, "initial_max_streams_bidi")?,
                    streams_uni: field(text, "initial_max_streams_uni")?,
                    max_ack_delay_ms: field(text, "max_ack_delay").unwrap_or(25),
                    max_idle_timeout_ms: field(text, "max_idle_timeout").unwrap_or(0),
                    active_connection_id_limit: field(text, "active_connection_id_limit").unwrap_or(2),
                    max_udp_payload_size: field(text, "max_udp_payload_size").unwrap_or(65527),
                });
            }
        }
    }
    None
}

// ------------------------------------------------------------------------------------------
// generic: panics
// ------------------------------------------------------------------------------------------

pub fn mon_panic(r: &Record, out: &mut V) {
    if let Some(p) = &r.panicked {
        let first = p.lines().next().unwrap_or("").to_string();
        v(out, "exec.panic", format!("execution panicked: {}", first));
    }
}

// ------------------------------------------------------------------------------------------
// DATA (C01)
// ------------------------------------------------------------------------------------------

pub fn mon_data(_scn: &Scenario, r: &Record, out: &mut V) {
    // written totals per (ep, stream)
    let mut finished: HashMap<(u8, u64), u64> = HashMap::new();
    let mut written: HashMap<(u8, u64), u64> = HashMap::new();
    let mut reset: BTreeSet<(u8, u64)> = BTreeSet::new();
    for a in &r.app {
        match &a.ev {
            App::Finish { stream, total } => {
                finished.insert((a.ep, *stream), *total);
            }
            App::Write { stream, off, len } => {
                let e = written.entry((a.ep, *stream)).or_insert(0);
                *e = (*e).max(off + *len as u64);
            }
            App::Reset { stream, .. } => {
                reset.insert((a.ep, *stream));
            }
            _ => {}
        }
    }
    // a receiver that told its peer to stop sending has given up on the rest of the stream: what
    // its own API returns afterwards says nothing about the sender
    let gave_up: BTreeSet<(u8, u64)> = r.app.iter().filter_map(|a| if let App::StopSending { stream } = &a.ev { Some((a.ep, *stream)) } else { None }).collect();
    let mut errored: BTreeSet<(u8, u64)> = BTreeSet::new();
    for a in &r.app {
        match &a.ev {
            App::Read { stream, off, len, ok, first_bad } => {
                if errored.contains(&(a.ep, *stream)) {
                    v(out, "data.read_after_error", format!("{} read {} bytes on stream {} after an error", epn(a.ep), len, stream));
                }
                if !*ok {
                    v(out, "data.content", format!("{} read on stream {} at offset {} (+{}): byte at stream offset {:?} differs from what the peer wrote", epn(a.ep), stream, off, len, first_bad));
                }
                // never more than the peer has written so far
                let w = written.get(&(other(a.ep), *stream)).copied().unwrap_or(0);
                // (echo: the echoing side writes what it read, so this also bounds the echo)
                if off + *len as u64 > w && !reset.contains(&(other(a.ep), *stream)) {
                    // the write log entry is appended after send() returns; data can legitimately be
                    // read by the peer before the sender's await returns => only flag when the
                    // sender never wrote that far at all by the end of the run
                    let final_w = r.app.iter().filter_map(|x| match &x.ev {
                        App::Write { stream: s, off, len } if x.ep == other(a.ep) && s == stream => Some(off + *len as u64),
                        App::WriteError { stream: s, off, .. } if x.ep == other(a.ep) && s == stream => Some(*off + (1 << 40)),
                        _ => None,
                    }).max().unwrap_or(0);
                    if off + *len as u64 > final_w {
                        v(out, "data.more_than_written", format!("{} read up to offset {} on stream {} but the peer only ever wrote {}", epn(a.ep), off + *len as u64, stream, final_w));
                    }
                }
            }
            App::Eof { stream, .. } if gave_up.contains(&(a.ep, *stream)) => {}
            App::Eof { stream, total } => {
                match finished.get(&(other(a.ep), *stream)) {
                    Some(f) if f == total => {}
                    Some(f) => v(out, "data.eof_length", format!("{} saw a clean end of stream {} after {} bytes, the peer finished after writing {}", epn(a.ep), stream, total, f)),
                    None => v(out, "data.eof_without_finish", format!("{} saw a clean end of stream {} after {} bytes but the peer never finished it", epn(a.ep), stream, total)),
                }
            }
            App::ReadError { stream, .. } => {
                errored.insert((a.ep, *stream));
            }
            _ => {}
        }
    }
}

// ------------------------------------------------------------------------------------------
// LIVE (C02)
// ------------------------------------------------------------------------------------------

#[derive(Clone, Copy, Debug, PartialEq)]
pub enum Expect {
    /// the network recovers: everything must complete successfully
    Complete,
    /// the network never recovers: failure must be reported in time
    Report,
    /// nothing expected beyond "no stall"
    Nothing,
}

pub fn mon_live(scn: &Scenario, r: &Record, expect: Expect, out: &mut V) {
    if let Some(s) = &r.stalled {
        v(out, "live.stalled", format!("executor stalled: a task is parked with no armed timer and no pending wake-up ({})", s));
        return;
    }
    let timeouts: Vec<&str> = r.app.iter().filter_map(|a| if let App::TaskTimeout { name } = &a.ev { Some(name.as_str()) } else { None }).collect();
    match expect {
        Expect::Nothing => {}
        Expect::Complete => {
            if !timeouts.is_empty() {
                v(out, "live.not_completed", format!("after the faults stopped, tasks {:?} were still parked at the {} ms horizon", timeouts, scn.horizon_ms));
            }
            for a in &r.app {
                match &a.ev {
                    App::ConnectError(e) => v(out, "live.failed", format!("connect failed although the network recovered: {}", e)),
                    App::WriteError { stream, err, .. } => v(out, "live.failed", format!("{} write on stream {} failed although the network recovered: {}", epn(a.ep), stream, err)),
                    App::ReadError { stream, err, .. } => v(out, "live.failed", format!("{} read on stream {} failed although the network recovered: {}", epn(a.ep), stream, err)),
                    App::OpenError(e) => v(out, "live.failed", format!("open stream failed although the network recovered: {}", e)),
                    App::FinishError { stream, err } => v(out, "live.failed", format!("finish on stream {} failed: {}", stream, err)),
                    _ => {}
                }
            }
            // every opened bidirectional stream reached EOF at the client; every stream the client
            // finished reached EOF at the server
            for a in &r.app {
                if let App::Finish { stream, total } = &a.ev {
                    let peer = other(a.ep);
                    let seen = r.app.iter().any(|x| x.ep == peer && matches!(&x.ev, App::Eof { stream: s, total: t } if s == stream && t == total));
                    if !seen {
                        v(out, "live.finish_not_delivered", format!("{} finished stream {} after {} bytes but the peer's application never observed the end of stream", epn(a.ep), stream, total));
                    }
                }
            }
        }
        Expect::Report => {
            if !timeouts.is_empty() {
                v(out, "live.not_reported", format!("the network never recovered, yet tasks {:?} were still parked at the {} ms horizon instead of seeing an error", timeouts, scn.horizon_ms));
            }
            // each endpoint that has a connection reports it closed within the bound
            for ep in [CLIENT, SERVER] {
                let started = r.events.iter().any(|e| e.ep == ep && matches!(e.ev, Ev::ConnectionStarted));
                if !started {
                    continue;
                }
                let closed = r.events.iter().find(|e| e.ep == ep && matches!(e.ev, Ev::Closed { .. }));
                let last_rx = r.rx.iter().filter(|p| p.ep == ep).map(|p| p.t).max();
                // upper bound of the effective idle period
                let idle_ms = effective_idle_ms(scn);
                let handshake_ms = if ep == CLIENT { scn.client.handshake_ms } else { scn.server.handshake_ms }.unwrap_or(10_000);
                let pto3 = 3 * max_pto_us(r, ep);
                let restart = match last_rx {
                    Some(t) => {
                        // the first ack-eliciting packet sent after the last receipt restarts the timer
                        let first_tx = r.tx.iter().filter(|p| p.ep == ep && p.t >= t && p.frames.iter().any(|f| f.ack_eliciting())).map(|p| p.t).min();
                        first_tx.unwrap_or(t).max(t)
                    }
                    None => 0,
                };
                let bound = restart + (idle_ms * 1000).max(pto3).max(if last_rx.is_none() || !handshake_done(r, ep) { handshake_ms * 1000 } else { 0 }) + 2_000;
                match closed {
                    Some(c) => {
                        if c.t > bound {
                            v(out, "live.reported_late", format!("{} reported the dead connection at {} us, bound was {} us (last rx {:?}, idle {} ms, 3*PTO {} us)", epn(ep), c.t, bound, last_rx, idle_ms, pto3));
                        }
                    }
                    None => {
                        if r.end_t > bound {
                            v(out, "live.never_reported", format!("{} never reported the dead connection (run ended at {} us, bound {} us)", epn(ep), r.end_t, bound));
                        }
                    }
                }
            }
        }
    }
}

pub fn handshake_done(r: &Record, ep: u8) -> bool {
    r.events.iter().any(|e| e.ep == ep && matches!(&e.ev, Ev::HandshakeStatus { status } if status == "Complete" || status == "Confirmed"))
}

pub fn effective_idle_ms(scn: &Scenario) -> u64 {
    let c = scn.client.idle_ms.unwrap_or(30_000);
    let s = scn.server.idle_ms.unwrap_or(30_000);
    c.min(s)
}

/// largest PTO period (with backoff) the endpoint's own metrics imply, in microseconds
pub fn max_pto_us(r: &Record, ep: u8) -> u64 {
    let mut m = 0u64;
    for e in &r.events {
        if e.ep == ep {
            if let Ev::Recovery { srtt, rttvar, max_ack_delay, pto_count, .. } = &e.ev {
                let base = srtt + (4 * rttvar).max(1000) + max_ack_delay;
                let p = base.saturating_mul(1u64 << (*pto_count).min(16));
                m = m.max(p);
            }
        }
    }
    if m == 0 {
        // no sample: initial RTT 333 ms => PTO = 333 + 4*166.5 + 25
        m = 1_024_000;
    }
    m
}

// ------------------------------------------------------------------------------------------
// FC (C03): sender never exceeds the limits it received
// ------------------------------------------------------------------------------------------

fn stream_initiator(id: u64) -> u8 {
    (id & 1) as u8 // 0 = client, 1 = server
}
fn stream_is_uni(id: u64) -> bool {
    id & 2 != 0
}

enum Item<'a> {
    Rx(&'a Pkt),
    Tx(&'a Pkt),
}

fn timeline<'a>(r: &'a Record, ep: u8) -> Vec<(u64, u8, usize, Item<'a>)> {
    // rx before tx at equal times: a limit processed at time t may be used at time t
    let mut items: Vec<(u64, u8, usize, Item)> = Vec::new();
    for (i, p) in r.rx.iter().enumerate() {
        if p.ep == ep {
            items.push((p.t, 0, i, Item::Rx(p)));
        }
    }
    for (i, p) in r.tx.iter().enumerate() {
        if p.ep == ep {
            items.push((p.t, 1, i, Item::Tx(p)));
        }
    }
    items.sort_by_key(|x| (x.0, x.1, x.2));
    items
}

pub fn mon_fc(scn: &Scenario, r: &Record, out: &mut V) {
    for ep in [CLIENT, SERVER] {
        let Some(tp) = received_tp(scn, r, ep) else {
            if r.tx.iter().any(|p| p.ep == ep && p.space == 2) {
                v(out, "machinery.tp_missing", format!("{} sent 1-RTT packets but no (parsable) transport_parameters_received event was recorded", epn(ep)));
            }
            continue;
        };
        let mut limit_conn = tp.initial_max_data;
        let mut limit_stream: HashMap<u64, u64> = HashMap::new();
        let mut limit_streams_bidi = tp.streams_bidi;
        let mut limit_streams_uni = tp.streams_uni;
        let mut sent_end: HashMap<u64, u64> = HashMap::new();
        let initial_for = |id: u64| -> u64 {
            if stream_is_uni(id) {
                tp.uni
            } else if stream_initiator(id) == ep {
                // we opened it: the peer's limit for streams opened by its peer
                tp.bidi_remote
            } else {
                tp.bidi_local
            }
        };
        for (_, _, _, item) in timeline(r, ep) {
            match item {
                Item::Rx(p) => {
                    for f in &p.frames {
                        match f {
                            F::MaxData(x) => limit_conn = limit_conn.max(*x),
                            F::MaxStreamData { id, v: x } => {
                                let e = limit_stream.entry(*id).or_insert_with(|| initial_for(*id));
                                *e = (*e).max(*x);
                            }
                            F::MaxStreams { bidi: true, v: x } => limit_streams_bidi = limit_streams_bidi.max(*x),
                            F::MaxStreams { bidi: false, v: x } => limit_streams_uni = limit_streams_uni.max(*x),
                            _ => {}
                        }
                    }
                }
                Item::Tx(p) => {
                    if p.space != 2 {
                        continue;
                    }
                    for f in &p.frames {
                        let (id, end, what) = match f {
                            F::Stream { id, off, data, .. } => (*id, off + data.len() as u64, "STREAM"),
                            F::ResetStream { id, final_size, .. } => (*id, *final_size, "RESET_STREAM"),
                            F::StreamDataBlocked { id, .. } => (*id, 0, "STREAM_DATA_BLOCKED"),
                            F::MaxStreamData { id, .. } => (*id, 0, "MAX_STREAM_DATA"),
                            F::StopSending { id, .. } => (*id, 0, "STOP_SENDING"),
                            _ => continue,
                        };
                        // stream-count limit for streams this endpoint initiates
                        if stream_initiator(id) == ep {
                            let idx = id >> 2;
                            let lim = if stream_is_uni(id) { limit_streams_uni } else { limit_streams_bidi };
                            if idx >= lim {
                                v(out, "fc.stream_limit", format!("{} sent {} for its own stream {} (index {}) while the largest MAX_STREAMS received allows {} streams of that type", epn(ep), what, id, idx, lim));
                            }
                        }
                        if what == "STREAM" || what == "RESET_STREAM" {
                            let lim = *limit_stream.entry(id).or_insert_with(|| initial_for(id));
                            if end > lim {
                                let clause = if what == "STREAM" { "fc.stream_data_limit" } else { "fc.reset_final_size_exceeds_stream_limit" };
                                v(out, clause, format!("{} sent {} on stream {} ending at {} while the largest per-stream limit received is {}", epn(ep), what, id, end, lim));
                            }
                            let e = sent_end.entry(id).or_insert(0);
                            *e = (*e).max(end);
                            let total: u64 = sent_end.values().sum();
                            if total > limit_conn {
                                let clause = if what == "STREAM" { "fc.connection_data_limit" } else { "fc.reset_final_size_exceeds_connection_limit" };
                                v(out, clause, format!("{} sent {} on stream {}: sum of stream lengths {} exceeds the largest MAX_DATA received {}", epn(ep), what, id, total, limit_conn));
                            }
                        }
                    }
                }
            }
        }
    }
}

// ------------------------------------------------------------------------------------------
// CREDIT (C04): advertised credit <= consumed + configured window
// ------------------------------------------------------------------------------------------

pub fn mon_credit(scn: &Scenario, r: &Record, out: &mut V) {
    for ep in [CLIENT, SERVER] {
        // what `ep` declared = what the peer received
        let Some(own) = received_tp(scn, r, other(ep)) else {
            if r.tx.iter().any(|p| p.ep == ep && p.space == 2 && p.frames.iter().any(|f| matches!(f, F::MaxData(_) | F::MaxStreamData { .. }))) {
                v(out, "machinery.tp_missing", format!("{} advertised credit but its own transport parameters were never seen by the peer", epn(ep)));
            }
            continue;
        };
        let window_for = |id: u64| -> u64 {
            if stream_is_uni(id) {
                own.uni
            } else if stream_initiator(id) == ep {
                own.bidi_local
            } else {
                own.bidi_remote
            }
        };
        // reads by ep's application, in time order
        let reads: Vec<(u64, u64, u64)> = r.app.iter().filter(|a| a.ep == ep).filter_map(|a| if let App::Read { stream, off, len, .. } = &a.ev { Some((a.t, *stream, off + *len as u64)) } else { None }).collect();
        // streams whose remaining data the endpoint discards (it asked the peer to stop, or the peer
        // reset): the whole received length counts as consumed
        let mut discarded: HashMap<u64, u64> = HashMap::new();
        let mut rx_end: HashMap<u64, u64> = HashMap::new();
        for (t, _, _, item) in timeline(r, ep) {
            match item {
                Item::Rx(p) => {
                    for f in &p.frames {
                        match f {
                            F::Stream { id, off, data, .. } => {
                                let e = rx_end.entry(*id).or_insert(0);
                                *e = (*e).max(off + data.len() as u64);
                            }
                            F::ResetStream { id, final_size, .. } => {
                                discarded.insert(*id, *final_size);
                            }
                            _ => {}
                        }
                    }
                }
                Item::Tx(p) => {
                    for f in &p.frames {
                        if let F::StopSending { id, .. } = f {
                            discarded.entry(*id).or_insert(u64::MAX);
                        }
                    }
                    let consumed_of = |id: u64| -> u64 {
                        let read = reads.iter().filter(|(rt, s, _)| *rt <= t && *s == id).map(|x| x.2).max().unwrap_or(0);
                        match discarded.get(&id).copied() {
                            Some(u64::MAX) => read.max(rx_end.get(&id).copied().unwrap_or(0)),
                            Some(f) => read.max(f),
                            None => read,
                        }
                    };
                    for f in &p.frames {
                        match f {
                            F::MaxStreamData { id, v: x } => {
                                let consumed = consumed_of(*id);
                                let w = window_for(*id);
                                if *x > consumed + w {
                                    v(out, "credit.stream", format!("{} advertised MAX_STREAM_DATA({}, {}) but its application consumed {} and the configured window is {}", epn(ep), id, x, consumed, w));
                                }
                            }
                            F::MaxData(x) => {
                                let ids: BTreeSet<u64> = reads.iter().map(|x| x.1).chain(discarded.keys().copied()).collect();
                                let consumed: u64 = ids.iter().map(|id| consumed_of(*id)).sum();
                                if *x > consumed + own.initial_max_data {
                                    v(out, "credit.connection", format!("{} advertised MAX_DATA({}) but its application consumed {} in total and the configured window is {}", epn(ep), x, consumed, own.initial_max_data));
                                }
                            }
                            F::MaxStreams { bidi, v: x } => {
                                // streams of that type opened by the peer so far (upper bound of closed ones)
                                let opened: BTreeSet<u64> = r.rx.iter().filter(|q| q.ep == ep && q.t <= t).flat_map(|q| q.frames.iter()).filter_map(|f| match f {
                                    F::Stream { id, .. } | F::ResetStream { id, .. } | F::StreamDataBlocked { id, .. } => Some(*id),
                                    _ => None,
                                }).filter(|id| stream_initiator(*id) != ep && stream_is_uni(*id) != *bidi).collect();
                                let lim = if *bidi { own.streams_bidi } else { own.streams_uni };
                                if *x > opened.len() as u64 + lim {
                                    v(out, "credit.streams", format!("{} advertised MAX_STREAMS({}, {}) with only {} peer streams ever opened and a configured limit of {}", epn(ep), if *bidi { "bidi" } else { "uni" }, x, opened.len(), lim));
                                }
                            }
                            _ => {}
                        }
                    }
                }
            }
        }
    }
}

// ------------------------------------------------------------------------------------------
// ACK (C08)
// ------------------------------------------------------------------------------------------

fn _scn_for_pn(scn: &Scenario) -> bool {
    scn.key_update_every.is_none()
}

pub fn mon_ack(scn: &Scenario, r: &Record, out: &mut V) {
    // packet numbers always reconstruct: when nothing on the path damaged a datagram (no corrupting or
    // truncating deviation, no forgery) and the keys are not being updated, a packet that fails
    // decryption is a genuine packet whose number the receiver expanded to something else than was sent
    if _scn_for_pn(scn) && !r.dgrams.iter().any(|d| !d.delivered_intact || d.from == 2) {
        for e in &r.events {
            if let Ev::PacketDropped { reason } = &e.ev {
                // a datagram that the schedule delayed or duplicated may arrive so far behind the newest
                // packet that the receiver's expansion window no longer contains its number (RFC 9000 A.3
                // reconstructs relative to the largest number received): that is loss, not a codec fault
                let sender = other(e.ep);
                let late = r.dgrams.iter().any(|d| d.from == sender && (d.action.starts_with('L') || d.action.starts_with('U')) && d.delivered_at.iter().any(|t| *t == e.t));
                if reason == "DecryptionFailed" && !late {
                    v(out, "ack.pn_not_reconstructed", format!("{} dropped a genuine, undamaged packet at {} us: {} (with no key update in progress the only cause is a wrongly expanded packet number)", epn(e.ep), e.t, reason));
                }
            }
        }
    }

    for ep in [CLIENT, SERVER] {
        let mut received: [BTreeMap<u64, u64>; 3] = [BTreeMap::new(), BTreeMap::new(), BTreeMap::new()]; // pn -> first rx time
        let mut last_pn: HashMap<(u64, u8), u64> = HashMap::new();
        for (_, _, _, item) in timeline(r, ep) {
            match item {
                Item::Rx(p) => {
                    if (p.space as usize) < 3 {
                        received[p.space as usize].entry(p.pn).or_insert(p.t);
                    }
                }
                Item::Tx(p) => {
                    if (p.space as usize) >= 3 {
                        continue;
                    }
                    if let Some(prev) = last_pn.get(&(p.conn, p.space)) {
                        if p.pn <= *prev {
                            v(out, "ack.pn_not_increasing", format!("{} sent packet number {} after {} in space {}", epn(ep), p.pn, prev, p.space));
                        }
                    }
                    last_pn.insert((p.conn, p.space), p.pn);
                    for f in &p.frames {
                        if let F::Ack { ranges, .. } = f {
                            for (lo, hi) in ranges {
                                // every number in the range must have been received
                                let have = received[p.space as usize].range(*lo..=*hi).count() as u64;
                                if have != hi - lo + 1 {
                                    let missing: Vec<u64> = (*lo..=*hi).filter(|x| !received[p.space as usize].contains_key(x)).take(5).collect();
                                    v(out, "ack.unreceived", format!("{} acknowledged {}..={} in space {} but never processed packet number(s) {:?}", epn(ep), lo, hi, p.space, missing));
                                }
                            }
                        }
                    }
                }
            }
        }
        // promptness (application space, established connection)
        let mad_us = if ep == CLIENT { scn.client.max_ack_delay_ms } else { scn.server.max_ack_delay_ms }.unwrap_or(25) * 1000;
        let closed_at = r.events.iter().find(|e| e.ep == ep && matches!(e.ev, Ev::Closed { .. })).map(|e| e.t).unwrap_or(u64::MAX);
        let close_sent_at = r.tx.iter().filter(|p| p.ep == ep && p.frames.iter().any(|f| matches!(f, F::ConnectionClose { .. }))).map(|p| p.t).min().unwrap_or(u64::MAX);
        let close_rx_at = r.rx.iter().filter(|p| p.ep == ep && p.frames.iter().any(|f| matches!(f, F::ConnectionClose { .. }))).map(|p| p.t).min().unwrap_or(u64::MAX);
        let stop = closed_at.min(close_sent_at).min(close_rx_at);
        // RFC 9000 13.2.4: once a packet of ours that carried an ACK frame has been acknowledged we may
        // stop acknowledging everything up to that frame's Largest Acknowledged. (time, bound) pairs:
        let mut our_acks: BTreeMap<u64, u64> = BTreeMap::new(); // our pn -> largest acknowledged it carried
        for q in r.tx.iter().filter(|q| q.ep == ep && q.space == 2) {
            for f in &q.frames {
                if let F::Ack { largest, .. } = f {
                    our_acks.insert(q.pn, *largest);
                }
            }
        }
        let mut prune: Vec<(u64, u64)> = Vec::new(); // (time the peer's ack of our ack arrived, bound)
        for q in r.rx.iter().filter(|q| q.ep == ep && q.space == 2) {
            for f in &q.frames {
                if let F::Ack { ranges, .. } = f {
                    for (lo, hi) in ranges {
                        for (_, bound) in our_acks.range(*lo..=*hi) {
                            prune.push((q.t, *bound));
                        }
                    }
                }
            }
        }
        // "for as long as the endpoint is allowed to send": s2n-quic's pacer gates every transmission,
        // ACK-only packets included (Path::can_transmit).  A pacing interval never exceeds one smoothed
        // RTT (rate >= cwnd/srtt, burst <= cwnd), so the pacer can only be in the way if the endpoint
        // itself sent a congestion-controlled packet within the last srtt.  Derived from the record:
        // (the pacer belongs to the path and is shared by all packet number spaces: a Handshake flight
        // sent just before the handshake completes delays the first 1-RTT ACKs in the same way)
        let mut cc_sends: Vec<u64> = Vec::new(); // times of own ack-eliciting packets
        for q in r.tx.iter().filter(|q| q.ep == ep) {
            if q.frames.iter().any(|f| f.ack_eliciting() || matches!(f, F::Padding(_))) {
                cc_sends.push(q.t);
            }
        }
        let srtt_at = |t: u64| -> u64 {
            r.events.iter().filter(|e| e.ep == ep && e.t <= t).filter_map(|e| if let Ev::Recovery { srtt, .. } = &e.ev { Some(*srtt) } else { None }).last().unwrap_or(333_000)
        };
        let mut largest_eliciting: Option<u64> = None;
        let mut largest: Option<u64> = None;
        let mut seen: BTreeSet<u64> = BTreeSet::new();
        for p in r.rx.iter().filter(|p| p.ep == ep && p.space == 2) {
            if seen.contains(&p.pn) {
                continue;
            }
            seen.insert(p.pn);
            let eliciting = p.parse_error.is_none() && p.frames.iter().any(|f| f.ack_eliciting());
            if eliciting {
                // out of order: smaller than an ack-eliciting packet already received, or a gap above the largest
                // a gap is only visible against packets the receiver still has to remember: everything up
                // to the Largest Acknowledged of an ACK frame of ours that the peer has acknowledged may be
                // forgotten (RFC 9000 13.2.4) - the ACK-of-ACK carried by this very packet included
                let bound_now = prune.iter().filter(|(t, _)| *t <= p.t).map(|x| x.1).max();
                let remembered_largest = largest.filter(|l| bound_now.map_or(true, |b| *l > b));
                let out_of_order = largest_eliciting.map_or(false, |l| p.pn < l) || remembered_largest.map_or(false, |l| p.pn > l + 1);
                let deadline = p.t + if out_of_order { 1_000 } else { mad_us + 1_000 };
                let pruned = prune.iter().any(|(t, bound)| *t <= deadline && p.pn <= *bound);
                let srtt = srtt_at(deadline);
                let maybe_paced = cc_sends.iter().any(|s| *s + srtt >= p.t && *s <= deadline);
                if deadline < stop && deadline < r.end_t && !pruned && !maybe_paced {
                    let acked = r.tx.iter().any(|q| q.ep == ep && q.space == 2 && q.t >= p.t && q.t <= deadline && q.frames.iter().any(|f| matches!(f, F::Ack { ranges, .. } if ranges.iter().any(|(lo, hi)| *lo <= p.pn && p.pn <= *hi))));
                    if !acked {
                        let clause = if out_of_order { "ack.not_immediate_out_of_order" } else { "ack.late" };
                        v(out, clause, format!("{} processed ack-eliciting packet {} at {} us ({}) but sent no ACK covering it by {} us", epn(ep), p.pn, p.t, if out_of_order { "out of order" } else { "in order" }, deadline));
                    }
                }
                largest_eliciting = Some(largest_eliciting.map_or(p.pn, |l| l.max(p.pn)));
            }
            largest = Some(largest.map_or(p.pn, |l| l.max(p.pn)));
        }
    }
}

// ------------------------------------------------------------------------------------------
// RETRY (RFC 9000 8.1.2, 17.2.5; RFC 9002 6.3): wire-level view shared by AMP / LOSS / RETRY
// ------------------------------------------------------------------------------------------

#[derive(Clone, Debug)]
pub struct RetryDgram {
    /// index into r.dgrams
    pub di: usize,
    pub t: u64,
    pub dst: std::net::SocketAddr,
    pub dcid: Vec<u8>,
    pub scid: Vec<u8>,
    pub token: Vec<u8>,
}

#[derive(Clone, Debug)]
pub struct ClientInitial {
    pub di: usize,
    pub t: u64,
    pub src: std::net::SocketAddr,
    pub dcid: Vec<u8>,
    pub scid: Vec<u8>,
    pub token: Vec<u8>,
}

#[derive(Clone, Debug, Default)]
pub struct RetryView {
    /// Retry datagrams the server sent
    pub retries: Vec<RetryDgram>,
    /// Initial packets in client datagrams (first packet of the datagram), in sending order
    pub initials: Vec<ClientInitial>,
    /// instants at which the client switched to the (connection id, token) of a Retry: (time the
    /// Retry reached it, index into `retries`, index into `initials` of the first Initial using it)
    pub accepted: Vec<(u64, usize, usize)>,
}

pub fn retry_view(r: &Record) -> RetryView {
    let mut v = RetryView::default();
    for (di, d) in r.dgrams.iter().enumerate() {
        if d.from == SERVER {
            for h in wire::long_headers(&d.payload) {
                if h.kind == Kind::Retry {
                    v.retries.push(RetryDgram { di, t: d.t, dst: d.dst, dcid: h.dcid, scid: h.scid, token: h.token });
                }
            }
        } else if d.from == CLIENT {
            if let Some(h) = wire::long_headers(&d.payload).into_iter().find(|h| h.kind == Kind::Initial) {
                v.initials.push(ClientInitial { di, t: d.t, src: d.src, dcid: h.dcid, scid: h.scid, token: h.token });
            }
        }
    }
    // a change of (destination connection id, token) between consecutive client Initials that
    // matches a Retry which had reached the client by then is an accepted Retry
    for i in 1..v.initials.len() {
        let (prev, cur) = (&v.initials[i - 1], &v.initials[i]);
        if prev.token == cur.token && prev.dcid == cur.dcid {
            continue;
        }
        let hit = v.retries.iter().enumerate().filter(|(_, rt)| rt.token == cur.token && rt.scid == cur.dcid).filter_map(|(ri, rt)| r.dgrams[rt.di].delivered_at.iter().filter(|t| **t <= cur.t).max().map(|t| (*t, ri))).max();
        if let Some((t, ri)) = hit {
            v.accepted.push((t, ri, i));
        }
    }
    v
}

/// time at which the client took over a Retry, as seen in its event stream: the packet_received
/// event of a Retry packet at one of the wire-derived instants
fn retry_accept_times(r: &Record) -> Vec<u64> {
    retry_view(r).accepted.iter().map(|a| a.0).collect()
}

pub fn mon_retry(scn: &Scenario, r: &Record, out: &mut V) {
    let rv = retry_view(r);
    let retry_on = scn.retry != crate::scenario::Retry::Off;
    if !retry_on {
        if !rv.retries.is_empty() {
            v(out, "machinery.retry_unexpected", format!("the server sent {} Retry packet(s) in a scenario that does not ask for address validation by Retry", rv.retries.len()));
        }
        return;
    }
    // vacuity: whenever a token-less Initial reached the server intact, a Retry must exist
    let tokenless_rx: Vec<(u64, &ClientInitial)> = rv.initials.iter().filter(|i| i.token.is_empty()).flat_map(|i| r.dgrams[i.di].delivered_at.iter().filter(move |_| r.dgrams[i.di].delivered_intact).map(move |t| (*t, i))).collect();
    if !tokenless_rx.is_empty() && rv.retries.is_empty() && r.panicked.is_none() && r.stalled.is_none() {
        v(out, "machinery.retry_vacuous", "a token-less Initial reached the server but no Retry packet was ever sent in a Retry scenario".into());
    }
    // --- server side
    for (k, rt) in rv.retries.iter().enumerate() {
        // RFC 9000 17.2.5.1: "A server MUST NOT send more than one Retry packet in response to a single
        // UDP datagram"; 8.1.2: "In response to processing an Initial packet containing a token that was
        // provided in a Retry packet, a server cannot send another Retry packet": the k-th Retry needs
        // k token-less client Initial datagrams delivered by then
        let triggers = r.dgrams.iter().filter(|d| d.from == CLIENT && d.src == rt.dst).filter(|d| wire::long_headers(&d.payload).first().map_or(false, |h| h.kind == Kind::Initial && h.token.is_empty())).map(|d| d.delivered_at.iter().filter(|t| **t <= rt.t).count()).sum::<usize>();
        let earlier = rv.retries[..k].iter().filter(|x| x.dst == rt.dst).count();
        if earlier + 1 > triggers {
            v(out, "retry.without_trigger", format!("server sent Retry #{} to {} at {} us but only {} token-less Initial datagram(s) from there had arrived", earlier + 1, rt.dst, rt.t, triggers));
        }
        // RFC 9000 17.2.5.1: the Source Connection ID "MUST NOT be equal to the Destination Connection ID
        // field of the packet sent by the client"; the Destination Connection ID is the client's Source
        // Connection ID (17.2: "the Source Connection ID ... of the Initial packet")
        let answered: Vec<&ClientInitial> = rv.initials.iter().filter(|i| i.token.is_empty() && i.src == rt.dst && r.dgrams[i.di].delivered_at.iter().any(|t| *t <= rt.t)).collect();
        if answered.iter().any(|i| i.dcid == rt.scid) {
            v(out, "retry.scid_equals_client_dcid", format!("Retry at {} us carries a Source Connection ID equal to the Destination Connection ID the client chose", rt.t));
        }
        if !answered.is_empty() && !answered.iter().any(|i| i.scid == rt.dcid) {
            v(out, "retry.dcid_not_client_scid", format!("Retry at {} us is addressed to connection id {} which is not the client's Source Connection ID", rt.t, hexs(&rt.dcid)));
        }
        if rt.token.is_empty() {
            v(out, "retry.empty_token", format!("Retry at {} us carries no token", rt.t));
        }
    }
    // --- client side
    // RFC 9000 17.2.5.2: "A client MUST accept and process at most one Retry packet for each connection
    // attempt"; "MUST discard any subsequent Retry packets"
    if rv.accepted.len() > 1 {
        v(out, "retry.second_retry_processed", format!("the client changed its Initial's connection id/token after Retry packets {} times ({:?})", rv.accepted.len(), rv.accepted.iter().map(|a| a.0).collect::<Vec<_>>()));
    }
    // connection ids the server itself used as Source Connection ID in Initial / Handshake packets
    // (RFC 9000 7.2: the client switches to it on the first such packet - not a Retry matter)
    let server_scids: Vec<(u64, Vec<u8>)> = r.dgrams.iter().filter(|d| d.from == SERVER).flat_map(|d| wire::long_headers(&d.payload).into_iter().filter(|h| h.kind != Kind::Retry).map(move |h| (d.t, h.scid))).collect();
    for i in 1..rv.initials.len() {
        let (prev, cur) = (&rv.initials[i - 1], &rv.initials[i]);
        if prev.token == cur.token && prev.dcid == cur.dcid {
            continue;
        }
        // the token / destination id changed: the new pair must be that of a Retry which reached the
        // client *unmodified* (17.2.5.2: "Clients MUST discard Retry packets that have a Retry Integrity
        // Tag that cannot be validated")
        let genuine = rv.retries.iter().any(|rt| rt.token == cur.token && rt.scid == cur.dcid && r.dgrams[rt.di].delivered_intact && r.dgrams[rt.di].delivered_at.iter().any(|t| *t <= cur.t));
        let server_chosen = prev.token == cur.token && server_scids.iter().any(|(t, id)| *t <= cur.t && *id == cur.dcid);
        if !genuine && !server_chosen {
            v(out, "retry.unauthentic_retry_accepted", format!("client Initial in datagram #{} at {} us carries token {}.. / destination id {} that no intact Retry delivered to it provides", r.dgrams[cur.di].idx, cur.t, hexs(&cur.token[..cur.token.len().min(8)]), hexs(&cur.dcid)));
        }
    }
    // 8.1.2: "This token MUST be repeated by the client in all Initial packets it sends for that
    // connection after it receives the Retry packet"
    if let Some((_, ri, first)) = rv.accepted.first() {
        let rt = &rv.retries[*ri];
        for later in &rv.initials[*first..] {
            if later.token != rt.token {
                v(out, "retry.token_not_repeated", format!("client Initial in datagram #{} at {} us does not repeat the Retry token", r.dgrams[later.di].idx, later.t));
                break;
            }
        }
    }
    // RFC 9000 17.2.5.3: "A client MUST NOT reset the packet number for any packet number space after
    // processing a Retry packet"
    let mut last: Option<u64> = None;
    for p in r.tx.iter().filter(|p| p.ep == CLIENT && p.space == 0) {
        if let Some(l) = last {
            if p.pn <= l {
                v(out, "retry.packet_number_reset", format!("client sent Initial packet number {} at {} us after {}", p.pn, p.t, l));
                break;
            }
        }
        last = Some(p.pn);
    }
    // RFC 9000 7.3: after a Retry the server's transport parameters authenticate both ids
    if let Some((_, ri, _)) = rv.accepted.first() {
        let rt = &rv.retries[*ri];
        let first_dcid = rv.initials.first().map(|i| i.dcid.clone()).unwrap_or_default();
        if scn.tp_edit.is_none() {
            for e in r.events.iter().filter(|e| e.ep == CLIENT) {
                if let Ev::TransportParametersReceived { text } = &e.ev {
                    let want_odcid = format!("original_destination_connection_id: Some(0x{})", hexs(&first_dcid));
                    let want_rscid = format!("retry_source_connection_id: Some(0x{})", hexs(&rt.scid));
                    if !text.contains(&want_odcid) {
                        v(out, "retry.tp_original_destination_connection_id", format!("after a Retry the server's original_destination_connection_id is not the Destination Connection ID of the client's first Initial ({})", hexs(&first_dcid)));
                    }
                    if !text.contains(&want_rscid) {
                        v(out, "retry.tp_retry_source_connection_id", format!("after a Retry the server's retry_source_connection_id is not the Source Connection ID of the Retry packet ({})", hexs(&rt.scid)));
                    }
                }
            }
        }
    }
}

fn hexs(b: &[u8]) -> String {
    b.iter().map(|x| format!("{:02x}", x)).collect()
}

// ------------------------------------------------------------------------------------------
// FACTS: what an execution exercised (vacuity counters, reported as x_facts by the master)
// ------------------------------------------------------------------------------------------

/// Wire-level facts about one execution.  `amp_limit_reached`: at some instant before the client's
/// address was validated the server had sent at least 3x what it had received (it filled its
/// allowance to the last byte); `amp_released`: after such an instant a further client datagram
/// arrived and the server sent again (`..._by_credit_before_validation`: while the address was still
/// unvalidated, i.e. the datagram brought credit only); `client_sent_while_server_blocked`: the client sent a datagram
/// of its own accord (no server datagram had reached it since its previous one) while the server
/// stood at the limit - the anti-deadlock probing of RFC 9002 6.2.2.1.
pub fn facts(r: &Record) -> Vec<(&'static str, u64)> {
    let mut out = Vec::new();
    let rv = retry_view(r);
    // address validation as in mon_amp
    let hs_validated = r.dgrams.iter().filter(|d| d.from == CLIENT && d.delivered_intact && wire::datagram_packet_kinds(&d.payload).contains(&Kind::Handshake)).filter_map(|d| d.delivered_at.first().copied()).min().unwrap_or(u64::MAX);
    let hs_validated = hs_validated.min(r.rx.iter().filter(|p| p.ep == SERVER && p.space == 1).map(|p| p.t).min().unwrap_or(u64::MAX));
    let token_validated = rv.initials.iter().filter(|i| !i.token.is_empty() && r.dgrams[i.di].delivered_intact).filter(|i| rv.retries.iter().any(|rt| rt.token == i.token && rt.dst == i.src && rt.t <= i.t)).filter_map(|i| r.dgrams[i.di].delivered_at.first().copied()).min().unwrap_or(u64::MAX);
    // the limit as s2n-quic applies it (per connection, until a Handshake packet is processed) is
    // what the scenario wants to reach, so token validation is not taken into account here
    let mut sent = 0u64;
    let mut blocked_since: Option<u64> = None;
    let mut reached = 0u64;
    let mut released = 0u64;
    let mut probed = 0u64;
    let mut min_slack = i64::MAX;
    let conn_start = rv.initials.iter().filter(|i| !i.token.is_empty()).map(|i| i.t).min();
    let received_at = |t: u64| -> u64 {
        r.dgrams.iter().filter(|c| c.from == CLIENT && conn_start.map_or(true, |s| c.t >= s)).map(|c| c.delivered_at.iter().filter(|x| **x <= t).count() as u64 * c.delivered_len as u64).sum()
    };
    let mut released_by_credit = 0u64;
    for d in r.dgrams.iter().filter(|d| d.idx != u32::MAX) {
        if d.from == SERVER {
            if wire::datagram_kind(&d.payload) == Kind::Retry {
                continue;
            }
            if let Some(since) = blocked_since.take() {
                if received_at(d.t) > received_at(since) {
                    released = 1;
                    if d.t < hs_validated {
                        released_by_credit = 1;
                    }
                }
            }
            if d.t >= hs_validated {
                continue;
            }
            sent += d.payload.len() as u64;
            let slack = 3 * received_at(d.t) as i64 - sent as i64;
            min_slack = min_slack.min(slack);
            if slack <= 0 {
                reached = 1;
                blocked_since = Some(d.t);
            }
        } else if d.from == CLIENT {
            if let Some(since) = blocked_since {
                // of its own accord: nothing from the server reached the client since its previous datagram
                let heard = r.dgrams.iter().any(|s| s.from == SERVER && s.t > since && s.delivered_at.iter().any(|x| *x <= d.t));
                let last_server_rx = r.dgrams.iter().filter(|s| s.from == SERVER).flat_map(|s| s.delivered_at.iter()).filter(|x| **x <= d.t).max().copied().unwrap_or(0);
                if !heard && d.t > last_server_rx {
                    probed = 1;
                }
            }
        }
    }
    out.push(("amp_limit_reached", reached));
    out.push(("amp_released", released));
    out.push(("amp_released_by_credit_before_validation", released_by_credit));
    out.push(("client_sent_while_server_blocked", probed));
    out.push(("retry_sent", (!rv.retries.is_empty()) as u64));
    out.push(("retry_taken_over", (!rv.accepted.is_empty()) as u64));
    let retry_deliveries: usize = rv.retries.iter().map(|rt| r.dgrams[rt.di].delivered_at.len()).sum();
    out.push(("retry_extra_copy_reached_client", (retry_deliveries > 1) as u64));
    out.push(("retry_reached_client_modified", rv.retries.iter().any(|rt| !r.dgrams[rt.di].delivered_intact && !r.dgrams[rt.di].delivered_at.is_empty()) as u64));
    out.push(("token_validated_before_handshake_packet", (token_validated < hs_validated) as u64));
    let _ = min_slack;
    out
}

// ------------------------------------------------------------------------------------------
// AMP (C11)
// ------------------------------------------------------------------------------------------

pub fn mon_amp(_scn: &Scenario, r: &Record, out: &mut V) {
    // client Initial datagrams are padded to 1200
    for d in &r.dgrams {
        if d.from == CLIENT && wire::datagram_packet_kinds(&d.payload).contains(&Kind::Initial) && d.payload.len() < 1200 {
            v(out, "amp.client_initial_padding", format!("client datagram #{} carries an Initial packet but is only {} bytes", d.idx, d.payload.len()));
        }
    }
    // address validation: first intact client datagram containing a Handshake packet delivered to the server
    let validated_at = r
        .dgrams
        .iter()
        .filter(|d| d.from == CLIENT && d.delivered_intact && wire::datagram_packet_kinds(&d.payload).contains(&Kind::Handshake))
        .filter_map(|d| d.delivered_at.first().copied())
        .min()
        .unwrap_or(u64::MAX);
    // RFC 9000 8.1.2: "it proves to the server that it received the token": an Initial that carries a
    // token the server itself put into a Retry packet *for that address* validates the address once
    // the server has received it (intact); the Retry packets themselves are sent before that and count
    let rv = retry_view(r);
    let token_validated_at = rv
        .initials
        .iter()
        .filter(|i| !i.token.is_empty() && r.dgrams[i.di].delivered_intact)
        .filter(|i| rv.retries.iter().any(|rt| rt.token == i.token && rt.dst == i.src && rt.t <= i.t))
        .filter_map(|i| r.dgrams[i.di].delivered_at.first().copied())
        .min()
        .unwrap_or(u64::MAX);
    // RFC 9000 8.1: "Once an endpoint has successfully processed a Handshake packet from the peer, it
    // can consider the peer address to have been validated": a datagram whose *first* coalesced packet
    // was damaged in flight still validates the address when the Handshake packet behind it is
    // authentic - the server's receive interceptor sees exactly the packets that passed authentication
    let hs_processed_at = r.rx.iter().filter(|p| p.ep == SERVER && p.space == 1).map(|p| p.t).min().unwrap_or(u64::MAX);
    let validated_at = validated_at.min(token_validated_at).min(hs_processed_at);
    let first_client_addr = r.dgrams.iter().find(|d| d.from == CLIENT).map(|d| d.src);
    {
        let mut sent: u64 = 0;
        // `forgetful`: twin of the saturating allowance, see the new-path rule below.  A strict violation
        // that the twin still permits is the KNOWN C11 finding (the overshoot of the last datagram is
        // forgotten) showing on the first path: it needs a client datagram that is not a multiple of the
        // server's datagram size (e.g. truncated in flight) followed by a small one.
        let mut forgetful: u64 = 0;
        let mut credited: usize = 0;
        let mut blocked: Vec<(u64, u64)> = Vec::new();
        let mut rx_events: Vec<(u64, u64)> = r.dgrams.iter().filter(|c| c.from != SERVER).flat_map(|c| c.delivered_at.iter().map(move |t| (*t, c.delivered_len as u64))).collect();
        rx_events.sort();
        for d in r.dgrams.iter().filter(|d| d.from == SERVER) {
            if d.t >= validated_at {
                break;
            }
            while credited < rx_events.len() && rx_events[credited].0 <= d.t {
                forgetful += 3 * rx_events[credited].1;
                credited += 1;
            }
            let received: u64 = rx_events[..credited].iter().map(|e| e.1).sum();
            if sent >= 3 * received {
                let clause = if forgetful > 0 { "amp.limit.overshoot_forgotten" } else { "amp.limit" };
                v(out, clause, format!("server started datagram #{} ({} bytes) at {} us to an unvalidated address after already sending {} bytes with only {} bytes received", d.idx, d.payload.len(), d.t, sent, received));
            }
            sent += d.payload.len() as u64;
            forgetful = forgetful.saturating_sub(d.payload.len() as u64);
            // the server stands at the limit from now until the next client datagram arrives (both by
            // the strict count and by the saturating twin, so that the known finding cannot leak in here)
            if sent >= 3 * received && forgetful == 0 {
                let until = rx_events.iter().map(|e| e.0).filter(|t| *t > d.t).min().unwrap_or(u64::MAX).min(validated_at);
                blocked.push((d.t, until));
            }
        }
        // RFC 9002 6.2.2.1: "If no additional data can be sent, the server's PTO timer MUST NOT be armed
        // until datagrams have been received from the client, because packets sent on PTO count against
        // the anti-amplification limit."  A timer that is not armed cannot expire: the server's PTO count
        // must not grow strictly inside such an interval (at its end the arriving datagram re-arms the
        // timer, "if the PTO timer is then set to a time in the past, it is executed immediately").
        let mut last_count: HashMap<(u64, u64), u32> = HashMap::new();
        for e in r.events.iter().filter(|e| e.ep == SERVER) {
            if let Ev::Recovery { pto_count, path, .. } = &e.ev {
                let prev = last_count.insert((e.conn, *path), *pto_count).unwrap_or(0);
                if *pto_count > prev {
                    if let Some((b, c)) = blocked.iter().find(|(b, c)| *b < e.t && e.t < *c) {
                        v(out, "amp.pto_while_blocked", format!("the server's probe timeout expired at {} us (PTO count {} -> {}) although it had stood at the anti-amplification limit since {} us and no client datagram arrived before {} us: the timer was armed while nothing could be sent", e.t, prev, pto_count, b, if *c == u64::MAX { 0 } else { *c }));
                    }
                }
            }
        }
    }
    // the same limit applies to every further client address (migration / rebinding) until that path is
    // validated: the server processes a PATH_RESPONSE after the first datagram from the new address
    let mut addrs: Vec<std::net::SocketAddr> = Vec::new();
    for d in r.dgrams.iter().filter(|d| d.from == CLIENT) {
        if Some(d.src) != first_client_addr && !addrs.contains(&d.src) {
            addrs.push(d.src);
        }
    }
    for addr in addrs {
        let first_rx = r.dgrams.iter().filter(|d| d.from == CLIENT && d.src == addr).filter_map(|d| d.delivered_at.first().copied()).min();
        let Some(first_rx) = first_rx else { continue };
        let validated = r.rx.iter().filter(|p| p.ep == SERVER && p.t >= first_rx && p.frames.iter().any(|f| matches!(f, F::PathResponse(_)))).map(|p| p.t).min().unwrap_or(u64::MAX);
        let mut sent: u64 = 0;
        // `forgetful` mirrors an allowance that saturates at zero when the last datagram overshoots
        // it (the overshoot is forgotten, so the next datagram received grants a fresh 3x): a strict
        // violation that this accounting still permits is the KNOWN C11 finding (path/mod.rs
        // on_bytes_transmitted, `Counter<u32, Saturating>`), reported under its own clause so that any
        // other way of exceeding the limit keeps the plain clause.
        let mut forgetful: u64 = 0;
        let mut credited: usize = 0;
        let mut rx_events: Vec<(u64, u64)> = r
            .dgrams
            .iter()
            .filter(|c| c.from == CLIENT && c.src == addr)
            .flat_map(|c| c.delivered_at.iter().map(move |t| (*t, c.delivered_len as u64)))
            .collect();
        rx_events.sort();
        for d in r.dgrams.iter().filter(|d| d.from == SERVER && d.dst == addr) {
            if d.t >= validated {
                break;
            }
            while credited < rx_events.len() && rx_events[credited].0 <= d.t {
                forgetful += 3 * rx_events[credited].1;
                credited += 1;
            }
            let received: u64 = rx_events[..credited].iter().map(|e| e.1).sum();
            if sent >= 3 * received {
                let clause = if forgetful > 0 { "amp.new_path_limit.overshoot_forgotten" } else { "amp.new_path_limit" };
                v(out, clause, format!("server started datagram #{} ({} bytes) at {} us to the unvalidated new address {} after already sending {} bytes there with only {} bytes received from it", d.idx, d.payload.len(), d.t, addr, sent, received));
            }
            sent += d.payload.len() as u64;
            forgetful = forgetful.saturating_sub(d.payload.len() as u64);
        }
    }
}

// ------------------------------------------------------------------------------------------
// TXCONS (C12)
// ------------------------------------------------------------------------------------------

pub fn mon_txcons(_scn: &Scenario, r: &Record, out: &mut V) {
    for ep in [CLIENT, SERVER] {
        let mut bytes: HashMap<u64, BTreeMap<u64, u8>> = HashMap::new();
        let mut final_size: HashMap<u64, (u64, &'static str)> = HashMap::new();
        let mut reset: BTreeSet<u64> = BTreeSet::new();
        let mut highest: HashMap<u64, u64> = HashMap::new();
        let mut first_seen: [Option<u64>; 2] = [None, None]; // highest own-initiated id seen per type
        for p in r.tx.iter().filter(|p| p.ep == ep && p.space == 2) {
            for f in &p.frames {
                let id = match f {
                    F::Stream { id, .. } | F::ResetStream { id, .. } | F::StreamDataBlocked { id, .. } => *id,
                    _ => continue,
                };
                // opening order of own streams
                if stream_initiator(id) == ep {
                    let ty = stream_is_uni(id) as usize;
                    match first_seen[ty] {
                        None => {
                            first_seen[ty] = Some(id);
                        }
                        Some(h) => {
                            if id > h {
                                if id != h + 4 {
                                    // a skipped id is fine only if it was opened without sending (cannot tell) -> only order matters
                                }
                                first_seen[ty] = Some(id);
                            }
                        }
                    }
                }
                match f {
                    F::Stream { id, off, fin, data } => {
                        if reset.contains(id) {
                            if data.is_empty() && !*fin {
                                v(out, "txcons.empty_stream_frame_after_reset", format!("{} sent an empty STREAM frame (offset {}, no FIN) on stream {} after RESET_STREAM", epn(ep), off, id));
                            } else {
                                v(out, "txcons.stream_after_reset", format!("{} sent STREAM ({}..{}, fin={}) on stream {} after RESET_STREAM", epn(ep), off, off + data.len() as u64, fin, id));
                            }
                        }
                        let end = off + data.len() as u64;
                        if let Some((fs, how)) = final_size.get(id) {
                            if end > *fs {
                                v(out, "txcons.data_beyond_final_size", format!("{} sent stream {} data up to {} beyond the final size {} announced by {}", epn(ep), id, end, fs, how));
                            }
                            if *fin && end != *fs {
                                v(out, "txcons.final_size_changed", format!("{} announced final size {} on stream {} after announcing {} by {}", epn(ep), end, id, fs, how));
                            }
                        }
                        let m = bytes.entry(*id).or_default();
                        for (i, b) in data.iter().enumerate() {
                            let o = off + i as u64;
                            match m.get(&o) {
                                Some(old) if old != b => {
                                    v(out, "txcons.retransmission_differs", format!("{} retransmitted stream {} offset {} as {:#x}, first sent {:#x}", epn(ep), id, o, b, old));
                                    break;
                                }
                                Some(_) => {}
                                None => {
                                    m.insert(o, *b);
                                }
                            }
                        }
                        let h = highest.entry(*id).or_insert(0);
                        *h = (*h).max(end);
                        if *fin && !final_size.contains_key(id) {
                            if end < *h {
                                v(out, "txcons.final_size_below_sent", format!("{} announced final size {} on stream {} after sending data up to {}", epn(ep), end, id, h));
                            }
                            final_size.insert(*id, (end, "FIN"));
                        }
                    }
                    F::ResetStream { id, final_size: fs, .. } => {
                        if let Some((old, how)) = final_size.get(id) {
                            if old != fs {
                                v(out, "txcons.final_size_changed", format!("{} sent RESET_STREAM with final size {} on stream {} after announcing {} by {}", epn(ep), fs, id, old, how));
                            }
                        } else {
                            let h = highest.get(id).copied().unwrap_or(0);
                            if *fs < h {
                                v(out, "txcons.final_size_below_sent", format!("{} sent RESET_STREAM with final size {} on stream {} after sending data up to {}", epn(ep), fs, id, h));
                            }
                            final_size.insert(*id, (*fs, "RESET_STREAM"));
                        }
                        reset.insert(*id);
                    }
                    F::StreamDataBlocked { id, .. } => {
                        if reset.contains(id) {
                            v(out, "txcons.blocked_after_reset", format!("{} sent STREAM_DATA_BLOCKED on stream {} after RESET_STREAM", epn(ep), id));
                        }
                    }
                    _ => {}
                }
            }
        }
        // stream ids of each type are handed out in increasing order and never reused (the order of
        // first appearance on the wire may differ: a later stream may transmit first)
        let mut max_id: [Option<u64>; 2] = [None, None];
        for a in r.app.iter().filter(|a| a.ep == ep) {
            if let App::StreamOpened { stream } = &a.ev {
                let ty = stream_is_uni(*stream) as usize;
                if stream_initiator(*stream) != ep {
                    v(out, "txcons.stream_id_initiator", format!("{} opened stream {} whose id belongs to the peer", epn(ep), stream));
                }
                if let Some(m) = max_id[ty] {
                    if *stream <= m {
                        v(out, "txcons.stream_id_order", format!("{} opened stream {} after stream {} of the same type", epn(ep), stream, m));
                    }
                }
                max_id[ty] = Some(max_id[ty].map_or(*stream, |m| m.max(*stream)));
            }
        }
        // closing: after the first CONNECTION_CLOSE only copies of that datagram, rate limited by arrivals
        let tc = r.tx.iter().filter(|p| p.ep == ep && p.frames.iter().any(|f| matches!(f, F::ConnectionClose { .. }))).map(|p| p.t).min();
        if let Some(tc) = tc {
            // packets written after the close packet must be close packets too
            for p in r.tx.iter().filter(|p| p.ep == ep && p.t > tc) {
                if !p.frames.iter().all(|f| matches!(f, F::ConnectionClose { .. } | F::Padding(_))) {
                    v(out, "txcons.frames_after_close", format!("{} wrote a packet with {:?} at {} us after sending CONNECTION_CLOSE at {} us", epn(ep), p.frames.iter().map(|f| f.name()).collect::<Vec<_>>(), p.t, tc));
                }
            }
            let mine: Vec<&Dgram> = r.dgrams.iter().filter(|d| d.from == ep && d.t >= tc).collect();
            if let Some(t0) = mine.first().map(|d| d.t) {
                let close_dgram = mine.iter().filter(|d| d.t == t0).last().unwrap();
                let later: Vec<&&Dgram> = mine.iter().filter(|d| d.t > t0).collect();
                // Once the connection's state has been discarded the *endpoint* answers further datagrams
                // for that connection id with stateless resets (RFC 9000 10.2: "an endpoint MAY send a
                // Stateless Reset in response to any further incoming packets"; 10.3.3 keeps the exchange
                // finite because every reset is smaller than its trigger): those are not transmissions of
                // the closed connection. They are recognised by the endpoint-level event, one per datagram.
                let mut resets: BTreeMap<u64, usize> = BTreeMap::new();
                for e in r.events.iter().filter(|e| e.ep == ep) {
                    if let Ev::EndpointPacketSent { kind } = &e.ev {
                        if kind == "StatelessReset" {
                            *resets.entry(e.t).or_insert(0) += 1;
                        }
                    }
                }
                for d in &later {
                    if d.payload != close_dgram.payload {
                        if let Some(n) = resets.get_mut(&d.t) {
                            if *n > 0 {
                                *n -= 1;
                                continue;
                            }
                        }
                        v(out, "txcons.datagram_after_close", format!("{} sent datagram #{} ({} bytes) at {} us after its CONNECTION_CLOSE datagram #{} and it is not a copy of it", epn(ep), d.idx, d.payload.len(), d.t, close_dgram.idx));
                    }
                }
                // only in response to incoming packets
                let arrivals = r.dgrams.iter().filter(|d| d.from != ep).flat_map(|d| d.delivered_at.iter()).filter(|t| **t >= t0).count();
                if later.len() > arrivals {
                    v(out, "txcons.close_not_in_response", format!("{} sent {} further close datagrams but only {} datagrams arrived after it started closing", epn(ep), later.len(), arrivals));
                }
            }
        }
    }
}

// ------------------------------------------------------------------------------------------
// LOSS (C09) + SENDGATE (C10) from the event stream
// ------------------------------------------------------------------------------------------

pub fn mon_loss(_scn: &Scenario, r: &Record, out: &mut V) {
    for ep in [CLIENT, SERVER] {
        // (space, pn) -> (send time, size, mode)
        let mut sent: BTreeMap<(u8, u64), (u64, usize, u8, usize)> = BTreeMap::new(); // + send order
        let mut order = 0usize;
        let mut acked: BTreeSet<(u8, u64)> = BTreeSet::new();
        let mut lost: BTreeSet<(u8, u64)> = BTreeSet::new();
        let mut largest_acked: [Option<u64>; 3] = [None, None, None];
        let mut srtt = 0u64;
        let mut latest = 0u64;
        let mut have_rtt = false;
        let mut min_sample = u64::MAX;
        let mut max_sample = 0u64;
        let mut discarded: BTreeSet<u8> = BTreeSet::new();
        // RFC 9002 6.3: a client that takes over a Retry resets its loss recovery state: the Initial
        // packets of the first attempt are resolved by that (neither acknowledged nor lost, ever)
        let retry_times = if ep == CLIENT { retry_accept_times(r) } else { Vec::new() };
        let mut retry_discarded: BTreeSet<(u8, u64)> = BTreeSet::new();
        let mut sent_conn: BTreeMap<(u8, u64), u64> = BTreeMap::new();
        let evs: Vec<&Event> = r.events.iter().filter(|e| e.ep == ep).collect();
        for (ei, e) in evs.iter().enumerate() {
            match &e.ev {
                Ev::PacketReceived { space: 3, .. } if retry_times.contains(&e.t) => {
                    for (k, _) in sent.iter() {
                        if !acked.contains(k) && !lost.contains(k) {
                            retry_discarded.insert(*k);
                        }
                    }
                }
                Ev::PacketSent { space, pn, len, mode } => {
                    if *space < 3 {
                        // (per connection: a server may hold two connections in one run)
                        if sent_conn.insert((*space, *pn), e.conn) == Some(e.conn) {
                            v(out, "loss.packet_number_reused", format!("{} sent packet number {} in space {} twice (at {} us and {} us): its resolution is ambiguous", epn(ep), pn, space, sent[&(*space, *pn)].0, e.t));
                        }
                        sent.insert((*space, *pn), (e.t, *len, *mode, order));
                        order += 1;
                    }
                }
                Ev::AckRangeReceived { space, lo, hi } => {
                    if *space < 3 {
                        for (k, _) in sent.range((*space, *lo)..=(*space, *hi)) {
                            if retry_discarded.contains(k) {
                                continue;
                            }
                            if lost.contains(k) {
                                // late ack of a packet declared lost: allowed (spurious loss), but it was resolved already
                                continue;
                            }
                            acked.insert(*k);
                        }
                        let la = &mut largest_acked[*space as usize];
                        *la = Some(la.map_or(*hi, |x| x.max(*hi)));
                        // an ACK for a packet never sent is a peer error, not ours
                    }
                }
                Ev::Recovery { srtt: s, latest: l, min_rtt, .. } => {
                    srtt = *s;
                    latest = *l;
                    have_rtt = true;
                    min_sample = min_sample.min(*l);
                    max_sample = max_sample.max(*l);
                    if *min_rtt > *l && *l > 0 {
                        // min_rtt is the minimum over samples, so it can never exceed the latest sample
                        v(out, "loss.min_rtt", format!("{} reports min_rtt {} us above latest_rtt {} us", epn(ep), min_rtt, l));
                    }
                    if max_sample > 0 && (*s > max_sample.max(333_000)) {
                        v(out, "loss.srtt_range", format!("{} smoothed_rtt {} us above every sample (max {} us)", epn(ep), s, max_sample));
                    }
                }
                Ev::KeySpaceDiscarded { space } => {
                    discarded.insert(*space);
                }
                Ev::PacketLost { space, pn, mtu_probe, .. } => {
                    if *space >= 3 {
                        continue;
                    }
                    let key = (*space, *pn);
                    if !lost.insert(key) {
                        v(out, "loss.resolved_twice", format!("{} declared packet {} in space {} lost twice", epn(ep), pn, space));
                    }
                    if retry_discarded.contains(&key) {
                        // "A Retry packet cannot be treated as an acknowledgment" nor as a loss signal: the state is reset
                        v(out, "loss.lost_after_retry_discard", format!("{} declared packet {} in space {} lost at {} us although it was discarded when the Retry was processed", epn(ep), pn, space, e.t));
                        continue;
                    }
                    if acked.contains(&key) {
                        v(out, "loss.lost_after_ack", format!("{} declared packet {} in space {} lost after it was acknowledged", epn(ep), pn, space));
                    }
                    let Some((t_sent, _, _, ord)) = sent.get(&key).copied() else {
                        v(out, "loss.unsent", format!("{} declared packet {} in space {} lost but never sent it", epn(ep), pn, space));
                        continue;
                    };
                    if *mtu_probe {
                        continue; // MTU probes are declared lost by their own timer (RFC 8899), not by loss detection
                    }
                    // justification: a later-sent packet has been acknowledged ...
                    let later_acked = acked.iter().any(|k| k.0 == *space && sent.get(k).map_or(false, |s| s.3 > ord));
                    if !later_acked {
                        v(out, "loss.no_later_ack", format!("{} declared packet {} in space {} lost at {} us although no packet sent after it has been acknowledged", epn(ep), pn, space, e.t));
                        continue;
                    }
                    // ... and packet threshold or time threshold
                    let la = largest_acked[*space as usize].unwrap_or(0);
                    let pkt_thresh = la >= *pn + 3;
                    // the estimator is updated with the sample of the ACK being processed *before* losses are
                    // detected (RFC 9002 A.7), but the metrics event that shows the updated values is emitted
                    // after the loss events: take the smaller of the values before and after
                    let mut rtt = if have_rtt { srtt.max(latest) } else { 333_000 };
                    if let Some(next) = evs[ei..].iter().find_map(|x| if let Ev::Recovery { srtt, latest, .. } = &x.ev { Some((*srtt).max(*latest)) } else { None }) {
                        rtt = rtt.min(next);
                    }
                    let thresh = (rtt * 9 / 8).max(1_000);
                    // s2n's clock treats deadlines within its 1 ms granularity as elapsed
                    let time_thresh = e.t.saturating_sub(t_sent) + 1_000 > thresh;
                    if !pkt_thresh && !time_thresh {
                        v(out, "loss.unjustified", format!("{} declared packet {} in space {} lost at {} us: largest acked {} (< pn+3), sent {} us ago with loss delay {} us", epn(ep), pn, space, e.t, la, e.t - t_sent, thresh));
                    }
                }
                _ => {}
            }
        }
    }
}

/// bytes-in-flight bookkeeping shared by LOSS (exactness) and SENDGATE (send only below the window)
pub fn mon_inflight(_scn: &Scenario, r: &Record, check_exact: bool, check_gate: bool, out: &mut V) {
    for ep in [CLIENT, SERVER] {
        // which of our packets count as in flight: ack-eliciting or containing PADDING (RFC 9002 2)
        let mut in_flight_kind: HashMap<(u8, u64), bool> = HashMap::new();
        for p in r.tx.iter().filter(|p| p.ep == ep) {
            // s2n-quic accounts a packet as congestion controlled exactly when it carries an ack-eliciting
            // frame; PADDING appended to an ACK-only packet (header-protection sample, stateless-reset
            // indistinguishability) does not make it count.  The monitor follows that definition: the
            // property speaks of "congestion-controlled packets" without fixing the PADDING corner.
            let inflight = p.parse_error.is_none() && p.frames.iter().any(|f| f.ack_eliciting());
            in_flight_kind.insert((p.space, p.pn), inflight);
        }
        let mut outstanding: BTreeMap<(u8, u64), usize> = BTreeMap::new();
        let mut cwnd: Option<u32> = None;
        let mut allow_recovery = 0u32;
        let mut migrated = false;
        // bytes removed by a key-space discard at the current instant: the metrics event emitted while
        // the space is being discarded may still show them
        let mut just_discarded: (u64, usize) = (u64::MAX, 0);
        let retry_times = if ep == CLIENT { retry_accept_times(r) } else { Vec::new() };
        for e in r.events.iter().filter(|e| e.ep == ep) {
            match &e.ev {
                Ev::ActivePathUpdated => migrated = true,
                // RFC 9002 6.3: "Clients that receive a Retry packet reset congestion control and loss
                // recovery state": nothing of the first attempt stays in flight
                Ev::PacketReceived { space: 3, .. } if retry_times.contains(&e.t) => {
                    outstanding.clear();
                }
                Ev::PacketSent { space, pn, len, mode } => {
                    if *space >= 3 || migrated {
                        continue;
                    }
                    let counted = in_flight_kind.get(&(*space, *pn)).copied().unwrap_or(false);
                    if !counted {
                        continue;
                    }
                    let b: usize = outstanding.values().sum();
                    // normal transmissions and MTU probes (mode 2: RFC 8899 probes are ack-eliciting packets under
                    // the sender's congestion control, RFC 9002 7 exempts only PTO probes and the one packet on
                    // entering recovery)
                    if check_gate && (*mode == 0 || *mode == 2) {
                        if let Some(w) = cwnd {
                            if b >= w as usize {
                                if allow_recovery > 0 {
                                    allow_recovery -= 1;
                                } else {
                                    v(out, "sendgate.above_window", format!("{} sent congestion-controlled packet {} (space {}, {} bytes, transmission mode {}) at {} us with {} bytes already in flight and a congestion window of {}", epn(ep), pn, space, len, mode, e.t, b, w));
                                }
                            }
                        }
                    }
                    outstanding.insert((*space, *pn), *len);
                }
                Ev::AckRangeReceived { space, lo, hi } => {
                    if *space < 3 {
                        let keys: Vec<(u8, u64)> = outstanding.range((*space, *lo)..=(*space, *hi)).map(|(k, _)| *k).collect();
                        for k in keys {
                            outstanding.remove(&k);
                        }
                    }
                }
                Ev::PacketLost { space, pn, .. } => {
                    outstanding.remove(&(*space, *pn));
                }
                Ev::KeySpaceDiscarded { space } => {
                    let keys: Vec<(u8, u64)> = outstanding.keys().filter(|k| k.0 == *space).copied().collect();
                    let mut removed = 0usize;
                    for k in keys {
                        removed += outstanding.remove(&k).unwrap_or(0);
                    }
                    just_discarded = if just_discarded.0 == e.t { (e.t, just_discarded.1 + removed) } else { (e.t, removed) };
                }
                Ev::Congestion { .. } => {
                    // RFC 9002 7.3.2: one packet may be sent on entering recovery
                    allow_recovery = 1;
                }
                Ev::Recovery { cwnd: w, bif, .. } => {
                    cwnd = Some(*w);
                    if check_exact && !migrated {
                        let b: usize = outstanding.values().sum();
                        let tolerated = just_discarded.0 == e.t && b <= *bif as usize && *bif as usize <= b + just_discarded.1;
                        if b != *bif as usize && !tolerated {
                            v(out, "loss.bytes_in_flight", format!("{} reports bytes_in_flight {} at {} us but the unresolved congestion-controlled packets add up to {} ({:?})", epn(ep), bif, e.t, b, outstanding.keys().take(8).collect::<Vec<_>>()));
                            return;
                        }
                    }
                }
                _ => {}
            }
        }
    }
}

pub fn mon_sendgate(scn: &Scenario, r: &Record, out: &mut V) {
    mon_inflight(scn, r, false, true, out);
    mon_cc_reductions(scn, r, out);
}

/// CUBIC, end to end: a loss shrinks the window at most once per round trip (RFC 9002 7.3.1: a
/// recovery period starts with the reduction; the loss of a packet that was sent before the period
/// started does not start another one). Read off the endpoint's own metrics events: two decreases of
/// the congestion window at t1 < t2 violate the clause when every packet declared lost at t2 had been
/// sent at or before t1. Decreases to the minimum window (persistent congestion, floor), decreases
/// next to an MTU change, after a migration and anything under BBR are not judged.
fn mon_cc_reductions(scn: &Scenario, r: &Record, out: &mut V) {
    if scn.cc != Cc::Cubic {
        return;
    }
    for ep in [CLIENT, SERVER] {
        let mut sent_at: HashMap<(u8, u64), u64> = HashMap::new();
        let mut cwnd: Option<u32> = None;
        let mut last_reduction: Option<u64> = None;
        let mut lost_now: Vec<(u8, u64)> = Vec::new();
        let mut lost_t = 0u64;
        let mut mtu_t = u64::MAX;
        let mut mds: u32 = 1200;
        for e in r.events.iter().filter(|e| e.ep == ep) {
            match &e.ev {
                Ev::ActivePathUpdated => return,
                Ev::PacketSent { space, pn, .. } => {
                    sent_at.insert((*space, *pn), e.t);
                }
                Ev::MtuUpdated { mtu, .. } => {
                    mtu_t = e.t;
                    mds = *mtu as u32;
                }
                Ev::PacketLost { space, pn, mtu_probe, .. } => {
                    if e.t != lost_t {
                        lost_now.clear();
                        lost_t = e.t;
                    }
                    if !*mtu_probe {
                        lost_now.push((*space, *pn));
                    }
                }
                Ev::Recovery { cwnd: c, path, .. } if *path == 0 => {
                    if let Some(prev) = cwnd {
                        let reduced = *c < prev && e.t != mtu_t && *c > 2 * mds;
                        if reduced {
                            if let Some(t1) = last_reduction {
                                let causes: Vec<&(u8, u64)> = lost_now.iter().filter(|_| lost_t == e.t).collect();
                                if !causes.is_empty() && causes.iter().all(|k| sent_at.get(k).map_or(false, |t| *t <= t1)) && e.t > t1 {
                                    v(out, "cc.second_reduction_in_recovery", format!("{} reduced its congestion window {} -> {} at {} us for the loss of {:?}, all sent at or before its previous reduction at {} us (one recovery period = at most one reduction)", epn(ep), prev, c, e.t, causes, t1));
                                }
                            }
                            last_reduction = Some(e.t);
                        }
                    }
                    cwnd = Some(*c);
                }
                _ => {}
            }
        }
    }
}

// ------------------------------------------------------------------------------------------
// KEYUP (C15, end to end with hook H5)
// ------------------------------------------------------------------------------------------

pub fn mon_keyup(scn: &Scenario, r: &Record, out: &mut V) {
    let mut any = false;
    for ep in [CLIENT, SERVER] {
        let mut last_gen: Option<u64> = None;
        for e in r.events.iter().filter(|e| e.ep == ep) {
            if let Ev::KeyUpdate { key_type } = &e.ev {
                if let Some(g) = field(key_type, "generation") {
                    if let Some(l) = last_gen {
                        if g != l + 1 {
                            v(out, "keyup.generation_order", format!("{} reported 1-RTT key generation {} after {}", epn(ep), g, l));
                        }
                    }
                    if g >= 1 {
                        any = true;
                    }
                    last_gen = Some(g);
                }
            }
        }
    }
    if scn.key_update_every.is_some() && !any && r.panicked.is_none() && r.stalled.is_none() {
        // vacuity guard: the scenario is meant to cross several key updates
        if r.app.iter().any(|a| matches!(a.ev, App::Eof { .. })) {
            v(out, "machinery.keyup_vacuous", "no key update happened in a key-update scenario (hook H5 inactive?)".into());
        }
    }
    // genuine packets keep decrypting across updates: with no corrupting deviation every decryption
    // failure is a genuine packet that could not be read
    let corrupting = r.dgrams.iter().any(|d| !d.delivered_intact || d.from == 2);
    if !corrupting {
        for e in &r.events {
            if let Ev::PacketDropped { reason } = &e.ev {
                // RFC 9001 6.5: old read keys are retained for about one PTO only. A datagram that the
                // schedule delayed (or duplicated late) and that was sent before its sender's latest key
                // update may arrive after the receiver discarded that generation: that is packet loss.
                let sender = other(e.ep);
                let late_old_generation = r.dgrams.iter().any(|d| {
                    d.from == sender
                        && (d.action.starts_with('L') || d.action.starts_with('U'))
                        && d.delivered_at.iter().any(|t| *t == e.t)
                        && r.events.iter().any(|k| k.ep == sender && k.t >= d.t && k.t <= e.t && matches!(&k.ev, Ev::KeyUpdate { key_type } if key_type.contains("OneRtt") && !key_type.contains("generation: 0")))
                });
                if (reason == "DecryptionFailed" || reason == "UnprotectFailed") && !late_old_generation {
                    v(out, "keyup.genuine_packet_undecryptable", format!("{} dropped a genuine packet at {} us: {}", epn(e.ep), e.t, reason));
                }
            }
            if let Ev::Closed { transport_code: Some(c), .. } = &e.ev {
                v(out, "keyup.transport_error", format!("{} closed the connection with transport error {:#x} during key updates", epn(e.ep), c));
            }
        }
    }
    // the AEAD confidentiality limit: packets sent between two updates never exceed N + the update window slack
    if let Some(n) = scn.key_update_every {
        for ep in [CLIENT, SERVER] {
            let mut count = 0u64;
            for e in r.events.iter().filter(|e| e.ep == ep) {
                match &e.ev {
                    Ev::KeyUpdate { key_type } if key_type.contains("OneRtt") => count = 0,
                    Ev::PacketSent { space: 2, .. } => {
                        count += 1;
                        let _ = n;
                    }
                    _ => {}
                }
            }
            let _ = count;
        }
    }
}

// ------------------------------------------------------------------------------------------
// STRAY (C11): replies to datagrams that belong to no connection
// ------------------------------------------------------------------------------------------

pub fn mon_stray(_scn: &Scenario, r: &Record, out: &mut V) {
    for d in r.dgrams.iter().filter(|d| d.from == 2 && d.action == "inject") {
        let port = d.src.port();
        if !(10_000..18_000).contains(&port) || d.delivered_at.is_empty() {
            continue;
        }
        let kind = (port - 10_000) / 2000;
        let size = d.payload.len();
        let replies: Vec<&Dgram> = r.dgrams.iter().filter(|x| x.from == SERVER && x.dst.port() == port && x.dst.ip() == d.src.ip()).collect();
        let total: usize = replies.iter().map(|x| x.payload.len()).sum();
        if replies.len() > 1 {
            v(out, "stray.multiple_replies", format!("stray datagram kind {} of {} bytes got {} replies", kind, size, replies.len()));
        }
        for rep in &replies {
            let rk = wire::datagram_kind(&rep.payload);
            match kind {
                0 => {
                    // unknown connection id, short header: at most a stateless reset, strictly smaller
                    if rep.payload.len() >= size {
                        v(out, "stray.reset_not_smaller", format!("a {}-byte short-header datagram for an unknown connection was answered with {} bytes", size, rep.payload.len()));
                    }
                    if rk != Kind::Short {
                        v(out, "stray.unexpected_reply", format!("a stray short-header datagram was answered with a {:?} packet", rk));
                    }
                }
                1 => {
                    if rk == Kind::VersionNegotiation && size < 1200 {
                        v(out, "stray.vn_for_small_datagram", format!("Version Negotiation sent in reply to a {}-byte datagram (< 1200)", size));
                    }
                    if rep.payload.len() > size {
                        v(out, "stray.reply_larger", format!("a {}-byte datagram with an unknown version was answered with {} bytes", size, rep.payload.len()));
                    }
                }
                2 => {
                    v(out, "stray.reply_to_vn", format!("a Version Negotiation packet of {} bytes was answered with a {:?} packet of {} bytes", size, rk, rep.payload.len()));
                }
                _ => {
                    if rep.payload.len() > size {
                        v(out, "stray.reply_larger", format!("an undersized {}-byte Initial datagram was answered with {} bytes", size, rep.payload.len()));
                    }
                }
            }
        }
        let _ = total;
    }
}

// ------------------------------------------------------------------------------------------
// AUTH (C06): each packet number is processed at most once per space
// ------------------------------------------------------------------------------------------

pub fn mon_auth(_scn: &Scenario, r: &Record, out: &mut V) {
    let mut seen: BTreeSet<(u8, u64, u8, u64)> = BTreeSet::new();
    for p in &r.rx {
        if !seen.insert((p.ep, p.conn, p.space, p.pn)) {
            v(out, "auth.processed_twice", format!("{} processed packet number {} of space {} twice", epn(p.ep), p.pn, p.space));
        }
    }
}

/// what must be identical between a run with forged datagrams and the same run without them:
/// what the applications read, which packets were processed, what was acknowledged, how the
/// connection ended.  (When exactly an endpoint sends its own packets may shift by a fraction of a
/// millisecond because any arriving datagram is a transmission opportunity - not part of C06.)
pub fn observation(r: &Record) -> String {
    let mut s = String::new();
    let mut read_total: BTreeMap<(u8, u64), u64> = BTreeMap::new();
    for a in &r.app {
        match &a.ev {
            App::Read { stream, len, ok, .. } => {
                *read_total.entry((a.ep, *stream)).or_insert(0) += *len as u64;
                if !*ok {
                    s.push_str(&format!("badread{},{};", a.ep, stream));
                }
            }
            App::Write { .. } => {}
            other => s.push_str(&format!("a{},{:?};", a.ep, other)),
        }
    }
    s.push_str(&format!("reads{:?};", read_total));
    // Packets that carry nothing but ACK / PADDING / PING frames are left out: how many of them an
    // endpoint sends depends on when it happens to be woken up (every forged datagram is a wake-up, and
    // the stateless-reset exchanges that forged connection ids set off are hundreds more), which says
    // nothing about what a forged datagram made it *do*; that such packets are never acknowledged unless
    // genuinely sent is mon_auth's clause.
    let bearing = |frames: &Vec<F>| frames.iter().any(|f| !matches!(f, F::Ack { .. } | F::Padding(_) | F::Ping));
    for ep in [CLIENT, SERVER] {
        let mut rx: Vec<(u8, u64)> = r.rx.iter().filter(|p| p.ep == ep && bearing(&p.frames)).map(|p| (p.space, p.pn)).collect();
        rx.sort();
        s.push_str(&format!("rx{}:{:?};", ep, rx));
        let peer_bearing: BTreeSet<(u8, u64)> = r.tx.iter().filter(|p| p.ep == other(ep) && bearing(&p.frames)).map(|p| (p.space, p.pn)).collect();
        let mut acked: BTreeSet<(u8, u64)> = BTreeSet::new();
        let mut ecn_max: [u64; 3] = [0; 3];
        for p in r.tx.iter().filter(|p| p.ep == ep) {
            for f in &p.frames {
                if let F::Ack { ranges, ecn, .. } = f {
                    for (lo, hi) in ranges {
                        for x in *lo..=*hi {
                            if peer_bearing.contains(&(p.space, x)) {
                                acked.insert((p.space, x));
                            }
                        }
                    }
                    if let (Some((a, b, c)), true) = (ecn, (p.space as usize) < 3) {
                        ecn_max[p.space as usize] = ecn_max[p.space as usize].max(a + b + c);
                    }
                }
            }
        }
        s.push_str(&format!("acked{}:{:?};ecn{:?};", ep, acked, ecn_max));
    }
    for e in &r.events {
        if let Ev::Closed { error, .. } = &e.ev {
            s.push_str(&format!("closed{},{};", e.ep, error.split(',').next().unwrap_or("")));
        }
    }
    s
}

// ------------------------------------------------------------------------------------------
// CID (C13, end to end)
// ------------------------------------------------------------------------------------------

pub fn mon_cid(scn: &Scenario, r: &Record, out: &mut V) {
    for ep in [CLIENT, SERVER] {
        // the peer's limit as received by ep
        let limit = received_tp(scn, r, ep).map(|t| t.active_connection_id_limit).unwrap_or(2);
        // issued by ep: seq -> (cid, token); seq 0 is the handshake id
        let mut issued: BTreeMap<u64, (Vec<u8>, [u8; 16])> = BTreeMap::new();
        let mut retired_by_peer: BTreeSet<u64> = BTreeSet::new();
        let mut next_seq = 1u64;
        // ids issued to ep by the peer (from what ep processed)
        let mut peer_issued: BTreeMap<u64, Vec<u8>> = BTreeMap::new();
        for (_t, _, _, item) in timeline(r, ep) {
            match item {
                Item::Rx(p) => {
                    for f in &p.frames {
                        match f {
                            F::RetireConnectionId(seq) => {
                                retired_by_peer.insert(*seq);
                            }
                            F::NewConnectionId { seq, cid, .. } => {
                                peer_issued.insert(*seq, cid.clone());
                            }
                            _ => {}
                        }
                    }
                }
                Item::Tx(p) => {
                    for f in &p.frames {
                        match f {
                            F::NewConnectionId { seq, retire_prior_to, cid, token } => {
                                if retire_prior_to > seq {
                                    v(out, "cid.retire_prior_to", format!("{} sent NEW_CONNECTION_ID seq {} with retire_prior_to {}", epn(ep), seq, retire_prior_to));
                                }
                                match issued.get(seq) {
                                    Some((c, tk)) => {
                                        if c != cid || tk != token {
                                            v(out, "cid.seq_reuse", format!("{} re-sent sequence number {} with a different connection id or token", epn(ep), seq));
                                        }
                                    }
                                    None => {
                                        if *seq != next_seq {
                                            v(out, "cid.seq_consecutive", format!("{} issued sequence number {} when {} was next", epn(ep), seq, next_seq));
                                        }
                                        next_seq = seq + 1;
                                        for (s2, (c, tk)) in &issued {
                                            if c == cid {
                                                v(out, "cid.id_distinct", format!("{} issued the same connection id for sequence numbers {} and {}", epn(ep), s2, seq));
                                            }
                                            if tk == token {
                                                v(out, "cid.token_distinct", format!("{} issued the same stateless reset token for sequence numbers {} and {}", epn(ep), s2, seq));
                                            }
                                        }
                                        issued.insert(*seq, (cid.clone(), *token));
                                        // active ids: issued, not retired by the peer, not being retired by this very frame
                                        let active = (0..=*seq).filter(|s| *s >= *retire_prior_to && !retired_by_peer.contains(s)).count() as u64;
                                        if active > limit {
                                            v(out, "cid.limit", format!("{} issued sequence number {} (retire_prior_to {}) leaving {} unretired connection ids with a peer limit of {}", epn(ep), seq, retire_prior_to, active, limit));
                                        }
                                    }
                                }
                            }
                            F::RetireConnectionId(seq) => {
                                if *seq != 0 && !peer_issued.contains_key(seq) {
                                    v(out, "cid.retire_unissued", format!("{} retired sequence number {} which the peer never issued", epn(ep), seq));
                                }
                            }
                            _ => {}
                        }
                    }
                }
            }
        }
    }
    // RETIRE_CONNECTION_ID must not travel in a packet addressed with the id it retires. The destination
    // connection id of a short-header packet is never protected (bytes 1..17 with the 16-byte ids used
    // here); every 1-RTT packet travels in its own datagram, in order, so the k-th 1-RTT packet an
    // endpoint wrote is the k-th short-header datagram it sent.
    for ep in [CLIENT, SERVER] {
        let peer = other(ep);
        let mut peer_cids: BTreeMap<u64, Vec<u8>> = BTreeMap::new();
        for p in r.tx.iter().filter(|p| p.ep == peer) {
            for f in &p.frames {
                if let F::NewConnectionId { seq, cid, .. } = f {
                    peer_cids.insert(*seq, cid.clone());
                }
            }
        }
        let shorts: Vec<&Dgram> = r.dgrams.iter().filter(|d| d.from == ep && d.payload.len() > 17 && wire::datagram_packet_kinds(&d.payload).last() == Some(&Kind::Short)).collect();
        let pkts: Vec<&Pkt> = r.tx.iter().filter(|p| p.ep == ep && p.space == 2).collect();
        if shorts.len() != pkts.len() {
            // (0-RTT never used here) a mismatch means the order mapping cannot be trusted: skip rather than guess
            continue;
        }
        for (d, p) in shorts.iter().zip(pkts.iter()) {
            // only plain short-header datagrams (no coalesced long header in front)
            if d.payload[0] & 0x80 != 0 {
                continue;
            }
            let dcid = &d.payload[1..17];
            for f in &p.frames {
                if let F::RetireConnectionId(seq) = f {
                    if peer_cids.get(seq).map_or(false, |c| c.as_slice() == dcid) {
                        v(out, "cid.retire_own_dcid", format!("{} sent RETIRE_CONNECTION_ID({}) in packet {} (datagram #{}) whose destination connection id is that very id", epn(ep), seq, p.pn, d.idx));
                    }
                }
            }
        }
    }
    // routing: genuine datagrams are never answered with a stateless reset / dropped as unroutable
    let closed_at = |ep: u8| r.events.iter().filter(|e| e.ep == ep && matches!(e.ev, Ev::Closed { .. })).map(|e| e.t).min().unwrap_or(u64::MAX);
    for e in &r.events {
        // once an endpoint's connection is closed there is nothing left to route to
        if e.t >= closed_at(e.ep) {
            continue;
        }
        match &e.ev {
            Ev::EndpointPacketSent { kind } if kind == "StatelessReset" => {
                v(out, "cid.stateless_reset_for_genuine", format!("{} answered a genuine datagram with a stateless reset at {} us", epn(e.ep), e.t));
            }
            Ev::EndpointDatagramDropped { reason, len } if reason.contains("Unknown") || reason.contains("UnknownDestination") => {
                v(out, "cid.genuine_datagram_unroutable", format!("{} dropped a genuine {}-byte datagram as unroutable ({}) at {} us", epn(e.ep), len, reason, e.t));
            }
            _ => {}
        }
    }
}

// ------------------------------------------------------------------------------------------
// ADV (C04, end to end): one offending packet from an otherwise honest peer
// ------------------------------------------------------------------------------------------

pub fn mon_adv(_scn: &Scenario, r: &Record, adv: &crate::families::Adv, out: &mut V) {
    let cat = crate::families::adv_catalogue();
    let item = &cat[adv.item];
    let victim = other(adv.attacker);
    // was the offending packet written at all, and did the victim process it?
    let marker = r.app.iter().find(|a| matches!(&a.ev, App::TaskDone { name } if name.starts_with("adv-injected")));
    let Some(marker) = marker else {
        return; // the attacker never wrote an n-th packet in that space: nothing was injected in this run
    };
    let (pn, t_inj) = match &marker.ev {
        App::TaskDone { name } => (name.trim_start_matches("adv-injected-").parse::<u64>().unwrap_or(u64::MAX), marker.t),
        _ => return,
    };
    let processed = r.rx.iter().any(|p| p.ep == victim && p.space == adv.space && p.pn == pn);
    if !processed {
        return; // lost / keys gone: the victim never saw it
    }
    let closed = r.events.iter().find(|e| e.ep == victim && matches!(e.ev, Ev::Closed { .. }));
    match closed {
        Some(Event { ev: Ev::Closed { transport_code: Some(code), kind, .. }, t, .. }) if kind == "Transport" => {
            if !item.allowed.contains(code) {
                v(out, "adv.wrong_error_code", format!("{}: victim {} closed with transport error {:#x}, allowed {:x?} ({})", item.name, epn(victim), code, item.allowed, item.rfc));
            }
            let _ = t;
        }
        Some(Event { ev: Ev::Closed { error, .. }, t, .. }) => {
            // closed for another reason after the injection (e.g. the attacker's own honest close) is not a rejection
            if *t >= t_inj {
                v(out, "adv.not_rejected", format!("{}: victim {} processed the offending packet (space {}, pn {}) but the connection ended with {} instead of a transport error ({})", item.name, epn(victim), adv.space, pn, error.chars().take(80).collect::<String>(), item.rfc));
            }
        }
        _ => {
            v(out, "adv.not_rejected", format!("{}: victim {} processed the offending packet (space {}, pn {}) and never closed the connection ({})", item.name, epn(victim), adv.space, pn, item.rfc));
        }
    }
    // none of the offending data reaches the application: every read still matches the honest PRF stream
    for a in r.app.iter().filter(|a| a.ep == victim) {
        if let App::Read { stream, ok: false, first_bad, .. } = &a.ev {
            v(out, "adv.offending_data_delivered", format!("{}: victim {} read bytes on stream {} that the honest script never wrote (offset {:?})", item.name, epn(victim), stream, first_bad));
        }
    }
}

fn crate_tp_varint(b: &[u8], p: &mut usize) -> Option<u64> {
    let first = *b.get(*p)?;
    let len = 1usize << (first >> 6);
    let mut v = (first & 0x3f) as u64;
    for i in 1..len {
        v = (v << 8) | *b.get(*p + i)? as u64;
    }
    *p += len;
    Some(v)
}

// ------------------------------------------------------------------------------------------
// TPE2E (C14, end to end): edited transport-parameter blocks
// ------------------------------------------------------------------------------------------

pub fn mon_tpe2e(scn: &Scenario, r: &Record, out: &mut V) {
    let Some((who, edit)) = &scn.tp_edit else { return };
    let victim = other(*who);
    let with_retry = scn.retry != crate::scenario::Retry::Off;
    let item = crate::families::tp_catalogue().into_iter().find(|i| &i.edit == edit && i.retry == with_retry);
    let Some(item) = item else { return };
    if item.retry && retry_view(r).accepted.is_empty() && r.panicked.is_none() {
        v(out, "machinery.retry_vacuous", format!("{}: no Retry was taken over by the client in an after-Retry item", item.name));
    }
    let closed = r.events.iter().find(|e| e.ep == victim && matches!(e.ev, Ev::Closed { .. }));
    let victim_read_data = r.app.iter().any(|a| a.ep == victim && matches!(a.ev, App::Read { .. }));
    if item.accept {
        if let Some(Event { ev: Ev::Closed { transport_code: Some(code), .. }, .. }) = closed {
            v(out, "tpe2e.valid_block_rejected", format!("{}: the {} closed with transport error {:#x} although RFC 9000 18.2 permits the block", item.name, epn(victim), code));
        }
    } else {
        // TRANSPORT_PARAMETER_ERROR, or a generic code RFC 9000 11 permits in its place
        const ALLOWED: [u64; 3] = [0x08, 0x0a, 0x01];
        match closed {
            Some(Event { ev: Ev::Closed { transport_code: Some(code), .. }, .. }) => {
                if !ALLOWED.contains(code) {
                    v(out, "tpe2e.wrong_error_code", format!("{}: the {} rejected the block with transport error {:#x} (allowed: TRANSPORT_PARAMETER_ERROR or a generic code)", item.name, epn(victim), code));
                }
            }
            _ => {
                if r.events.iter().any(|e| e.ep == victim && matches!(e.ev, Ev::TransportParametersReceived { .. })) || handshake_done(r, victim) {
                    v(out, "tpe2e.invalid_block_accepted", format!("{}: the {} accepted a transport-parameter block that RFC 9000 7.4/18.2 declare invalid (handshake done: {})", item.name, epn(victim), handshake_done(r, victim)));
                }
            }
        }
        if victim_read_data {
            v(out, "tpe2e.data_after_invalid_block", format!("{}: the {}'s application received stream data on a connection whose transport parameters are invalid", item.name, epn(victim)));
        }
    }
}

// The harness-owned network: one decision per datagram, default "deliver after the base delay".
#![allow(dead_code)]
use crate::record::{now_us, Dgram, Rec, CLIENT, SERVER};
use s2n_quic::provider::io::testing::{
    network::{Buffers, Network, Packet},
    spawn,
    time::delay_until,
    Socket,
};
use std::collections::BTreeMap;
use std::net::SocketAddr;
use std::sync::{Arc, Mutex};
use std::time::Duration;

#[derive(Clone, Debug, PartialEq, Eq, PartialOrd, Ord)]
pub enum Action {
    Deliver,
    Drop,
    /// deliver twice, the copy `extra_us` later
    Dup(u64),
    /// deliver after `mult` x base delay (arrives after the next flight)
    Delay(u32),
    /// xor one byte: 0 = first byte, 1 = middle, 2 = last; mask
    Corrupt(u8, u8),
    /// keep only the first half
    Truncate,
    /// drop this and every later datagram in direction: 0 = client->server, 1 = server->client, 2 = both
    BlackholeFrom(u8),
    /// same, but only for the given number of milliseconds
    BlackholeFor(u8, u32),
    /// deliver, then the client's socket rebinds to a new address
    RebindClient,
    /// hold the genuine datagram back by 20 ms; with forging enabled, deliver forged variants of it
    /// (claiming the genuine source address) during those 20 ms: 0 = every single-byte mutation
    /// (x ^01/^80/^ff), 1 = every truncation, 2 = 64 garbage datagrams of the same size,
    /// 3 = splices with the previous datagram of the same direction at every 16th cut point
    Forge(u8),
}

impl Action {
    pub fn code(&self) -> String {
        match self {
            Action::Deliver => "-".into(),
            Action::Drop => "D".into(),
            Action::Dup(us) => format!("U{}", us),
            Action::Delay(m) => format!("L{}", m),
            Action::Corrupt(w, m) => format!("C{}:{}", w, m),
            Action::Truncate => "T".into(),
            Action::BlackholeFrom(d) => format!("B{}", d),
            Action::BlackholeFor(d, ms) => format!("H{}:{}", d, ms),
            Action::RebindClient => "R".into(),
            Action::Forge(k) => format!("F{}", k),
        }
    }
    pub fn parse(s: &str) -> Option<Action> {
        let (h, t) = s.split_at(1);
        Some(match h {
            "-" => Action::Deliver,
            "D" => Action::Drop,
            "U" => Action::Dup(t.parse().ok()?),
            "L" => Action::Delay(t.parse().ok()?),
            "C" => {
                let (a, b) = t.split_once(':')?;
                Action::Corrupt(a.parse().ok()?, b.parse().ok()?)
            }
            "T" => Action::Truncate,
            "B" => Action::BlackholeFrom(t.parse().ok()?),
            "H" => {
                let (a, b) = t.split_once(':')?;
                Action::BlackholeFor(a.parse().ok()?, b.parse().ok()?)
            }
            "R" => Action::RebindClient,
            "F" => Action::Forge(t.parse().ok()?),
            _ => return None,
        })
    }
}

pub type Schedule = Vec<(u32, Action)>;

pub fn schedule_string(s: &Schedule) -> String {
    s.iter().map(|(i, a)| format!("{}{}", i, a.code())).collect::<Vec<_>>().join(",")
}

pub fn parse_schedule(s: &str) -> Option<Schedule> {
    let mut out = Vec::new();
    for part in s.split(',') {
        if part.is_empty() {
            continue;
        }
        let pos = part.find(|c: char| !c.is_ascii_digit())?;
        let idx: u32 = part[..pos].parse().ok()?;
        out.push((idx, Action::parse(&part[pos..])?));
    }
    Some(out)
}

/// a datagram the harness injects itself (forgeries, strays): delivered to `dst` claiming `src`
#[derive(Clone, Debug)]
pub struct Inject {
    /// inject immediately before the datagram with this index is handled
    pub before_idx: u32,
    pub to: u8,
    pub payload: Vec<u8>,
    /// pretend to come from the genuine peer (true) or from an unrelated address (false)
    pub from_peer: bool,
    /// source port of the unrelated address (replies are matched on it)
    pub src_port: u16,
}

pub struct NetShared {
    pub schedule: BTreeMap<u32, Action>,
    pub injects: Vec<Inject>,
    pub next_idx: u32,
    pub base_delay: Duration,
    pub blackhole: [Option<u64>; 2], // per direction: until time (u64::MAX = forever)
    pub client_addr: Option<SocketAddr>,
    pub server_addr: Option<SocketAddr>,
    pub client_socket: Option<Socket>,
    pub rebinds: u32,
    pub schedule_errors: Vec<String>,
    pub mtu: usize,
    /// false = differential baseline: Forge actions only delay the genuine datagram
    pub forge_enabled: bool,
    pub last_payload: [Option<Vec<u8>>; 2],
    pub forged: u64,
}

pub struct ChoiceNet {
    pub shared: Arc<Mutex<NetShared>>,
    pub rec: Rec,
}

impl ChoiceNet {
    pub fn new(schedule: &Schedule, injects: Vec<Inject>, base_delay: Duration, mtu: usize, rec: Rec) -> ChoiceNet {
        let shared = NetShared {
            schedule: schedule.iter().cloned().collect(),
            injects,
            next_idx: 0,
            base_delay,
            blackhole: [None, None],
            client_addr: None,
            server_addr: None,
            client_socket: None,
            rebinds: 0,
            schedule_errors: Vec::new(),
            mtu,
            forge_enabled: true,
            last_payload: [None, None],
            forged: 0,
        };
        ChoiceNet { shared: Arc::new(Mutex::new(shared)), rec }
    }
}

fn deliver(buffers: &Buffers, mut packet: Packet, at_us: u64, now: u64, rec: &Rec, idx: usize) {
    packet.switch();
    let buffers = buffers.clone();
    let rec = rec.clone();
    let when = s2n_quic::provider::io::testing::time::now() + Duration::from_micros(at_us - now);
    spawn(async move {
        if at_us != now {
            delay_until(when).await;
        }
        let t = now_us();
        buffers.rx(*packet.path.local_address, |queue| {
            queue.enqueue(packet);
        });
        if let Some(d) = rec.0.lock().unwrap().dgrams.get_mut(idx) {
            d.delivered_at.push(t);
        }
    });
}

impl Network for ChoiceNet {
    fn execute(&mut self, buffers: &Buffers) -> usize {
        let mut packets: Vec<Packet> = Vec::new();
        buffers.drain_pending_transmissions(|p| {
            packets.push(p);
            Ok(())
        });
        if packets.is_empty() {
            return 0;
        }
        // canonical order: by source address (the per-source order is already FIFO)
        packets.sort_by_key(|p| {
            let a: SocketAddr = p.path.local_address.0.into();
            a
        });
        let now = now_us();
        let mut sh = self.shared.lock().unwrap();
        let base = sh.base_delay.as_micros() as u64;
        let mut count = 0;
        for packet in packets {
            let src: SocketAddr = packet.path.local_address.0.into();
            let dst: SocketAddr = packet.path.remote_address.0.into();
            let from = if Some(src) == sh.server_addr { SERVER } else { CLIENT };
            let dir = if from == CLIENT { 0usize } else { 1usize };
            let idx = sh.next_idx;
            sh.next_idx += 1;

            // harness injections scheduled before this datagram
            let inj: Vec<Inject> = sh.injects.iter().filter(|i| i.before_idx == idx).cloned().collect();
            for i in inj {
                let (to_addr, peer_addr) = if i.to == SERVER { (sh.server_addr, sh.client_addr) } else { (sh.client_addr, sh.server_addr) };
                if let (Some(to_addr), Some(peer_addr)) = (to_addr, peer_addr) {
                    let claimed: SocketAddr = if i.from_peer { peer_addr } else { SocketAddr::new("9.9.9.9".parse().unwrap(), i.src_port) };
                    let mut p = packet.clone();
                    p.payload = i.payload.clone();
                    // `deliver` switches: build the packet as if sent by `claimed` to `to_addr`
                    p.path.local_address = s2n_quic_core::inet::SocketAddress::from(claimed).into();
                    p.path.remote_address = s2n_quic_core::inet::SocketAddress::from(to_addr).into();
                    let ridx = {
                        let mut r = self.rec.0.lock().unwrap();
                        r.dgrams.push(Dgram { idx: u32::MAX, t: now, from: 2, src: claimed, dst: to_addr, payload: i.payload.clone(), action: "inject".into(), delivered_at: vec![], delivered_len: i.payload.len(), delivered_intact: true });
                        r.dgrams.len() - 1
                    };
                    deliver(buffers, p, now + base, now, &self.rec, ridx);
                    count += 1;
                }
            }

            let mut action = sh.schedule.get(&idx).cloned().unwrap_or(Action::Deliver);
            // MTU-drop: the network silently drops what exceeds its MTU
            let over_mtu = packet.payload.len() > sh.mtu;
            // blackholes in force
            let bh = sh.blackhole[dir].map_or(false, |until| now < until);
            let mut label = action.code();
            match action {
                Action::BlackholeFrom(d) => {
                    for x in 0..2 {
                        if d == 2 || d as usize == x {
                            sh.blackhole[x] = Some(u64::MAX);
                        }
                    }
                    action = if d == 2 || d as usize == dir { Action::Drop } else { Action::Deliver };
                }
                Action::BlackholeFor(d, ms) => {
                    for x in 0..2 {
                        if d == 2 || d as usize == x {
                            sh.blackhole[x] = Some(now + ms as u64 * 1000);
                        }
                    }
                    action = if d == 2 || d as usize == dir { Action::Drop } else { Action::Deliver };
                }
                _ => {}
            }
            if bh {
                action = Action::Drop;
                label = "bh".into();
            }
            if over_mtu {
                action = Action::Drop;
                label = "mtu".into();
            }
            let prev_payload = std::mem::replace(&mut sh.last_payload[dir], Some(packet.payload.clone()));
            let mut d = Dgram { idx, t: now, from, src, dst, payload: packet.payload.clone(), action: label, delivered_at: vec![], delivered_len: packet.payload.len(), delivered_intact: true };
            let ridx = {
                let r = self.rec.0.lock().unwrap();
                r.dgrams.len()
            };
            match action {
                Action::Deliver | Action::BlackholeFrom(_) | Action::BlackholeFor(..) => {
                    self.rec.0.lock().unwrap().dgrams.push(d);
                    deliver(buffers, packet, now + base, now, &self.rec, ridx);
                }
                Action::Drop => {
                    d.delivered_len = 0;
                    self.rec.0.lock().unwrap().dgrams.push(d);
                }
                Action::Dup(extra) => {
                    self.rec.0.lock().unwrap().dgrams.push(d);
                    deliver(buffers, packet.clone(), now + base, now, &self.rec, ridx);
                    deliver(buffers, packet, now + base + extra, now, &self.rec, ridx);
                }
                Action::Delay(m) => {
                    self.rec.0.lock().unwrap().dgrams.push(d);
                    deliver(buffers, packet, now + base * m as u64, now, &self.rec, ridx);
                }
                Action::Corrupt(which, mask) => {
                    let mut p = packet;
                    if !p.payload.is_empty() {
                        let pos = match which {
                            0 => 0,
                            1 => p.payload.len() / 2,
                            _ => p.payload.len() - 1,
                        };
                        p.payload[pos] ^= mask;
                    }
                    d.delivered_intact = false;
                    self.rec.0.lock().unwrap().dgrams.push(d);
                    deliver(buffers, p, now + base, now, &self.rec, ridx);
                }
                Action::Truncate => {
                    let mut p = packet;
                    let n = p.payload.len() / 2;
                    p.payload.truncate(n);
                    d.delivered_intact = false;
                    d.delivered_len = n;
                    self.rec.0.lock().unwrap().dgrams.push(d);
                    deliver(buffers, p, now + base, now, &self.rec, ridx);
                }
                Action::Forge(kind) => {
                    self.rec.0.lock().unwrap().dgrams.push(d);
                    let genuine = packet.payload.clone();
                    let mut forgeries: Vec<Vec<u8>> = Vec::new();
                    // a datagram that coalesces several QUIC packets is not one authenticated unit: a
                    // mutation that leaves one of its packets intact merely replays that genuine packet
                    // early.  Mutations / truncations / splices are therefore only made of single-packet
                    // datagrams; coalesced ones get the garbage variant.
                    let kind = if crate::wire::datagram_packet_kinds(&genuine).len() > 1 { 2 } else { kind };
                    // splices need a single-packet previous datagram of the same direction (a prefix of a
                    // coalesced one that keeps its first packet intact delivers that genuine packet)
                    let splice_ok = prev_payload.as_ref().map_or(false, |p| crate::wire::datagram_packet_kinds(p).len() <= 1);
                    let kind = if kind == 3 && !splice_ok { 2 } else { kind };
                    if sh.forge_enabled {
                        match kind {
                            0 => {
                                // every single bit of the header region (first byte incl. the reserved and
                                // key-phase bits, connection id, packet number, first payload bytes), three
                                // masks per byte for the rest
                                for pos in 0..genuine.len() {
                                    let masks: &[u8] = if pos < 32 { &[0x01, 0x02, 0x04, 0x08, 0x10, 0x20, 0x40, 0x80, 0xff] } else { &[0x01, 0x80, 0xff] };
                                    for mask in masks {
                                        let mut f = genuine.clone();
                                        f[pos] ^= *mask;
                                        forgeries.push(f);
                                    }
                                }
                            }
                            1 => {
                                for len in 0..genuine.len() {
                                    forgeries.push(genuine[..len].to_vec());
                                }
                            }
                            2 => {
                                for k in 0..64u64 {
                                    let mut f = vec![0u8; genuine.len()];
                                    crate::mccore::prf_fill(0xF0 ^ k, idx as u64, &mut f);
                                    // keep the header form of the genuine packet so that it is routed to the connection
                                    f[0] = (f[0] & 0x3f) | (genuine[0] & 0xc0);
                                    let keep = genuine.len().min(if genuine[0] & 0x80 != 0 { 6 } else { 17 });
                                    if k % 2 == 0 {
                                        f[..keep].copy_from_slice(&genuine[..keep]);
                                    }
                                    forgeries.push(f);
                                }
                            }
                            _ => {
                                if let Some(prev) = prev_payload.clone() {
                                    let n = genuine.len().min(prev.len());
                                    let mut cut = 1;
                                    while cut < n {
                                        let mut f = prev[..cut].to_vec();
                                        f.extend_from_slice(&genuine[cut..]);
                                        if f != genuine && f != prev {
                                            forgeries.push(f);
                                        }
                                        let mut g = genuine[..cut].to_vec();
                                        g.extend_from_slice(&prev[cut..]);
                                        if g != genuine && g != prev {
                                            forgeries.push(g);
                                        }
                                        cut += 16;
                                    }
                                }
                            }
                        }
                    }
                    // spread over the 20 ms so that the receive queue (1024 packets) never overflows
                    let total = forgeries.len().max(1) as u64;
                    for (k, f) in forgeries.into_iter().enumerate() {
                        let mut p = packet.clone();
                        p.payload = f;
                        let at = now + base + (k as u64 * 19_000) / total;
                        let ridx = {
                            let mut r = self.rec.0.lock().unwrap();
                            r.dgrams.push(Dgram { idx: u32::MAX, t: now, from: 2, src, dst, payload: Vec::new(), action: "forged".into(), delivered_at: vec![], delivered_len: p.payload.len(), delivered_intact: false });
                            r.dgrams.len() - 1
                        };
                        sh.forged += 1;
                        deliver(buffers, p, at, now, &self.rec, ridx);
                    }
                    deliver(buffers, packet, now + base + 20_000, now, &self.rec, ridx);
                }
                Action::RebindClient => {
                    self.rec.0.lock().unwrap().dgrams.push(d);
                    deliver(buffers, packet, now + base, now, &self.rec, ridx);
                    sh.rebinds += 1;
                    if let (Some(sock), Some(addr)) = (sh.client_socket.clone(), sh.client_addr) {
                        // alternate between the original address A and one other address B: the second
                        // rebind returns to the (validated) first path
                        let mut new = addr;
                        if sh.rebinds % 2 == 1 {
                            new.set_port(addr.port().wrapping_add(100));
                        } else {
                            new.set_port(addr.port().wrapping_sub(100));
                        }
                        sock.rebind(new);
                        sh.client_addr = Some(new);
                    }
                }
            }
            count += 1;
        }
        count
    }
}

// What one execution exposes: datagrams, clear-text frames (tx/rx interceptors), events,
// application log.  Monitors are pure functions over this record.
#![allow(dead_code)]
use crate::wire::{self, F};
use s2n_quic::provider::event::{self, events};
use s2n_quic_core::packet::interceptor::{Datagram, Interceptor, Packet};
use std::sync::{Arc, Mutex};

pub const CLIENT: u8 = 0;
pub const SERVER: u8 = 1;

pub fn now_us() -> u64 {
    let t = s2n_quic::provider::io::testing::time::now();
    (unsafe { t.as_duration() }).as_micros() as u64
}

#[derive(Clone, Debug)]
pub struct Dgram {
    pub idx: u32,
    pub t: u64,
    /// endpoint that sent it (CLIENT / SERVER), 2 = injected by the harness
    pub from: u8,
    pub src: std::net::SocketAddr,
    pub dst: std::net::SocketAddr,
    pub payload: Vec<u8>,
    pub action: String,
    /// delivery times (after the action was applied); empty = never delivered
    pub delivered_at: Vec<u64>,
    pub delivered_len: usize,
    pub delivered_intact: bool,
}

#[derive(Clone, Debug)]
pub struct Pkt {
    pub t: u64,
    pub ep: u8,
    pub conn: u64,
    pub space: u8,
    pub pn: u64,
    pub frames: Vec<F>,
    pub parse_error: Option<String>,
    pub raw_len: usize,
}

#[derive(Clone, Debug)]
pub enum Ev {
    PacketSent { space: u8, pn: u64, len: usize, mode: u8 },
    PacketLost { space: u8, pn: u64, bytes: u16, mtu_probe: bool },
    AckRangeReceived { space: u8, lo: u64, hi: u64 },
    Recovery { min_rtt: u64, srtt: u64, latest: u64, rttvar: u64, max_ack_delay: u64, pto_count: u32, cwnd: u32, bif: u32, limited: bool, path: u64 },
    Congestion { source: String },
    Closed { error: String, transport_code: Option<u64>, kind: String },
    KeyUpdate { key_type: String },
    KeySpaceDiscarded { space: u8 },
    HandshakeStatus { status: String },
    PacketDropped { reason: String },
    DuplicatePacket { space: u8, pn: u64 },
    DatagramDropped { reason: String, len: u16 },
    EndpointDatagramDropped { reason: String, len: u16 },
    PacketReceived { space: u8, pn: u64, len: usize },
    TransportParametersReceived { text: String },
    MtuUpdated { mtu: u16, cause: String },
    ConnectionStarted,
    ActivePathUpdated,
    SlowStartExited { cwnd: u32 },
    EndpointPacketSent { kind: String },
}

#[derive(Clone, Debug)]
pub struct Event {
    pub t: u64,
    pub ep: u8,
    pub conn: u64,
    pub ev: Ev,
}

#[derive(Clone, Debug)]
pub enum App {
    Connected,
    ConnectError(String),
    Accepted,
    StreamOpened { stream: u64 },
    StreamAccepted { stream: u64 },
    OpenError(String),
    Write { stream: u64, off: u64, len: usize },
    WriteError { stream: u64, off: u64, err: String },
    Finish { stream: u64, total: u64 },
    FinishError { stream: u64, err: String },
    Reset { stream: u64, at: u64 },
    StopSending { stream: u64 },
    Read { stream: u64, off: u64, len: usize, ok: bool, first_bad: Option<u64> },
    Eof { stream: u64, total: u64 },
    ReadError { stream: u64, off: u64, err: String },
    Close,
    TaskDone { name: String },
    TaskTimeout { name: String },
}

#[derive(Clone, Debug)]
pub struct AppEv {
    pub t: u64,
    pub ep: u8,
    pub ev: App,
}

#[derive(Default, Debug)]
pub struct Record {
    pub dgrams: Vec<Dgram>,
    pub tx: Vec<Pkt>,
    pub rx: Vec<Pkt>,
    pub events: Vec<Event>,
    pub app: Vec<AppEv>,
    pub stalled: Option<String>,
    pub panicked: Option<String>,
    pub end_t: u64,
}

#[derive(Clone, Default)]
pub struct Rec(pub Arc<Mutex<Record>>);

impl Rec {
    pub fn app(&self, ep: u8, ev: App) {
        let t = now_us();
        self.0.lock().unwrap().app.push(AppEv { t, ep, ev });
    }
    pub fn event(&self, ep: u8, conn: u64, ev: Ev) {
        let t = now_us();
        self.0.lock().unwrap().events.push(Event { t, ep, conn, ev });
    }
}

// ------------------------------------------------------------------------------------------
// packet interceptor: clear-text payloads
// ------------------------------------------------------------------------------------------

/// a rewrite of the clear-text payload of one outgoing packet (adversarial-peer families)
pub type TxRewrite = Box<dyn FnMut(u8, u64, &[u8]) -> Option<Vec<u8>> + Send>;

pub struct Tap {
    pub ep: u8,
    pub rec: Rec,
    pub rewrite: Option<TxRewrite>,
}

fn space_of(p: &Packet) -> u8 {
    use s2n_quic_core::packet::number::PacketNumberSpace as S;
    match p.number.space() {
        S::Initial => 0,
        S::Handshake => 1,
        S::ApplicationData => 2,
    }
}

fn conn_of(subject: &s2n_quic_core::event::api::Subject) -> u64 {
    match subject {
        s2n_quic_core::event::api::Subject::Connection { id, .. } => *id,
        _ => u64::MAX,
    }
}

impl Interceptor for Tap {
    fn intercept_rx_payload<'a>(
        &mut self,
        subject: &s2n_quic_core::event::api::Subject,
        packet: &Packet,
        payload: s2n_codec::DecoderBufferMut<'a>,
    ) -> s2n_codec::DecoderBufferMut<'a> {
        let slice = payload.into_less_safe_slice();
        let (frames, parse_error) = match wire::parse_frames(slice) {
            Ok(f) => (f, None),
            Err(e) => (Vec::new(), Some(e)),
        };
        let pkt = Pkt { t: now_us(), ep: self.ep, conn: conn_of(subject), space: space_of(packet), pn: packet.number.as_u64(), frames, parse_error, raw_len: slice.len() };
        self.rec.0.lock().unwrap().rx.push(pkt);
        s2n_codec::DecoderBufferMut::new(slice)
    }

    fn intercept_tx_payload(&mut self, subject: &s2n_quic_core::event::api::Subject, packet: &Packet, payload: &mut s2n_codec::encoder::scatter::Buffer) {
        let buf = payload.flatten();
        let space = space_of(packet);
        let pn = packet.number.as_u64();
        if let Some(rw) = self.rewrite.as_mut() {
            let (written, _) = buf.split_mut();
            let orig = written.to_vec();
            if let Some(new) = rw(space, pn, &orig) {
                // only same-or-shorter rewrites fit without knowing the capacity; longer ones are
                // allowed up to the remaining capacity
                let cap = {
                    let (w, r) = buf.split_mut();
                    w.len() + r.len()
                };
                if new.len() <= cap {
                    buf.set_position(0);
                    let (_, rest) = buf.split_mut();
                    rest[..new.len()].copy_from_slice(&new);
                    buf.set_position(new.len());
                    self.rec.app(self.ep, App::TaskDone { name: format!("adv-injected-{}", pn) });
                }
            }
        }
        let (written, _) = buf.split_mut();
        let (frames, parse_error) = match wire::parse_frames(written) {
            Ok(f) => (f, None),
            Err(e) => (Vec::new(), Some(e)),
        };
        let pkt = Pkt { t: now_us(), ep: self.ep, conn: conn_of(subject), space, pn, frames, parse_error, raw_len: written.len() };
        self.rec.0.lock().unwrap().tx.push(pkt);
    }

    fn intercept_rx_datagram<'a>(
        &mut self,
        _subject: &s2n_quic_core::event::api::Subject,
        _datagram: &Datagram,
        payload: s2n_codec::DecoderBufferMut<'a>,
    ) -> s2n_codec::DecoderBufferMut<'a> {
        payload
    }
}

// ------------------------------------------------------------------------------------------
// event subscriber
// ------------------------------------------------------------------------------------------

pub struct Sub {
    pub ep: u8,
    pub rec: Rec,
}

fn hdr(h: &events::PacketHeader) -> (u8, u64) {
    match h {
        events::PacketHeader::Initial { number, .. } => (0, *number),
        events::PacketHeader::Handshake { number, .. } => (1, *number),
        events::PacketHeader::ZeroRtt { number, .. } => (2, *number),
        events::PacketHeader::OneRtt { number, .. } => (2, *number),
        _ => (3, 0),
    }
}

fn keyspace(s: &events::KeySpace) -> u8 {
    match s {
        events::KeySpace::Initial { .. } => 0,
        events::KeySpace::Handshake { .. } => 1,
        events::KeySpace::ZeroRtt { .. } => 4,
        events::KeySpace::OneRtt { .. } => 2,
        _ => 9,
    }
}

fn variant_name<T: std::fmt::Debug>(t: &T) -> String {
    let s = format!("{:?}", t);
    s.split(|c: char| !(c.is_alphanumeric() || c == '_')).next().unwrap_or("").to_string()
}

impl event::Subscriber for Sub {
    type ConnectionContext = ();

    fn create_connection_context(&mut self, _meta: &events::ConnectionMeta, _info: &events::ConnectionInfo) -> Self::ConnectionContext {}

    fn on_packet_sent(&mut self, _c: &mut (), meta: &events::ConnectionMeta, e: &events::PacketSent) {
        let (space, pn) = hdr(&e.packet_header);
        let mode = match e.transmission_mode {
            events::TransmissionMode::Normal { .. } => 0,
            events::TransmissionMode::LossRecoveryProbing { .. } => 1,
            events::TransmissionMode::MtuProbing { .. } => 2,
            events::TransmissionMode::PathValidationOnly { .. } => 3,
            _ => 9,
        };
        self.rec.event(self.ep, meta.id, Ev::PacketSent { space, pn, len: e.packet_len, mode });
    }
    fn on_packet_received(&mut self, _c: &mut (), meta: &events::ConnectionMeta, e: &events::PacketReceived) {
        let (space, pn) = hdr(&e.packet_header);
        self.rec.event(self.ep, meta.id, Ev::PacketReceived { space, pn, len: e.packet_len });
    }
    fn on_packet_lost(&mut self, _c: &mut (), meta: &events::ConnectionMeta, e: &events::PacketLost) {
        let (space, pn) = hdr(&e.packet_header);
        self.rec.event(self.ep, meta.id, Ev::PacketLost { space, pn, bytes: e.bytes_lost, mtu_probe: e.is_mtu_probe });
    }
    fn on_ack_range_received(&mut self, _c: &mut (), meta: &events::ConnectionMeta, e: &events::AckRangeReceived) {
        let (space, _) = hdr(&e.packet_header);
        self.rec.event(self.ep, meta.id, Ev::AckRangeReceived { space, lo: *e.ack_range.start(), hi: *e.ack_range.end() });
    }
    fn on_recovery_metrics(&mut self, _c: &mut (), meta: &events::ConnectionMeta, e: &events::RecoveryMetrics) {
        self.rec.event(
            self.ep,
            meta.id,
            Ev::Recovery {
                min_rtt: e.min_rtt.as_micros() as u64,
                srtt: e.smoothed_rtt.as_micros() as u64,
                latest: e.latest_rtt.as_micros() as u64,
                rttvar: e.rtt_variance.as_micros() as u64,
                max_ack_delay: e.max_ack_delay.as_micros() as u64,
                pto_count: e.pto_count,
                cwnd: e.congestion_window,
                bif: e.bytes_in_flight,
                limited: e.congestion_limited,
                path: e.path.id,
            },
        );
    }
    fn on_congestion(&mut self, _c: &mut (), meta: &events::ConnectionMeta, e: &events::Congestion) {
        self.rec.event(self.ep, meta.id, Ev::Congestion { source: variant_name(&e.source) });
    }
    fn on_connection_closed(&mut self, _c: &mut (), meta: &events::ConnectionMeta, e: &events::ConnectionClosed) {
        let (kind, code) = classify_error(&e.error);
        self.rec.event(self.ep, meta.id, Ev::Closed { error: format!("{:?}", e.error), transport_code: code, kind });
    }
    fn on_key_update(&mut self, _c: &mut (), meta: &events::ConnectionMeta, e: &events::KeyUpdate) {
        self.rec.event(self.ep, meta.id, Ev::KeyUpdate { key_type: format!("{:?}", e.key_type) });
    }
    fn on_key_space_discarded(&mut self, _c: &mut (), meta: &events::ConnectionMeta, e: &events::KeySpaceDiscarded) {
        self.rec.event(self.ep, meta.id, Ev::KeySpaceDiscarded { space: keyspace(&e.space) });
    }
    fn on_handshake_status_updated(&mut self, _c: &mut (), meta: &events::ConnectionMeta, e: &events::HandshakeStatusUpdated) {
        self.rec.event(self.ep, meta.id, Ev::HandshakeStatus { status: variant_name(&e.status) });
    }
    fn on_packet_dropped(&mut self, _c: &mut (), meta: &events::ConnectionMeta, e: &events::PacketDropped) {
        self.rec.event(self.ep, meta.id, Ev::PacketDropped { reason: variant_name(&e.reason) });
    }
    fn on_duplicate_packet(&mut self, _c: &mut (), meta: &events::ConnectionMeta, e: &events::DuplicatePacket) {
        let (space, pn) = hdr(&e.packet_header);
        self.rec.event(self.ep, meta.id, Ev::DuplicatePacket { space, pn });
    }
    fn on_datagram_dropped(&mut self, _c: &mut (), meta: &events::ConnectionMeta, e: &events::DatagramDropped) {
        self.rec.event(self.ep, meta.id, Ev::DatagramDropped { reason: variant_name(&e.reason), len: e.len });
    }
    fn on_endpoint_datagram_dropped(&mut self, _meta: &events::EndpointMeta, e: &events::EndpointDatagramDropped) {
        self.rec.event(self.ep, u64::MAX, Ev::EndpointDatagramDropped { reason: variant_name(&e.reason), len: e.len });
    }
    fn on_endpoint_packet_sent(&mut self, _meta: &events::EndpointMeta, e: &events::EndpointPacketSent) {
        self.rec.event(self.ep, u64::MAX, Ev::EndpointPacketSent { kind: variant_name(&e.packet_header) });
    }
    fn on_transport_parameters_received(&mut self, _c: &mut (), meta: &events::ConnectionMeta, e: &events::TransportParametersReceived) {
        self.rec.event(self.ep, meta.id, Ev::TransportParametersReceived { text: format!("{:?}", e.transport_parameters) });
    }
    fn on_mtu_updated(&mut self, _c: &mut (), meta: &events::ConnectionMeta, e: &events::MtuUpdated) {
        self.rec.event(self.ep, meta.id, Ev::MtuUpdated { mtu: e.mtu, cause: variant_name(&e.cause) });
    }
    fn on_connection_started(&mut self, _c: &mut (), meta: &events::ConnectionMeta, _e: &events::ConnectionStarted) {
        self.rec.event(self.ep, meta.id, Ev::ConnectionStarted);
    }
    fn on_active_path_updated(&mut self, _c: &mut (), meta: &events::ConnectionMeta, _e: &events::ActivePathUpdated) {
        self.rec.event(self.ep, meta.id, Ev::ActivePathUpdated);
    }
    fn on_slow_start_exited(&mut self, _c: &mut (), meta: &events::ConnectionMeta, e: &events::SlowStartExited) {
        self.rec.event(self.ep, meta.id, Ev::SlowStartExited { cwnd: e.congestion_window });
    }
}

/// (kind, transport error code) of a connection error, from its public shape
pub fn classify_error(e: &s2n_quic::connection::Error) -> (String, Option<u64>) {
    use s2n_quic::connection::Error as E;
    match e {
        E::Closed { .. } => ("Closed".into(), None),
        E::Transport { code, .. } => ("Transport".into(), Some(code.as_u64())),
        E::Application { .. } => ("Application".into(), None),
        E::StatelessReset { .. } => ("StatelessReset".into(), None),
        E::IdleTimerExpired { .. } => ("IdleTimerExpired".into(), None),
        E::NoValidPath { .. } => ("NoValidPath".into(), None),
        E::StreamIdExhausted { .. } => ("StreamIdExhausted".into(), None),
        E::MaxHandshakeDurationExceeded { .. } => ("MaxHandshakeDurationExceeded".into(), None),
        E::ImmediateClose { .. } => ("ImmediateClose".into(), None),
        E::EndpointClosing { .. } => ("EndpointClosing".into(), None),
        E::InvalidConfiguration { .. } => ("InvalidConfiguration".into(), None),
        E::Unspecified { .. } => ("Unspecified".into(), None),
        _ => (variant_name(e), None),
    }
}

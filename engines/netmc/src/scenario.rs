// Scenarios (configurations + application scripts) and one complete execution of a real client
// and a real server on the deterministic executor.
#![allow(dead_code)]
use crate::mccore::prf_byte;
use crate::net::{ChoiceNet, Inject, Schedule};
use crate::record::{classify_error, now_us, App, Rec, Record, Sub, Tap, TxRewrite, CLIENT, SERVER};
use bytes::Bytes;
use futures::future::{select, Either};
use s2n_quic::{
    client::Connect,
    provider::{
        address_token, congestion_controller, endpoint_limits,
        io::testing::{primary, spawn, time, Executor, Handle},
        limits::Limits as QLimits,
        tls,
    },
    stream::PeerStream,
    Client, Server,
};
use s2n_quic_core::crypto::tls::{null, testing::certificates};
use std::panic::{catch_unwind, AssertUnwindSafe};
use std::sync::{Arc, Mutex};
use std::time::Duration;

#[derive(Clone, Copy, Debug, PartialEq)]
pub enum Tls {
    Null,
    S2n,
}

/// certificate chain the s2n-tls server presents (the client trusts the matching root)
#[derive(Clone, Copy, Debug, PartialEq)]
pub enum Cert {
    /// the repository's single self-signed test certificate (handshake fits in 3 x 1200 bytes)
    Stock,
    /// leaf + 2 RSA-4096 intermediates: TLS Certificate message of about 4.4 kB (> 3 x 1200)
    Medium,
    /// leaf + 4 RSA-4096 intermediates: about 8.3 kB (> 6 x 1200)
    Large,
}

/// address validation by Retry before the handshake (RFC 9000 8.1.2)
#[derive(Clone, Copy, Debug, PartialEq)]
pub enum Retry {
    Off,
    /// every token-less Initial is answered with a Retry; tokens from the harness' deterministic format
    Det,
    /// the same with the library's default token format (HMAC keys drawn from the endpoint's random
    /// provider - deterministic here -, rotated every second of virtual time, single use)
    Stock,
}

#[derive(Clone, Copy, Debug, PartialEq)]
pub enum Cc {
    Cubic,
    Bbr,
}

#[derive(Clone, Debug, Default)]
pub struct Lim {
    pub stream_window: Option<u64>,
    /// pairwise different stream windows (bidi_local, bidi_remote, uni); overrides `stream_window`
    pub win_kinds: Option<(u64, u64, u64)>,
    pub conn_window: Option<u64>,
    pub max_bidi_remote: Option<u64>,
    pub max_bidi_local: Option<u64>,
    pub max_uni_remote: Option<u64>,
    pub max_uni_local: Option<u64>,
    pub idle_ms: Option<u64>,
    pub max_ack_delay_ms: Option<u64>,
    pub send_buffer: Option<u32>,
    pub keep_alive_ms: Option<u64>,
    pub active_cids: Option<u64>,
    pub handshake_ms: Option<u64>,
}

impl Lim {
    pub fn build(&self) -> QLimits {
        let mut l = QLimits::new().with_pto_jitter_percentage(0).unwrap();
        if let Some(v) = self.stream_window {
            l = l.with_bidirectional_local_data_window(v).unwrap().with_bidirectional_remote_data_window(v).unwrap().with_unidirectional_data_window(v).unwrap();
        }
        if let Some((bl, br, u)) = self.win_kinds {
            l = l.with_bidirectional_local_data_window(bl).unwrap().with_bidirectional_remote_data_window(br).unwrap().with_unidirectional_data_window(u).unwrap();
        }
        if let Some(v) = self.conn_window {
            l = l.with_data_window(v).unwrap();
        }
        if let Some(v) = self.max_bidi_remote {
            l = l.with_max_open_remote_bidirectional_streams(v).unwrap();
        }
        if let Some(v) = self.max_bidi_local {
            l = l.with_max_open_local_bidirectional_streams(v).unwrap();
        }
        if let Some(v) = self.max_uni_remote {
            l = l.with_max_open_remote_unidirectional_streams(v).unwrap();
        }
        if let Some(v) = self.max_uni_local {
            l = l.with_max_open_local_unidirectional_streams(v).unwrap();
        }
        if let Some(v) = self.idle_ms {
            l = l.with_max_idle_timeout(Duration::from_millis(v)).unwrap();
        }
        if let Some(v) = self.max_ack_delay_ms {
            l = l.with_max_ack_delay(Duration::from_millis(v)).unwrap();
        }
        if let Some(v) = self.send_buffer {
            l = l.with_max_send_buffer_size(v).unwrap();
        }
        if let Some(v) = self.keep_alive_ms {
            l = l.with_max_keep_alive_period(Duration::from_millis(v)).unwrap();
        }
        if let Some(v) = self.active_cids {
            l = l.with_max_active_connection_ids(v).unwrap();
        }
        if let Some(v) = self.handshake_ms {
            l = l.with_max_handshake_duration(Duration::from_millis(v)).unwrap();
        }
        l
    }
}

#[derive(Clone, Debug, PartialEq)]
pub enum Op {
    OpenBidi,
    OpenUni,
    /// write n PRF bytes at the stream's current offset, in chunks of `chunk` (0 = one chunk)
    Write(usize, usize),
    Flush,
    Finish,
    /// finish + wait until everything is acknowledged
    Close,
    Reset(u64),
    /// wait for the reader of the current bidirectional stream to reach EOF / error
    AwaitReader,
    StopSending(u64),
    Sleep(u64),
    DropStream,
    CloseConnection(u64),
    KeepAlive(bool),
    Ping,
}

#[derive(Clone, Debug, Default)]
pub struct ServerMode {
    /// echo bidirectional streams back (else sink)
    pub echo: bool,
    /// after reading EOF on a bidirectional stream, send this many bytes and finish
    pub reply: Option<usize>,
    /// read with a buffer of this many bytes (None = whole chunks)
    pub small_read: Option<usize>,
    /// pause this long after each read
    pub read_pause_us: u64,
    /// read through `receive_vectored` with this many chunk slots (see `Scenario::vectored_slots`)
    pub vectored_slots: Option<usize>,
    /// do not read at all (peer runs into flow control)
    pub never_read: bool,
    /// wait this long before the first read of every stream, then drain in one burst
    pub read_delay_ms: u64,
    /// send STOP_SENDING after reading this many bytes
    pub stop_sending_after: Option<u64>,
    /// reset the echo/reply direction after writing this many bytes
    pub reset_after: Option<u64>,
    /// server opens this many unidirectional streams of `push_size` bytes towards the client
    pub push_streams: usize,
    pub push_size: usize,
    /// close the connection (application close) after accepting it and waiting this long
    pub close_after_ms: Option<u64>,
}

#[derive(Clone, Debug)]
pub struct Scenario {
    pub name: String,
    pub tls: Tls,
    pub cc: Cc,
    /// IP-level MTU: endpoint max_mtu; the network drops UDP payloads above mtu - 28
    pub mtu: u16,
    pub client: Lim,
    pub server: Lim,
    pub server_mode: ServerMode,
    /// concurrently running client tasks, each a list of operations
    pub tasks: Vec<Vec<Op>>,
    /// client reader: small reads / pauses
    pub client_small_read: Option<usize>,
    pub client_read_pause_us: u64,
    /// every reader (both sides) uses `receive_vectored` with this many chunk slots and trusts its
    /// `is_open` flag as the end-of-stream signal (the third receive API besides `receive` and AsyncRead)
    pub vectored_slots: Option<usize>,
    pub client_accepts_uni: bool,
    pub horizon_ms: u64,
    pub base_delay_ms: u64,
    /// after all tasks completed: linger, close, linger
    pub linger_ms: u64,
    pub seed: u64,
    pub key_update_every: Option<u64>,
    pub cid_lifetime_ms: Option<u64>,
    /// replace / extend the transport-parameter block one side sends (null TLS only): (who, edit)
    pub tp_edit: Option<(u8, TpEdit)>,
    pub cert: Cert,
    pub retry: Retry,
    /// vacuity guard: the fault-free run must show the server stopped by the anti-amplification limit
    pub expect_amp_block: bool,
}

impl Scenario {
    pub fn base(name: &str) -> Scenario {
        Scenario {
            name: name.into(),
            tls: Tls::Null,
            cc: Cc::Cubic,
            mtu: 1500,
            client: Lim::default(),
            server: Lim::default(),
            server_mode: ServerMode { echo: true, ..Default::default() },
            tasks: vec![],
            client_small_read: None,
            client_read_pause_us: 0,
            vectored_slots: None,
            client_accepts_uni: false,
            horizon_ms: 60_000,
            base_delay_ms: 25,
            linger_ms: 300,
            seed: 1,
            key_update_every: None,
            cid_lifetime_ms: None,
            tp_edit: None,
            cert: Cert::Stock,
            retry: Retry::Off,
            expect_amp_block: false,
        }
    }
    pub fn describe(&self) -> String {
        format!(
            "{} tls={:?} cert={:?} retry={:?} cc={:?} mtu={} client={:?} server={:?} mode={:?} tasks={:?} small_read={:?}",
            self.name, self.tls, self.cert, self.retry, self.cc, self.mtu, self.client, self.server, self.server_mode, self.tasks, self.client_small_read
        )
    }
}

pub const C2S: u64 = 0xC2_0000_0000;
pub const S2C: u64 = 0x52_0000_0000;

fn prf_bytes(key: u64, off: u64, len: usize) -> Bytes {
    let mut v = vec![0u8; len];
    for (i, b) in v.iter_mut().enumerate() {
        *b = prf_byte(key, off + i as u64);
    }
    Bytes::from(v)
}

fn check_bytes(key: u64, off: u64, data: &[u8]) -> Option<u64> {
    for (i, b) in data.iter().enumerate() {
        if *b != prf_byte(key, off + i as u64) {
            return Some(off + i as u64);
        }
    }
    None
}

// ------------------------------------------------------------------------------------------
// providers
// ------------------------------------------------------------------------------------------

#[derive(Default)]
pub struct NoTls;
impl tls::Provider for NoTls {
    type Server = null::Endpoint;
    type Client = null::Endpoint;
    type Error = String;
    fn start_server(self) -> Result<Self::Server, Self::Error> {
        Ok(Self::Server::default())
    }
    fn start_client(self) -> Result<Self::Client, Self::Error> {
        Ok(Self::Client::default())
    }
}

/// edit of an encoded transport-parameter block (sequence of id, length, value)
#[derive(Clone, Debug, PartialEq)]
pub enum TpEdit {
    /// remove every occurrence of the id, then append id/len/value
    Replace(u64, Vec<u8>),
    Remove(u64),
    /// append raw bytes
    Append(Vec<u8>),
    /// remove every occurrence of `to`, then append `to` with the value `from` has in the block
    /// (nothing is appended when `from` is absent)
    Copy { from: u64, to: u64 },
}

fn tp_varint(b: &[u8], p: &mut usize) -> Option<u64> {
    let first = *b.get(*p)?;
    let len = 1usize << (first >> 6);
    let mut v = (first & 0x3f) as u64;
    for i in 1..len {
        v = (v << 8) | *b.get(*p + i)? as u64;
    }
    *p += len;
    Some(v)
}

fn tp_put_varint(out: &mut Vec<u8>, v: u64) {
    if v < 1 << 6 {
        out.push(v as u8);
    } else if v < 1 << 14 {
        out.extend_from_slice(&((v as u16) | 0x4000).to_be_bytes());
    } else if v < 1 << 30 {
        out.extend_from_slice(&((v as u32) | 0x8000_0000).to_be_bytes());
    } else {
        out.extend_from_slice(&(v | 0xc000_0000_0000_0000).to_be_bytes());
    }
}

pub fn tp_apply(block: &[u8], edit: &TpEdit) -> Vec<u8> {
    let drop_id = match edit {
        TpEdit::Replace(id, _) | TpEdit::Remove(id) => Some(*id),
        TpEdit::Copy { to, .. } => Some(*to),
        TpEdit::Append(_) => None,
    };
    let copy_from = match edit {
        TpEdit::Copy { from, .. } => Some(*from),
        _ => None,
    };
    let mut copied: Option<Vec<u8>> = None;
    let mut out = Vec::new();
    let mut p = 0usize;
    while p < block.len() {
        let start = p;
        let Some(id) = tp_varint(block, &mut p) else { break };
        let Some(len) = tp_varint(block, &mut p) else { break };
        let end = (p + len as usize).min(block.len());
        if Some(id) == copy_from {
            copied = Some(block[p.min(end)..end].to_vec());
        }
        if Some(id) != drop_id {
            out.extend_from_slice(&block[start..end]);
        }
        p = end;
    }
    match edit {
        TpEdit::Replace(id, value) => {
            tp_put_varint(&mut out, *id);
            tp_put_varint(&mut out, value.len() as u64);
            out.extend_from_slice(value);
        }
        TpEdit::Append(raw) => out.extend_from_slice(raw),
        TpEdit::Remove(_) => {}
        TpEdit::Copy { to, .. } => {
            if let Some(value) = copied {
                tp_put_varint(&mut out, *to);
                tp_put_varint(&mut out, value.len() as u64);
                out.extend_from_slice(&value);
            }
        }
    }
    out
}

/// null TLS endpoint that edits the transport parameters it is asked to send
pub struct TamperEndpoint {
    inner: null::Endpoint,
    edit: Option<TpEdit>,
}

impl s2n_quic_core::crypto::tls::Endpoint for TamperEndpoint {
    type Session = <null::Endpoint as s2n_quic_core::crypto::tls::Endpoint>::Session;
    fn new_server_session<Params: s2n_codec::EncoderValue>(&mut self, transport_parameters: &Params, connection_info: s2n_quic_core::crypto::tls::ConnectionInfo) -> Self::Session {
        let block = transport_parameters.encode_to_vec();
        let block = match &self.edit {
            Some(e) => tp_apply(&block, e),
            None => block,
        };
        self.inner.new_server_session(&&block[..], connection_info)
    }
    fn new_client_session<Params: s2n_codec::EncoderValue>(&mut self, transport_parameters: &Params, server_name: s2n_quic_core::application::ServerName) -> Self::Session {
        let block = transport_parameters.encode_to_vec();
        let block = match &self.edit {
            Some(e) => tp_apply(&block, e),
            None => block,
        };
        self.inner.new_client_session(&&block[..], server_name)
    }
    fn max_tag_length(&self) -> usize {
        self.inner.max_tag_length()
    }
}

pub struct TamperTls {
    pub server_edit: Option<TpEdit>,
    pub client_edit: Option<TpEdit>,
}
impl tls::Provider for TamperTls {
    type Server = TamperEndpoint;
    type Client = TamperEndpoint;
    type Error = String;
    fn start_server(self) -> Result<Self::Server, Self::Error> {
        Ok(TamperEndpoint { inner: null::Endpoint::default(), edit: self.server_edit })
    }
    fn start_client(self) -> Result<Self::Client, Self::Error> {
        Ok(TamperEndpoint { inner: null::Endpoint::default(), edit: self.client_edit })
    }
}

/// deterministic random provider (splitmix64 stream)
pub struct DetRandom(pub u64);
impl DetRandom {
    fn next(&mut self) -> u64 {
        self.0 = self.0.wrapping_add(0x9e37_79b9_7f4a_7c15);
        let mut z = self.0;
        z = (z ^ (z >> 30)).wrapping_mul(0xbf58_476d_1ce4_e5b9);
        z = (z ^ (z >> 27)).wrapping_mul(0x94d0_49bb_1331_11eb);
        z ^ (z >> 31)
    }
    fn fill(&mut self, dest: &mut [u8]) {
        for chunk in dest.chunks_mut(8) {
            let v = self.next().to_le_bytes();
            chunk.copy_from_slice(&v[..chunk.len()]);
        }
    }
}
impl s2n_quic::provider::random::Provider for DetRandom {
    type Generator = Self;
    type Error = core::convert::Infallible;
    fn start(self) -> Result<Self::Generator, Self::Error> {
        Ok(self)
    }
}
impl s2n_quic::provider::random::Generator for DetRandom {
    fn public_random_fill(&mut self, dest: &mut [u8]) {
        self.fill(dest)
    }
    fn private_random_fill(&mut self, dest: &mut [u8]) {
        self.fill(dest)
    }
}

/// deterministic connection-id format: 16-byte ids derived from a per-endpoint counter
pub struct DetCid {
    pub seed: u64,
    pub ctr: u64,
    pub lifetime: Option<Duration>,
    pub rotate_handshake: bool,
}
impl s2n_quic::provider::connection_id::Generator for DetCid {
    fn generate(&mut self, _info: &s2n_quic::provider::connection_id::ConnectionInfo) -> s2n_quic::provider::connection_id::LocalId {
        self.ctr += 1;
        let a = crate::mccore::splitmix64(self.seed ^ self.ctr.wrapping_mul(0x1000_0001)).to_be_bytes();
        let b = crate::mccore::splitmix64(self.seed.rotate_left(17) ^ self.ctr).to_be_bytes();
        let mut id = [0u8; 16];
        id[..8].copy_from_slice(&a);
        id[8..].copy_from_slice(&b);
        (&id[..]).try_into().expect("16 byte id")
    }
    fn lifetime(&self) -> Option<Duration> {
        self.lifetime
    }
    fn rotate_handshake_connection_id(&self) -> bool {
        self.rotate_handshake
    }
}
impl s2n_quic::provider::connection_id::Validator for DetCid {
    fn validate(&self, _info: &s2n_quic::provider::connection_id::ConnectionInfo, buffer: &[u8]) -> Option<usize> {
        if buffer.len() >= 16 {
            Some(16)
        } else {
            None
        }
    }
}

/// deterministic stateless-reset tokens (a keyed function of the connection id, as the RFC asks)
pub struct DetToken(pub u64);
impl s2n_quic::provider::stateless_reset_token::Generator for DetToken {
    const ENABLED: bool = true;
    fn generate(&mut self, local_connection_id: &[u8]) -> s2n_quic_core::stateless_reset::Token {
        let mut h = self.0;
        for b in local_connection_id {
            h = crate::mccore::splitmix64(h ^ *b as u64);
        }
        let mut t = [0u8; 16];
        t[..8].copy_from_slice(&h.to_be_bytes());
        t[8..].copy_from_slice(&crate::mccore::splitmix64(h ^ 0x7075).to_be_bytes());
        t.into()
    }
}
pub struct DetTokenProvider(pub u64);
impl s2n_quic::provider::stateless_reset_token::Provider for DetTokenProvider {
    type Generator = DetToken;
    type Error = core::convert::Infallible;
    fn start(self) -> Result<Self::Generator, Self::Error> {
        Ok(DetToken(self.0))
    }
}

// ------------------------------------------------------------------------------------------
// address validation tokens (Retry)
// ------------------------------------------------------------------------------------------

type StockTokenFormat = <address_token::Default as address_token::Provider>::Format;

/// Deterministic Retry-token format of the harness.  Token = odcid length, odcid (zero padded to
/// 20), 16-byte keyed hash over (key, client address, client source connection id, odcid), zero
/// padding up to the stock format's length.  It accepts exactly the tokens it issued, for the
/// address and connection id they were issued to.  It has no expiry and is not single-use
/// (RFC 9000 8.1.4 only *encourages* single use), so that a token survives any finite fault
/// prefix: the stock format consumes a token before the Initial carrying it is authenticated,
/// so one corrupted copy of that Initial makes the connection attempt fail for good - see
/// notes/wL.md; scenario `hs/tls-retry-stock-token` runs the stock format without corruption.
pub struct DetAddrToken {
    key: u64,
}

impl DetAddrToken {
    fn mac(&self, context: &address_token::Context<'_>, odcid: &[u8]) -> [u8; 16] {
        let mut h = crate::mccore::splitmix64(self.key ^ 0x7e70_ad0e);
        let mut eat = |bytes: &[u8]| {
            h = crate::mccore::splitmix64(h ^ (bytes.len() as u64) << 56);
            for b in bytes {
                h = crate::mccore::splitmix64(h ^ *b as u64);
            }
        };
        eat(format!("{:?}", context.remote_address).as_bytes());
        eat(context.peer_connection_id);
        eat(odcid);
        let mut out = [0u8; 16];
        out[..8].copy_from_slice(&h.to_be_bytes());
        out[8..].copy_from_slice(&crate::mccore::splitmix64(h ^ self.key.rotate_left(29)).to_be_bytes());
        out
    }
}

const DET_TOKEN_BODY: usize = 1 + 20 + 16;

impl address_token::Format for DetAddrToken {
    const TOKEN_LEN: usize = <StockTokenFormat as address_token::Format>::TOKEN_LEN;

    fn generate_new_token(&mut self, _context: &mut address_token::Context<'_>, _source_connection_id: &s2n_quic_core::connection::LocalId, _output_buffer: &mut [u8]) -> Option<()> {
        None
    }

    fn generate_retry_token(&mut self, context: &mut address_token::Context<'_>, original_destination_connection_id: &s2n_quic_core::connection::InitialId, output_buffer: &mut [u8]) -> Option<()> {
        let odcid = original_destination_connection_id.as_bytes();
        if output_buffer.len() < DET_TOKEN_BODY || odcid.len() > 20 {
            return None;
        }
        for b in output_buffer.iter_mut() {
            *b = 0;
        }
        output_buffer[0] = odcid.len() as u8;
        output_buffer[1..1 + odcid.len()].copy_from_slice(odcid);
        let mac = self.mac(context, odcid);
        output_buffer[21..37].copy_from_slice(&mac);
        Some(())
    }

    fn validate_token(&mut self, context: &mut address_token::Context<'_>, token: &[u8]) -> Option<s2n_quic_core::connection::InitialId> {
        if token.len() != Self::TOKEN_LEN || token.len() < DET_TOKEN_BODY {
            return None;
        }
        let n = token[0] as usize;
        if !(8..=20).contains(&n) || token[1 + n..21].iter().any(|b| *b != 0) || token[37..].iter().any(|b| *b != 0) {
            return None;
        }
        let odcid = &token[1..1 + n];
        let mac = self.mac(context, odcid);
        if token[21..37] != mac {
            return None;
        }
        s2n_quic_core::connection::InitialId::try_from_bytes(odcid)
    }
}

pub enum TokenFormat {
    Det(DetAddrToken),
    Stock(StockTokenFormat),
}

impl address_token::Format for TokenFormat {
    const TOKEN_LEN: usize = <StockTokenFormat as address_token::Format>::TOKEN_LEN;
    fn generate_new_token(&mut self, c: &mut address_token::Context<'_>, id: &s2n_quic_core::connection::LocalId, out: &mut [u8]) -> Option<()> {
        match self {
            TokenFormat::Det(f) => f.generate_new_token(c, id, out),
            TokenFormat::Stock(f) => f.generate_new_token(c, id, out),
        }
    }
    fn generate_retry_token(&mut self, c: &mut address_token::Context<'_>, id: &s2n_quic_core::connection::InitialId, out: &mut [u8]) -> Option<()> {
        match self {
            TokenFormat::Det(f) => f.generate_retry_token(c, id, out),
            TokenFormat::Stock(f) => f.generate_retry_token(c, id, out),
        }
    }
    fn validate_token(&mut self, c: &mut address_token::Context<'_>, token: &[u8]) -> Option<s2n_quic_core::connection::InitialId> {
        match self {
            TokenFormat::Det(f) => f.validate_token(c, token),
            TokenFormat::Stock(f) => f.validate_token(c, token),
        }
    }
}

pub struct TokenProvider {
    pub stock: bool,
    pub key: u64,
}

impl address_token::Provider for TokenProvider {
    type Format = TokenFormat;
    type Error = String;
    fn start(self) -> Result<Self::Format, Self::Error> {
        if self.stock {
            let f = address_token::Provider::start(address_token::Default::default()).map_err(|e| e.to_string())?;
            Ok(TokenFormat::Stock(f))
        } else {
            Ok(TokenFormat::Det(DetAddrToken { key: self.key }))
        }
    }
}

// certificate chains generated once by certs/generate.sh (never at run time)
pub const ROOT_PEM: &str = include_str!("../certs/root.pem");
pub const MEDIUM_CHAIN_PEM: &str = include_str!("../certs/medium-chain.pem");
pub const MEDIUM_KEY_PEM: &str = include_str!("../certs/medium-key.pem");
pub const LARGE_CHAIN_PEM: &str = include_str!("../certs/large-chain.pem");
pub const LARGE_KEY_PEM: &str = include_str!("../certs/large-key.pem");

// ------------------------------------------------------------------------------------------
// application logic
// ------------------------------------------------------------------------------------------

async fn with_deadline<F: std::future::Future<Output = ()>>(name: String, rec: Rec, ep: u8, deadline_us: u64, f: F) {
    let now = now_us();
    if deadline_us <= now {
        rec.app(ep, App::TaskTimeout { name });
        return;
    }
    let timer = time::delay(Duration::from_micros(deadline_us - now));
    match select(Box::pin(f), timer).await {
        Either::Left(_) => rec.app(ep, App::TaskDone { name }),
        Either::Right(_) => rec.app(ep, App::TaskTimeout { name }),
    }
}

/// one `receive_vectored` call with `slots` chunk slots; `*eof` is set when the call reports the stream
/// as no longer open (its documented end-of-stream signal)
async fn read_vectored(recv: &mut s2n_quic::stream::ReceiveStream, slots: usize, eof: &mut bool) -> Result<Option<Vec<u8>>, String> {
    let mut chunks = vec![Bytes::new(); slots.max(1)];
    match recv.receive_vectored(&mut chunks).await {
        Ok((count, is_open)) => {
            let mut data = Vec::new();
            for c in &chunks[..count] {
                data.extend_from_slice(c);
            }
            if !is_open {
                *eof = true;
            }
            if data.is_empty() && !is_open {
                Ok(None)
            } else {
                Ok(Some(data))
            }
        }
        Err(e) => Err(format!("{:?}", e)),
    }
}

async fn read_stream(mut recv: s2n_quic::stream::ReceiveStream, key: u64, rec: Rec, ep: u8, small: Option<usize>, pause_us: u64, stop_after: Option<u64>, vectored: Option<usize>) -> u64 {
    use futures::io::AsyncReadExt;
    let id = recv.id();
    let mut off = 0u64;
    let mut stopped = false;
    let mut veof = false;
    loop {
        let res: Result<Option<Vec<u8>>, String> = match small {
            _ if veof => Ok(None),
            _ if vectored.is_some() => read_vectored(&mut recv, vectored.unwrap(), &mut veof).await,
            None => recv.receive().await.map(|o| o.map(|b| b.to_vec())).map_err(|e| format!("{:?}", e)),
            Some(n) => {
                let mut buf = vec![0u8; n];
                match recv.read(&mut buf).await {
                    Ok(0) => Ok(None),
                    Ok(k) => {
                        buf.truncate(k);
                        Ok(Some(buf))
                    }
                    Err(e) => Err(format!("{:?}", e)),
                }
            }
        };
        match res {
            Ok(Some(data)) => {
                let bad = check_bytes(key, off, &data);
                rec.app(ep, App::Read { stream: id, off, len: data.len(), ok: bad.is_none(), first_bad: bad });
                off += data.len() as u64;
            }
            Ok(None) => {
                rec.app(ep, App::Eof { stream: id, total: off });
                return off;
            }
            Err(e) => {
                rec.app(ep, App::ReadError { stream: id, off, err: e });
                return off;
            }
        }
        if let Some(n) = stop_after {
            if !stopped && off >= n {
                stopped = true;
                let _ = recv.stop_sending(7u32.into());
                rec.app(ep, App::StopSending { stream: id });
            }
        }
        if pause_us > 0 {
            time::delay(Duration::from_micros(pause_us)).await;
        }
    }
}

async fn write_prf(send: &mut s2n_quic::stream::SendStream, key: u64, off: &mut u64, n: usize, chunk: usize, rec: &Rec, ep: u8) -> bool {
    let id = send.id();
    let mut left = n;
    while left > 0 {
        let c = if chunk == 0 { left } else { chunk.min(left) };
        let data = prf_bytes(key, *off, c);
        match send.send(data).await {
            Ok(()) => {
                rec.app(ep, App::Write { stream: id, off: *off, len: c });
                *off += c as u64;
                left -= c;
            }
            Err(e) => {
                rec.app(ep, App::WriteError { stream: id, off: *off, err: format!("{:?}", e) });
                return false;
            }
        }
    }
    true
}

async fn client_task(mut conn: s2n_quic::connection::Handle, ops: Vec<Op>, rec: Rec, scn: Arc<Scenario>, deadline_us: u64) {
    let mut send: Option<s2n_quic::stream::SendStream> = None;
    // true while the current send half is neither finished nor reset: dropping it then finishes it
    // implicitly (documented s2n-quic behaviour, like TcpStream)
    let mut open = false;
    let mut off = 0u64;
    macro_rules! implicit_finish {
        () => {
            if let (Some(s), true) = (send.as_ref(), open) {
                rec.app(CLIENT, App::Finish { stream: s.id(), total: off });
            }
            #[allow(unused_assignments)]
            {
                open = false;
            }
        };
    }
    let mut reader_done: Option<futures::channel::oneshot::Receiver<u64>> = None;
    let mut recv_handle: Option<Arc<Mutex<Option<u64>>>> = None;
    let _ = &mut recv_handle;
    for op in ops {
        match op {
            Op::OpenBidi => {
              // the application lets go of the previous stream before asking for the next one
              implicit_finish!();
              send = None;
              match conn.open_bidirectional_stream().await {
                Ok(s) => {
                    open = true;
                    let id = s.id();
                    rec.app(CLIENT, App::StreamOpened { stream: id });
                    let (r, w) = s.split();
                    send = Some(w);
                    off = 0;
                    let (tx, rx) = futures::channel::oneshot::channel();
                    reader_done = Some(rx);
                    let rec2 = rec.clone();
                    let key = if scn.server_mode.echo { C2S ^ id } else { S2C ^ id };
                    let small = scn.client_small_read;
                    let pause = scn.client_read_pause_us;
                    let vectored = scn.vectored_slots;
                    primary::spawn(with_deadline(format!("client-reader-{}", id), rec.clone(), CLIENT, deadline_us, async move {
                        let n = read_stream(r, key, rec2, CLIENT, small, pause, None, vectored).await;
                        let _ = tx.send(n);
                    }));
                }
                Err(e) => {
                    rec.app(CLIENT, App::OpenError(format!("{:?}", e)));
                    return;
                }
              }
            }
            Op::OpenUni => {
              implicit_finish!();
              send = None;
              match conn.open_send_stream().await {
                Ok(s) => {
                    open = true;
                    rec.app(CLIENT, App::StreamOpened { stream: s.id() });
                    send = Some(s);
                    off = 0;
                    reader_done = None;
                }
                Err(e) => {
                    rec.app(CLIENT, App::OpenError(format!("{:?}", e)));
                    return;
                }
              }
            }
            Op::Write(n, chunk) => {
                if let Some(s) = send.as_mut() {
                    let key = C2S ^ s.id();
                    if !write_prf(s, key, &mut off, n, chunk, &rec, CLIENT).await {
                        // keep going: later ops (e.g. AwaitReader) still make sense
                    }
                }
            }
            Op::Flush => {
                if let Some(s) = send.as_mut() {
                    let _ = s.flush().await;
                }
            }
            Op::Finish => {
                if let Some(s) = send.as_mut() {
                    if open {
                        match s.finish() {
                            Ok(()) => rec.app(CLIENT, App::Finish { stream: s.id(), total: off }),
                            Err(e) => rec.app(CLIENT, App::FinishError { stream: s.id(), err: format!("{:?}", e) }),
                        }
                        open = false;
                    }
                }
            }
            Op::Close => {
                if let Some(s) = send.as_mut() {
                    let id = s.id();
                    if open {
                        rec.app(CLIENT, App::Finish { stream: id, total: off });
                        open = false;
                    }
                    if let Err(e) = s.close().await {
                        rec.app(CLIENT, App::FinishError { stream: id, err: format!("{:?}", e) });
                    }
                }
            }
            Op::Reset(code) => {
                if let Some(s) = send.as_mut() {
                    let _ = s.reset((code as u32).into());
                    rec.app(CLIENT, App::Reset { stream: s.id(), at: off });
                    open = false;
                }
            }
            Op::AwaitReader => {
                if let Some(rx) = reader_done.take() {
                    let _ = rx.await;
                }
            }
            Op::StopSending(_code) => {
                // the reader task owns the receive half: handled through ServerMode on the other
                // side; on the client we model it by dropping interest (no-op here)
            }
            Op::Sleep(ms) => time::delay(Duration::from_millis(ms)).await,
            Op::DropStream => {
                implicit_finish!();
                send = None;
            }
            Op::CloseConnection(code) => {
                conn.close((code as u32).into());
                rec.app(CLIENT, App::Close);
            }
            Op::KeepAlive(on) => {
                let _ = conn.keep_alive(on);
            }
            Op::Ping => {
                let _ = conn.ping();
            }
        }
    }
    implicit_finish!();
}

async fn server_stream(stream: PeerStream, rec: Rec, mode: ServerMode) {
    let vectored = mode.vectored_slots;
    match stream {
        PeerStream::Receive(r) => {
            let id = r.id();
            rec.app(SERVER, App::StreamAccepted { stream: id });
            if mode.never_read {
                futures::future::pending::<()>().await;
            }
            if mode.read_delay_ms > 0 {
                time::delay(Duration::from_millis(mode.read_delay_ms)).await;
            }
            read_stream(r, C2S ^ id, rec, SERVER, mode.small_read, mode.read_pause_us, mode.stop_sending_after, vectored).await;
        }
        PeerStream::Bidirectional(s) => {
            let id = s.id();
            rec.app(SERVER, App::StreamAccepted { stream: id });
            if mode.never_read {
                let _keep = s;
                futures::future::pending::<()>().await;
                return;
            }
            let (mut r, mut w) = s.split();
            if mode.read_delay_ms > 0 {
                time::delay(Duration::from_millis(mode.read_delay_ms)).await;
            }
            if mode.echo {
                use futures::io::AsyncReadExt;
                let mut off = 0u64;
                let mut woff = 0u64;
                let mut stopped = false;
                let mut w_open = true;
                let mut veof = false;
                loop {
                    let res: Result<Option<Vec<u8>>, String> = match mode.small_read {
                        _ if veof => Ok(None),
                        _ if vectored.is_some() => read_vectored(&mut r, vectored.unwrap(), &mut veof).await,
                        None => r.receive().await.map(|o| o.map(|b| b.to_vec())).map_err(|e| format!("{:?}", e)),
                        Some(n) => {
                            let mut buf = vec![0u8; n];
                            match r.read(&mut buf).await {
                                Ok(0) => Ok(None),
                                Ok(k) => {
                                    buf.truncate(k);
                                    Ok(Some(buf))
                                }
                                Err(e) => Err(format!("{:?}", e)),
                            }
                        }
                    };
                    match res {
                        Ok(Some(data)) => {
                            let bad = check_bytes(C2S ^ id, off, &data);
                            rec.app(SERVER, App::Read { stream: id, off, len: data.len(), ok: bad.is_none(), first_bad: bad });
                            off += data.len() as u64;
                            let n = data.len();
                            if !w_open {
                                continue;
                            }
                            match w.send(Bytes::from(data)).await {
                                Ok(()) => {
                                    rec.app(SERVER, App::Write { stream: id, off: woff, len: n });
                                    woff += n as u64;
                                }
                                Err(e) => {
                                    rec.app(SERVER, App::WriteError { stream: id, off: woff, err: format!("{:?}", e) });
                                    w_open = false;
                                }
                            }
                            if let Some(k) = mode.reset_after {
                                if woff >= k && w_open {
                                    let _ = w.reset(9u32.into());
                                    rec.app(SERVER, App::Reset { stream: id, at: woff });
                                    w_open = false;
                                }
                            }
                            if let Some(k) = mode.stop_sending_after {
                                if !stopped && off >= k {
                                    stopped = true;
                                    let _ = r.stop_sending(7u32.into());
                                    rec.app(SERVER, App::StopSending { stream: id });
                                }
                            }
                        }
                        Ok(None) => {
                            rec.app(SERVER, App::Eof { stream: id, total: off });
                            break;
                        }
                        Err(e) => {
                            rec.app(SERVER, App::ReadError { stream: id, off, err: e });
                            break;
                        }
                    }
                    if mode.read_pause_us > 0 {
                        time::delay(Duration::from_micros(mode.read_pause_us)).await;
                    }
                }
                // the write half is finished when the handler ends (explicitly here; dropping it would do the same)
                if w_open {
                    match w.finish() {
                        Ok(()) => rec.app(SERVER, App::Finish { stream: id, total: woff }),
                        Err(e) => rec.app(SERVER, App::FinishError { stream: id, err: format!("{:?}", e) }),
                    }
                }
            } else {
                read_stream(r, C2S ^ id, rec.clone(), SERVER, mode.small_read, mode.read_pause_us, mode.stop_sending_after, vectored).await;
                if let Some(n) = mode.reply {
                    let mut woff = 0u64;
                    write_prf(&mut w, S2C ^ id, &mut woff, n, 0, &rec, SERVER).await;
                    match w.finish() {
                        Ok(()) => rec.app(SERVER, App::Finish { stream: id, total: woff }),
                        Err(e) => rec.app(SERVER, App::FinishError { stream: id, err: format!("{:?}", e) }),
                    }
                } else {
                    let _ = w.finish();
                    rec.app(SERVER, App::Finish { stream: id, total: 0 });
                }
            }
        }
    }
}

fn start_server_app(mut server: Server, rec: Rec, scn: Arc<Scenario>) {
    spawn(async move {
        while let Some(mut connection) = server.accept().await {
            rec.app(SERVER, App::Accepted);
            let rec = rec.clone();
            let scn = scn.clone();
            spawn(async move {
                let mode = scn.server_mode.clone();
                if let Some(ms) = mode.close_after_ms {
                    let h = connection.handle();
                    let rec2 = rec.clone();
                    spawn(async move {
                        time::delay(Duration::from_millis(ms)).await;
                        h.close(3u32.into());
                        rec2.app(SERVER, App::Close);
                    });
                }
                for k in 0..mode.push_streams {
                    let mut h = connection.handle();
                    let rec2 = rec.clone();
                    let size = mode.push_size;
                    spawn(async move {
                        match h.open_send_stream().await {
                            Ok(mut s) => {
                                let id = s.id();
                                rec2.app(SERVER, App::StreamOpened { stream: id });
                                let mut off = 0u64;
                                if write_prf(&mut s, S2C ^ id, &mut off, size, 1000, &rec2, SERVER).await {
                                    match s.finish() {
                                        Ok(()) => rec2.app(SERVER, App::Finish { stream: id, total: off }),
                                        Err(e) => rec2.app(SERVER, App::FinishError { stream: id, err: format!("{:?}", e) }),
                                    }
                                }
                                let _ = k;
                            }
                            Err(e) => rec2.app(SERVER, App::OpenError(format!("{:?}", e))),
                        }
                    });
                }
                loop {
                    match connection.accept().await {
                        Ok(Some(stream)) => {
                            spawn(server_stream(stream, rec.clone(), mode.clone()));
                        }
                        Ok(None) => break,
                        Err(e) => {
                            let (kind, _) = classify_error(&e);
                            let _ = kind;
                            break;
                        }
                    }
                }
            });
        }
    });
}

fn start_client_app(client: Client, addr: std::net::SocketAddr, rec: Rec, scn: Arc<Scenario>) {
    let deadline_us = scn.horizon_ms * 1000;
    let rec0 = rec.clone();
    primary::spawn(with_deadline("client-main".into(), rec0, CLIENT, deadline_us + 5_000_000, async move {
        let connect = Connect::new(addr).with_server_name("localhost");
        let connection = match client.connect(connect).await {
            Ok(c) => c,
            Err(e) => {
                rec.app(CLIENT, App::ConnectError(format!("{:?}", e)));
                return;
            }
        };
        rec.app(CLIENT, App::Connected);
        let handle = connection.handle();
        if scn.client_accepts_uni || scn.server_mode.push_streams > 0 {
            let rec2 = rec.clone();
            let scn2 = scn.clone();
            let (_h, mut acceptor) = connection.split();
            spawn(async move {
                while let Ok(Some(stream)) = acceptor.accept().await {
                    if let PeerStream::Receive(r) = stream {
                        let id = r.id();
                        rec2.app(CLIENT, App::StreamAccepted { stream: id });
                        let rec3 = rec2.clone();
                        let small = scn2.client_small_read;
                        let pause = scn2.client_read_pause_us;
                        let vectored = scn2.vectored_slots;
                        primary::spawn(with_deadline(format!("client-push-reader-{}", id), rec2.clone(), CLIENT, deadline_us, async move {
                            read_stream(r, S2C ^ id, rec3, CLIENT, small, pause, None, vectored).await;
                        }));
                    }
                }
            });
        } else {
            // keep the connection alive for the duration of the scripts
            std::mem::forget(connection);
        }
        let mut joins = Vec::new();
        for (i, ops) in scn.tasks.iter().enumerate() {
            let (tx, rx) = futures::channel::oneshot::channel::<()>();
            joins.push(rx);
            let h = handle.clone();
            let rec2 = rec.clone();
            let scn2 = scn.clone();
            let ops = ops.clone();
            primary::spawn(with_deadline(format!("client-task-{}", i), rec.clone(), CLIENT, deadline_us, async move {
                client_task(h, ops, rec2, scn2, deadline_us).await;
                let _ = tx.send(());
            }));
        }
        for j in joins {
            let _ = j.await;
        }
        // streams pushed by the server: wait until each has ended at the client (or the horizon)
        if scn.server_mode.push_streams > 0 {
            loop {
                let ended = rec.0.lock().unwrap().app.iter().filter(|a| a.ep == CLIENT && matches!(&a.ev, App::Eof { stream, .. } | App::ReadError { stream, .. } if stream & 0x3 == 0x3)).count();
                if ended >= scn.server_mode.push_streams || now_us() >= deadline_us {
                    break;
                }
                time::delay(Duration::from_millis(10)).await;
            }
        }
        // linger so that the peer's application observes everything, then close and linger again
        // so that the closing behaviour is observable
        time::delay(Duration::from_millis(scn.linger_ms)).await;
        handle.close(0u32.into());
        rec.app(CLIENT, App::Close);
        time::delay(Duration::from_millis(scn.linger_ms)).await;
    }));
}

// ------------------------------------------------------------------------------------------
// one execution
// ------------------------------------------------------------------------------------------

pub struct ExecInput {
    pub schedule: Schedule,
    pub injects: Vec<Inject>,
    /// false = differential baseline run: Forge actions only hold the genuine datagram back
    pub forge: bool,
    pub client_rewrite: Option<TxRewrite>,
    pub server_rewrite: Option<TxRewrite>,
}

impl ExecInput {
    pub fn plain(schedule: Schedule) -> ExecInput {
        ExecInput { schedule, injects: vec![], forge: true, client_rewrite: None, server_rewrite: None }
    }
}

macro_rules! with_tls_cc {
    ($scn:expr, $f:ident, $($args:expr),*) => {
        match ($scn.tls, $scn.cc) {
            (Tls::Null, Cc::Cubic) if $scn.tp_edit.is_some() => {
                let (who, edit) = $scn.tp_edit.clone().unwrap();
                let (se, ce) = if who == SERVER { (Some(edit), None) } else { (None, Some(edit)) };
                $f(TamperTls { server_edit: se, client_edit: None }, TamperTls { server_edit: None, client_edit: ce }, congestion_controller::Cubic::default(), congestion_controller::Cubic::default(), $($args),*)
            }
            (Tls::Null, Cc::Cubic) => $f(NoTls, NoTls, congestion_controller::Cubic::default(), congestion_controller::Cubic::default(), $($args),*),
            (Tls::Null, Cc::Bbr) => $f(NoTls, NoTls, congestion_controller::Bbr::default(), congestion_controller::Bbr::default(), $($args),*),
            (Tls::S2n, Cc::Cubic) => {
                let (chain, key, trust) = s2n_pems($scn.cert);
                $f((chain, key), trust, congestion_controller::Cubic::default(), congestion_controller::Cubic::default(), $($args),*)
            }
            (Tls::S2n, Cc::Bbr) => {
                let (chain, key, trust) = s2n_pems($scn.cert);
                $f((chain, key), trust, congestion_controller::Bbr::default(), congestion_controller::Bbr::default(), $($args),*)
            }
        }
    };
}

fn s2n_pems(cert: Cert) -> (&'static str, &'static str, &'static str) {
    match cert {
        Cert::Stock => (certificates::CERT_PEM, certificates::KEY_PEM, certificates::CERT_PEM),
        Cert::Medium => (MEDIUM_CHAIN_PEM, MEDIUM_KEY_PEM, ROOT_PEM),
        Cert::Large => (LARGE_CHAIN_PEM, LARGE_KEY_PEM, ROOT_PEM),
    }
}

#[allow(clippy::too_many_arguments)]
fn build_and_start<ST, CT, SC, CC>(
    server_tls: ST,
    client_tls: CT,
    server_cc: SC,
    client_cc: CC,
    handle: &Handle,
    scn: Arc<Scenario>,
    rec: Rec,
    net: Arc<Mutex<crate::net::NetShared>>,
    client_rewrite: Option<TxRewrite>,
    server_rewrite: Option<TxRewrite>,
) -> Result<(), String>
where
    ST: tls::Provider,
    CT: tls::Provider,
    SC: congestion_controller::Provider,
    CC: congestion_controller::Provider,
{
    let e = |x: &dyn std::fmt::Display| x.to_string();
    // Retry: the library's own endpoint limiter with an in-flight handshake limit of zero answers
    // every token-less Initial with a Retry (without a limit it is the default limiter)
    let mut endpoint_limits = endpoint_limits::Default::builder();
    if scn.retry != Retry::Off {
        endpoint_limits = endpoint_limits.with_inflight_handshake_limit(0).map_err(|x| e(&x))?;
    }
    let server = Server::builder()
        .with_io(handle.builder().with_max_mtu(scn.mtu).build().map_err(|x| e(&x))?)
        .map_err(|x| e(&x))?
        .with_tls(server_tls)
        .map_err(|x| e(&x))?
        .with_event(Sub { ep: SERVER, rec: rec.clone() })
        .map_err(|x| e(&x))?
        .with_random(DetRandom(scn.seed ^ 0x5e57))
        .map_err(|x| e(&x))?
        .with_connection_id(DetCid { seed: scn.seed ^ 0x5e57_c1d, ctr: 0, lifetime: scn.cid_lifetime_ms.map(Duration::from_millis), rotate_handshake: true })
        .map_err(|x| e(&x))?
        .with_stateless_reset_token(DetTokenProvider(scn.seed ^ 0x5e57_70c))
        .map_err(|x| e(&x))?
        .with_limits(scn.server.build())
        .map_err(|x| e(&x))?
        .with_endpoint_limits(endpoint_limits.build().map_err(|x| e(&x))?)
        .map_err(|x| e(&x))?
        .with_address_token(TokenProvider { stock: scn.retry == Retry::Stock, key: scn.seed ^ 0x5e57_a770 })
        .map_err(|x| e(&x))?
        .with_congestion_controller(server_cc)
        .map_err(|x| e(&x))?
        .with_packet_interceptor(Tap { ep: SERVER, rec: rec.clone(), rewrite: server_rewrite })
        .map_err(|x| e(&x))?
        .start()
        .map_err(|x| e(&x))?;
    let addr = server.local_addr().map_err(|x| e(&x))?;
    net.lock().unwrap().server_addr = Some(addr);
    start_server_app(server, rec.clone(), scn.clone());

    let net2 = net.clone();
    let client = Client::builder()
        .with_io(
            handle
                .builder()
                .with_max_mtu(scn.mtu)
                .on_socket(move |socket| {
                    let mut n = net2.lock().unwrap();
                    n.client_addr = socket.local_addr().ok();
                    n.client_socket = Some(socket);
                })
                .build()
                .map_err(|x| e(&x))?,
        )
        .map_err(|x| e(&x))?
        .with_tls(client_tls)
        .map_err(|x| e(&x))?
        .with_event(Sub { ep: CLIENT, rec: rec.clone() })
        .map_err(|x| e(&x))?
        .with_random(DetRandom(scn.seed ^ 0xc11e))
        .map_err(|x| e(&x))?
        .with_connection_id(DetCid { seed: scn.seed ^ 0xc11e_c1d, ctr: 0, lifetime: scn.cid_lifetime_ms.map(Duration::from_millis), rotate_handshake: true })
        .map_err(|x| e(&x))?
        .with_stateless_reset_token(DetTokenProvider(scn.seed ^ 0xc11e_70c))
        .map_err(|x| e(&x))?
        .with_limits(scn.client.build())
        .map_err(|x| e(&x))?
        .with_congestion_controller(client_cc)
        .map_err(|x| e(&x))?
        .with_packet_interceptor(Tap { ep: CLIENT, rec: rec.clone(), rewrite: client_rewrite })
        .map_err(|x| e(&x))?
        .start()
        .map_err(|x| e(&x))?;
    start_client_app(client, addr, rec, scn);
    Ok(())
}

/// run one complete execution; never panics (a panic inside is recorded)
pub fn execute(scn: &Scenario, input: ExecInput) -> Record {
    let rec = Rec::default();
    let scn = Arc::new(scn.clone());
    // hook H5: key update window = confidentiality limit - N  =>  an update every N packets
    if let Some(n) = scn.key_update_every {
        let limit: u64 = if scn.tls == Tls::Null { u64::MAX } else { 1 << 23 };
        std::env::set_var("S2N_QUIC_VERIF_KEY_UPDATE_WINDOW", (limit - n).to_string());
    } else {
        std::env::remove_var("S2N_QUIC_VERIF_KEY_UPDATE_WINDOW");
    }
    let net = ChoiceNet::new(&input.schedule, input.injects, Duration::from_millis(scn.base_delay_ms), scn.mtu as usize - 28, rec.clone());
    let shared = net.shared.clone();
    shared.lock().unwrap().forge_enabled = input.forge;
    let mut executor = Executor::new(net, scn.seed);
    let handle = executor.handle().clone();
    let ExecInput { client_rewrite, server_rewrite, .. } = input;
    let rec2 = rec.clone();
    let scn2 = scn.clone();
    let result = catch_unwind(AssertUnwindSafe(|| {
        let setup = executor.enter(|| with_tls_cc!(scn2, build_and_start, &handle, scn2.clone(), rec2.clone(), shared.clone(), client_rewrite, server_rewrite));
        if let Err(e) = setup {
            panic!("setup failed: {}", e);
        }
        executor.run();
        executor.enter(now_us)
    }));
    let mut end_t = 0;
    match result {
        Ok(t) => {
            end_t = t;
            // closing may itself panic when a task is in a bad state; guard it
            let closed = catch_unwind(AssertUnwindSafe(move || drop(executor)));
            if closed.is_err() {
                rec.0.lock().unwrap().panicked = Some("panic while closing the executor".into());
            }
        }
        Err(e) => {
            let msg = if let Some(s) = e.downcast_ref::<&str>() {
                s.to_string()
            } else if let Some(s) = e.downcast_ref::<String>() {
                s.clone()
            } else {
                "panic".to_string()
            };
            std::mem::forget(executor);
            let mut r = rec.0.lock().unwrap();
            if msg.contains("runtime stalled") {
                r.stalled = Some(msg);
            } else {
                r.panicked = Some(msg);
            }
        }
    }
    let mut r = std::mem::take(&mut *rec.0.lock().unwrap());
    if end_t == 0 {
        end_t = r.dgrams.last().map(|d| d.t).unwrap_or(0);
    }
    r.end_t = end_t;
    r
}

// Independent RFC 9000 §19 frame parser used by the monitors (no s2n-quic types): what the
// monitors believe about a packet never depends on the codecs under test.
#![allow(dead_code)]

#[derive(Clone, Debug, PartialEq)]
pub enum F {
    Padding(usize),
    Ping,
    Ack { largest: u64, delay: u64, ranges: Vec<(u64, u64)>, ecn: Option<(u64, u64, u64)> },
    ResetStream { id: u64, code: u64, final_size: u64 },
    StopSending { id: u64, code: u64 },
    Crypto { off: u64, len: u64 },
    NewToken { len: u64 },
    Stream { id: u64, off: u64, fin: bool, data: Vec<u8> },
    MaxData(u64),
    MaxStreamData { id: u64, v: u64 },
    MaxStreams { bidi: bool, v: u64 },
    DataBlocked(u64),
    StreamDataBlocked { id: u64, v: u64 },
    StreamsBlocked { bidi: bool, v: u64 },
    NewConnectionId { seq: u64, retire_prior_to: u64, cid: Vec<u8>, token: [u8; 16] },
    RetireConnectionId(u64),
    PathChallenge([u8; 8]),
    PathResponse([u8; 8]),
    ConnectionClose { app: bool, code: u64, frame_type: Option<u64>, reason_len: u64 },
    HandshakeDone,
    Datagram { len: u64 },
    /// s2n-quic private extension frames (0xdc0000 dc stateless reset tokens, 0xdc0002 mtu probing complete)
    Extension { tag: u64 },
}

impl F {
    pub fn ack_eliciting(&self) -> bool {
        !matches!(self, F::Padding(_) | F::Ack { .. } | F::ConnectionClose { .. })
    }
    pub fn name(&self) -> &'static str {
        match self {
            F::Padding(_) => "PADDING",
            F::Ping => "PING",
            F::Ack { .. } => "ACK",
            F::ResetStream { .. } => "RESET_STREAM",
            F::StopSending { .. } => "STOP_SENDING",
            F::Crypto { .. } => "CRYPTO",
            F::NewToken { .. } => "NEW_TOKEN",
            F::Stream { .. } => "STREAM",
            F::MaxData(_) => "MAX_DATA",
            F::MaxStreamData { .. } => "MAX_STREAM_DATA",
            F::MaxStreams { .. } => "MAX_STREAMS",
            F::DataBlocked(_) => "DATA_BLOCKED",
            F::StreamDataBlocked { .. } => "STREAM_DATA_BLOCKED",
            F::StreamsBlocked { .. } => "STREAMS_BLOCKED",
            F::NewConnectionId { .. } => "NEW_CONNECTION_ID",
            F::RetireConnectionId(_) => "RETIRE_CONNECTION_ID",
            F::PathChallenge(_) => "PATH_CHALLENGE",
            F::PathResponse(_) => "PATH_RESPONSE",
            F::ConnectionClose { .. } => "CONNECTION_CLOSE",
            F::HandshakeDone => "HANDSHAKE_DONE",
            F::Datagram { .. } => "DATAGRAM",
            F::Extension { .. } => "EXTENSION",
        }
    }
}

pub struct Cur<'a> {
    pub b: &'a [u8],
    pub p: usize,
}

impl<'a> Cur<'a> {
    pub fn new(b: &'a [u8]) -> Cur<'a> {
        Cur { b, p: 0 }
    }
    pub fn left(&self) -> usize {
        self.b.len() - self.p
    }
    pub fn u8(&mut self) -> Result<u8, String> {
        if self.left() < 1 {
            return Err("eof".into());
        }
        let v = self.b[self.p];
        self.p += 1;
        Ok(v)
    }
    pub fn bytes(&mut self, n: usize) -> Result<&'a [u8], String> {
        if self.left() < n {
            return Err(format!("need {} bytes, {} left", n, self.left()));
        }
        let s = &self.b[self.p..self.p + n];
        self.p += n;
        Ok(s)
    }
    /// RFC 9000 §16
    pub fn varint(&mut self) -> Result<u64, String> {
        let first = self.u8()?;
        let len = 1usize << (first >> 6);
        let mut v = (first & 0x3f) as u64;
        for _ in 1..len {
            v = (v << 8) | self.u8()? as u64;
        }
        Ok(v)
    }
}

/// parse a complete packet payload into frames
pub fn parse_frames(payload: &[u8]) -> Result<Vec<F>, String> {
    let mut c = Cur::new(payload);
    let mut out = Vec::new();
    while c.left() > 0 {
        let start = c.p;
        let ty = c.varint()?;
        let f = match ty {
            0x00 => {
                let mut n = 1;
                while c.left() > 0 && c.b[c.p] == 0 {
                    c.p += 1;
                    n += 1;
                }
                F::Padding(n)
            }
            0x01 => F::Ping,
            0x02 | 0x03 => {
                let largest = c.varint()?;
                let delay = c.varint()?;
                let count = c.varint()?;
                let first = c.varint()?;
                if first > largest {
                    return Err("ack first range underflow".into());
                }
                let mut ranges = vec![(largest - first, largest)];
                let mut smallest = largest - first;
                for _ in 0..count {
                    let gap = c.varint()?;
                    let len = c.varint()?;
                    // largest of next range = smallest - gap - 2
                    let next_largest = smallest.checked_sub(gap).and_then(|v| v.checked_sub(2)).ok_or("ack gap underflow")?;
                    let next_smallest = next_largest.checked_sub(len).ok_or("ack range underflow")?;
                    ranges.push((next_smallest, next_largest));
                    smallest = next_smallest;
                }
                let ecn = if ty == 0x03 { Some((c.varint()?, c.varint()?, c.varint()?)) } else { None };
                F::Ack { largest, delay, ranges, ecn }
            }
            0x04 => F::ResetStream { id: c.varint()?, code: c.varint()?, final_size: c.varint()? },
            0x05 => F::StopSending { id: c.varint()?, code: c.varint()? },
            0x06 => {
                let off = c.varint()?;
                let len = c.varint()?;
                c.bytes(len as usize)?;
                F::Crypto { off, len }
            }
            0x07 => {
                let len = c.varint()?;
                c.bytes(len as usize)?;
                F::NewToken { len }
            }
            0x08..=0x0f => {
                let id = c.varint()?;
                let off = if ty & 0x04 != 0 { c.varint()? } else { 0 };
                let data = if ty & 0x02 != 0 {
                    let len = c.varint()?;
                    c.bytes(len as usize)?.to_vec()
                } else {
                    let n = c.left();
                    c.bytes(n)?.to_vec()
                };
                F::Stream { id, off, fin: ty & 0x01 != 0, data }
            }
            0x10 => F::MaxData(c.varint()?),
            0x11 => F::MaxStreamData { id: c.varint()?, v: c.varint()? },
            0x12 => F::MaxStreams { bidi: true, v: c.varint()? },
            0x13 => F::MaxStreams { bidi: false, v: c.varint()? },
            0x14 => F::DataBlocked(c.varint()?),
            0x15 => F::StreamDataBlocked { id: c.varint()?, v: c.varint()? },
            0x16 => F::StreamsBlocked { bidi: true, v: c.varint()? },
            0x17 => F::StreamsBlocked { bidi: false, v: c.varint()? },
            0x18 => {
                let seq = c.varint()?;
                let retire_prior_to = c.varint()?;
                let len = c.u8()? as usize;
                let cid = c.bytes(len)?.to_vec();
                let mut token = [0u8; 16];
                token.copy_from_slice(c.bytes(16)?);
                F::NewConnectionId { seq, retire_prior_to, cid, token }
            }
            0x19 => F::RetireConnectionId(c.varint()?),
            0x1a => {
                let mut d = [0u8; 8];
                d.copy_from_slice(c.bytes(8)?);
                F::PathChallenge(d)
            }
            0x1b => {
                let mut d = [0u8; 8];
                d.copy_from_slice(c.bytes(8)?);
                F::PathResponse(d)
            }
            0x1c => {
                let code = c.varint()?;
                let ft = c.varint()?;
                let rl = c.varint()?;
                c.bytes(rl as usize)?;
                F::ConnectionClose { app: false, code, frame_type: Some(ft), reason_len: rl }
            }
            0x1d => {
                let code = c.varint()?;
                let rl = c.varint()?;
                c.bytes(rl as usize)?;
                F::ConnectionClose { app: true, code, frame_type: None, reason_len: rl }
            }
            0x1e => F::HandshakeDone,
            0x30 => {
                let n = c.left();
                c.bytes(n)?;
                F::Datagram { len: n as u64 }
            }
            0x31 => {
                let len = c.varint()?;
                c.bytes(len as usize)?;
                F::Datagram { len }
            }
            0xdc0000 => {
                let n = c.varint()?;
                c.bytes(16 * n as usize)?;
                F::Extension { tag: ty }
            }
            0xdc0002 => {
                c.bytes(2)?;
                F::Extension { tag: ty }
            }
            other => return Err(format!("unknown frame type {:#x} at offset {}", other, start)),
        };
        out.push(f);
    }
    Ok(out)
}

/// what the first byte of a datagram says (RFC 8999 / RFC 9000 §17); long-header type bits are not
/// header-protected
#[derive(Clone, Copy, Debug, PartialEq, Eq)]
pub enum Kind {
    Initial,
    ZeroRtt,
    Handshake,
    Retry,
    VersionNegotiation,
    Short,
    Empty,
}

pub fn datagram_kind(d: &[u8]) -> Kind {
    if d.is_empty() {
        return Kind::Empty;
    }
    if d[0] & 0x80 == 0 {
        return Kind::Short;
    }
    if d.len() >= 5 && d[1..5] == [0, 0, 0, 0] {
        return Kind::VersionNegotiation;
    }
    match (d[0] >> 4) & 0x3 {
        0 => Kind::Initial,
        1 => Kind::ZeroRtt,
        2 => Kind::Handshake,
        _ => Kind::Retry,
    }
}

/// walk the coalesced long-header packets of a datagram (Length fields are not protected):
/// returns the kinds of all packets in it
pub fn datagram_packet_kinds(d: &[u8]) -> Vec<Kind> {
    let mut out = Vec::new();
    let mut rest = d;
    loop {
        let k = datagram_kind(rest);
        match k {
            Kind::Empty => break,
            Kind::Short | Kind::VersionNegotiation | Kind::Retry => {
                out.push(k);
                break;
            }
            Kind::Initial | Kind::ZeroRtt | Kind::Handshake => {
                out.push(k);
                let mut c = Cur::new(rest);
                let ok = (|| -> Result<usize, String> {
                    c.bytes(5)?;
                    let dl = c.u8()? as usize;
                    c.bytes(dl)?;
                    let sl = c.u8()? as usize;
                    c.bytes(sl)?;
                    if k == Kind::Initial {
                        let tl = c.varint()? as usize;
                        c.bytes(tl)?;
                    }
                    let len = c.varint()? as usize;
                    c.bytes(len)?;
                    Ok(c.p)
                })();
                match ok {
                    Ok(p) => rest = &rest[p..],
                    Err(_) => break,
                }
            }
        }
    }
    out
}

/// destination connection id of a long-header packet
pub fn long_header_cids(d: &[u8]) -> Option<(Vec<u8>, Vec<u8>)> {
    if d.is_empty() || d[0] & 0x80 == 0 {
        return None;
    }
    let mut c = Cur::new(d);
    c.bytes(5).ok()?;
    let dl = c.u8().ok()? as usize;
    let dcid = c.bytes(dl).ok()?.to_vec();
    let sl = c.u8().ok()? as usize;
    let scid = c.bytes(sl).ok()?.to_vec();
    Some((dcid, scid))
}

/// the unprotected header fields of one long-header packet (RFC 9000 17.2): none of them is
/// covered by header protection
#[derive(Clone, Debug, PartialEq)]
pub struct LongHdr {
    pub kind: Kind,
    pub dcid: Vec<u8>,
    pub scid: Vec<u8>,
    /// Initial: the Token field; Retry: the Retry Token; otherwise empty
    pub token: Vec<u8>,
    /// Retry only: the 16-byte Retry Integrity Tag
    pub retry_tag: Vec<u8>,
}

/// headers of all coalesced long-header packets of a datagram (a trailing short-header packet is
/// not listed)
pub fn long_headers(d: &[u8]) -> Vec<LongHdr> {
    let mut out = Vec::new();
    let mut rest = d;
    loop {
        let k = datagram_kind(rest);
        match k {
            Kind::Initial | Kind::ZeroRtt | Kind::Handshake => {
                let mut c = Cur::new(rest);
                let parsed = (|| -> Result<(LongHdr, usize), String> {
                    c.bytes(5)?;
                    let dl = c.u8()? as usize;
                    let dcid = c.bytes(dl)?.to_vec();
                    let sl = c.u8()? as usize;
                    let scid = c.bytes(sl)?.to_vec();
                    let mut token = Vec::new();
                    if k == Kind::Initial {
                        let tl = c.varint()? as usize;
                        token = c.bytes(tl)?.to_vec();
                    }
                    let len = c.varint()? as usize;
                    c.bytes(len)?;
                    Ok((LongHdr { kind: k, dcid, scid, token, retry_tag: Vec::new() }, c.p))
                })();
                match parsed {
                    Ok((h, p)) => {
                        out.push(h);
                        rest = &rest[p..];
                    }
                    Err(_) => break,
                }
            }
            Kind::Retry => {
                // RFC 9000 17.2.5: no Length field; the token runs up to the 16-byte integrity tag
                let mut c = Cur::new(rest);
                let parsed = (|| -> Result<LongHdr, String> {
                    c.bytes(5)?;
                    let dl = c.u8()? as usize;
                    let dcid = c.bytes(dl)?.to_vec();
                    let sl = c.u8()? as usize;
                    let scid = c.bytes(sl)?.to_vec();
                    let left = c.left();
                    if left < 16 {
                        return Err("retry too short".into());
                    }
                    let token = c.bytes(left - 16)?.to_vec();
                    let retry_tag = c.bytes(16)?.to_vec();
                    Ok(LongHdr { kind: k, dcid, scid, token, retry_tag })
                })();
                if let Ok(h) = parsed {
                    out.push(h);
                }
                break;
            }
            _ => break,
        }
    }
    out
}

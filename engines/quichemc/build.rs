// quiche draws its non-TLS randomness (packet-number skipping, PATH_CHALLENGE data) from
// BoringSSL's RAND_bytes.  `--wrap` routes every reference to RAND_bytes from outside BoringSSL's
// own crypto object (that is: quiche's Rust code and libssl) to `__wrap_RAND_bytes`, defined in
// src/clock.rs, which serves a seeded stream while an execution is running and the real generator
// otherwise.  Without this quiche skips packet numbers at random places, the s2n-quic peer answers
// each gap with an immediate ACK, and the datagram sequence differs from run to run.
fn main() {
    println!("cargo:rustc-link-arg-bins=-Wl,--wrap=RAND_bytes");
    println!("cargo:rerun-if-changed=build.rs");
}

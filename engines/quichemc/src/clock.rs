// Binding quiche's wall clock to the executor's virtual time.
//
// quiche reads `std::time::Instant::now()` in ~70 places (loss timers, RTT samples, ack delay, idle
// timer, window auto-tuning).  On Linux that is `clock_gettime(CLOCK_MONOTONIC)`.  The harness
// binary defines the C symbol `clock_gettime` itself; the static link resolves libstd's (and
// BoringSSL's / s2n-tls') reference to this definition instead of glibc's, so every monotonic clock
// read in the process returns   BASE + epoch + <virtual time of the current execution>.
// The virtual time is a global the harness updates from the executor's `time::now()` at every
// point where quiche code can run afterwards: the top of every iteration of the quiche task, the
// network's `execute` and every datagram delivery.
//
// Only the monotonic clocks are virtual.  CLOCK_REALTIME (certificate validity checks) and the CPU
// clocks go to the kernel.  Outside executions (`unbind`) everything goes to the kernel, so the
// master's wall-clock caps work.
use std::sync::atomic::{AtomicU64, Ordering};

/// virtual time in nanoseconds since the start of the current execution
static VIRTUAL_NS: AtomicU64 = AtomicU64::new(0);
/// 0 = pass through to the real clock
static BOUND: AtomicU64 = AtomicU64::new(0);
/// every execution starts at a later offset, so Instants never go backwards inside one process
static EPOCH_NS: AtomicU64 = AtomicU64::new(0);

const BASE_S: u64 = 1_000_000;

#[no_mangle]
pub unsafe extern "C" fn clock_gettime(clk: libc::clockid_t, ts: *mut libc::timespec) -> libc::c_int {
    let monotonic = matches!(clk, libc::CLOCK_MONOTONIC | libc::CLOCK_MONOTONIC_RAW | libc::CLOCK_MONOTONIC_COARSE | libc::CLOCK_BOOTTIME);
    if !monotonic || BOUND.load(Ordering::Relaxed) == 0 || ts.is_null() {
        return libc::syscall(libc::SYS_clock_gettime, clk as libc::c_long, ts) as libc::c_int;
    }
    let ns = EPOCH_NS.load(Ordering::Relaxed) + VIRTUAL_NS.load(Ordering::Relaxed);
    (*ts).tv_sec = (BASE_S + ns / 1_000_000_000) as libc::time_t;
    (*ts).tv_nsec = (ns % 1_000_000_000) as _;
    0
}

pub fn bind() {
    BOUND.store(1, Ordering::Relaxed);
}
pub fn unbind() {
    BOUND.store(0, Ordering::Relaxed);
}
pub fn set_virtual_us(us: u64) {
    VIRTUAL_NS.fetch_max(us * 1000, Ordering::Relaxed);
}
pub fn set_virtual_ns(ns: u64) {
    VIRTUAL_NS.fetch_max(ns, Ordering::Relaxed);
}
/// begin a new execution: virtual time restarts at 0; the epoch moves past everything seen so far
pub fn new_epoch() {
    let used = VIRTUAL_NS.swap(0, Ordering::Relaxed);
    EPOCH_NS.fetch_add(used + 1_000_000_000, Ordering::Relaxed);
}

// ------------------------------------------------------------------------------------------
// quiche's randomness (see build.rs: -Wl,--wrap=RAND_bytes)
// ------------------------------------------------------------------------------------------

static RAND_STATE: AtomicU64 = AtomicU64::new(0);
static RAND_CALLS: AtomicU64 = AtomicU64::new(0);

extern "C" {
    fn __real_RAND_bytes(buf: *mut u8, len: usize) -> libc::c_int;
}

#[no_mangle]
pub unsafe extern "C" fn __wrap_RAND_bytes(buf: *mut u8, len: usize) -> libc::c_int {
    if BOUND.load(Ordering::Relaxed) == 0 {
        return __real_RAND_bytes(buf, len);
    }
    RAND_CALLS.fetch_add(1, Ordering::Relaxed);
    let out = std::slice::from_raw_parts_mut(buf, len);
    for chunk in out.chunks_mut(8) {
        let x = RAND_STATE.fetch_add(0x9e37_79b9_7f4a_7c15, Ordering::Relaxed).wrapping_add(0x9e37_79b9_7f4a_7c15);
        let mut z = x;
        z = (z ^ (z >> 30)).wrapping_mul(0xbf58_476d_1ce4_e5b9);
        z = (z ^ (z >> 27)).wrapping_mul(0x94d0_49bb_1331_11eb);
        z ^= z >> 31;
        let b = z.to_le_bytes();
        chunk.copy_from_slice(&b[..chunk.len()]);
    }
    1
}

/// restart the seeded stream (called at the start of every execution)
pub fn reseed(seed: u64) {
    RAND_STATE.store(seed ^ 0x7163_6865_5f72_6e67, Ordering::Relaxed);
}

pub fn rand_calls() -> u64 {
    RAND_CALLS.load(Ordering::Relaxed)
}

/// `std::time::Instant::now()` must stand still while the virtual clock does and follow it exactly
pub fn self_test() -> Result<(), String> {
    use std::time::{Duration, Instant};
    new_epoch();
    bind();
    let a = Instant::now();
    std::thread::sleep(Duration::from_millis(3));
    let b = Instant::now();
    set_virtual_us(1_234_567);
    let c = Instant::now();
    set_virtual_ns(1_234_567_891);
    let d = Instant::now();
    unbind();
    let e = Instant::now();
    std::thread::sleep(Duration::from_millis(2));
    let f = Instant::now();
    new_epoch();
    if b.duration_since(a) != Duration::ZERO {
        return Err(format!("clock binding failed: Instant::now() advanced by {:?} on its own (clock_gettime is not interposed)", b.duration_since(a)));
    }
    if c.duration_since(a) != Duration::from_micros(1_234_567) || d.duration_since(a) != Duration::from_nanos(1_234_567_891) {
        return Err(format!("clock binding failed: Instant::now() moved {:?} / {:?} for virtual 1.234567 s / 1.234567891 s", c.duration_since(a), d.duration_since(a)));
    }
    if f <= e {
        return Err("clock pass-through failed: the real monotonic clock does not advance when unbound".into());
    }
    // the seeded stream replaces BoringSSL's generator for callers outside BoringSSL's crypto object
    extern "C" {
        fn RAND_bytes(buf: *mut u8, len: usize) -> libc::c_int;
    }
    let draw = |bound: bool| -> [u8; 16] {
        let mut b = [0u8; 16];
        if bound {
            reseed(42);
            bind();
        }
        unsafe { RAND_bytes(b.as_mut_ptr(), b.len()) };
        unbind();
        b
    };
    let (x, y, u, v) = (draw(true), draw(true), draw(false), draw(false));
    if x != y || x == [0u8; 16] {
        return Err("random binding failed: RAND_bytes is not served by the seeded stream (is -Wl,--wrap=RAND_bytes in effect?)".into());
    }
    if u == v || u == x {
        return Err("random pass-through failed: the real RAND_bytes is not reached when unbound".into());
    }
    Ok(())
}

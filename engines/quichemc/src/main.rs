// quichemc: stateless deviation-bounded exploration of a real s2n-quic endpoint talking to an
// independent QUIC implementation (cloudflare quiche 0.29) on the repository's deterministic
// executor, with a harness-owned network and quiche's clock bound to virtual time (property C07).
//
//   quichemc run C07 --out <result.json>    master: explores every scenario of the tier's grid
//   quichemc worker                          one execution per stdin line (spawned by the master)
//   quichemc replay <replay.json>            re-execute one recorded schedule
//   quichemc probe <scenario|index> [sched]  development aid (QUICHEMC_VERBOSE=1 prints the logs)
//   quichemc list                            print the tier's scenarios
//   quichemc selftest                        clock-binding self-test
#[path = "../../mccore/mccore.rs"]
pub mod mccore;
mod clock;
mod net;
mod oracle;
mod record;
mod scenario;

use mccore::*;
use net::{parse_schedule, schedule_string, Action, Schedule};
use scenario::*;
use std::collections::{BTreeMap, HashSet, VecDeque};
use std::io::{BufRead, BufReader, Write};
use std::process::{Child, ChildStdin, ChildStdout, Command, Stdio};
use std::sync::{Arc, Condvar, Mutex};

const FAMILY: &str = "interop";

// ------------------------------------------------------------------------------------------
// cases = scenarios x deviation bound
// ------------------------------------------------------------------------------------------

#[derive(Clone, Debug)]
pub struct Case {
    pub scn: Scenario,
    pub k: usize,
    pub menu: Vec<Action>,
}

fn menu() -> Vec<Action> {
    // simplest first: lose it, duplicate it (copy 1 ms later), deliver it after the next flight
    vec![Action::Drop, Action::Dup(1000), Action::Delay(3)]
}

/// quick: the 3-wise covering subsets of the echo grid and of the sink grid (every combination of
/// values of any three factors occurs), thorough: both full grids; deviation bound k <= 2 on 14-byte
/// echo transfers (thorough: also on 5 KB echo transfers), k <= 1 elsewhere (all sink scenarios)
fn cases(tier: Tier) -> Vec<Case> {
    let mut scns = match tier {
        Tier::Quick => covering_subset(full_grid(), 3),
        Tier::Thorough => full_grid(),
    };
    // the sink scenarios (connection window decoupled from the stream windows, receiver only reads)
    scns.extend(match tier {
        Tier::Quick => covering_subset(sink_grid(), 3),
        Tier::Thorough => sink_grid(),
    });
    scns.into_iter()
        .map(|scn| {
            let k = if scn.mode == Mode::Echo && (scn.size <= 14 || (tier == Tier::Thorough && scn.size == 5 * 1024)) { 2 } else { 1 };
            Case { scn, k, menu: menu() }
        })
        .collect()
}

// ------------------------------------------------------------------------------------------
// one job = one execution
// ------------------------------------------------------------------------------------------

#[derive(Clone, Debug)]
struct Job {
    case: usize,
    schedule: Schedule,
    /// Some(hash) = this is a determinism re-run that must reproduce the hash
    verify: Option<(String, String)>,
}

#[derive(Clone, Debug, Default)]
struct JobResult {
    n_dgrams: usize,
    /// what the applications observed (must be reproducible)
    hash: String,
    /// + packetisation and timing (informational)
    strict: String,
    outcome: String,
    violations: Vec<(String, String)>,
    crashed: bool,
    end_t: u64,
}

/// With real TLS the key material, hence every ciphertext byte, differs between runs, and the
/// repository's test certificate is ECDSA: the DER signature in CertificateVerify is 70-72 bytes, so
/// an unpadded Handshake datagram can differ by up to 2 bytes.  Everything else (quiche's clock, its
/// non-TLS randomness, s2n-quic's randomness) is owned by the harness.  Two hashes:
/// `loose` = what the applications observed (handshake results, per-stream totals, EOFs, errors,
/// terminations); `strict` = that plus the datagram log (index, time, sender, length, action,
/// delivery times) and the end time.  The reproducibility check demands the first (a mismatch is a
/// machinery error) and reports the second (`x_reruns_identical_packetisation`).
fn trace_hash(scn: &Scenario, r: &record::Record) -> (u128, u128) {
    let s = oracle::summarize(r);
    let mut t = String::new();
    t.push_str(&format!("{:?};{:?};{:?};{:?};{:?};{};", s.connected, s.read, s.eof, s.errors, s.timeouts, s.script_closed));
    t.push_str(&format!("{:?};", r.closed.iter().map(|c| (c.ep, c.kind.clone(), c.transport_code)).collect::<Vec<_>>()));
    t.push_str(&format!("{:?};{:?};{};{};", r.quiche.peer_error, r.quiche.local_error, r.quiche.established, r.quiche.timed_out));
    t.push_str(&format!("{:?};{:?};{}", r.stalled, r.panicked.is_some(), oracle::transfers_complete(scn, &s)));
    let loose = key128(&t);
    for d in &r.dgrams {
        t.push_str(&format!("d{},{},{},{},{},{:?};", d.idx, d.t, d.from, d.payload.len(), d.action, d.delivered_at));
    }
    t.push_str(&format!("end{}", r.end_t));
    (loose, key128(&t))
}

fn outcome_class(scn: &Scenario, r: &record::Record) -> String {
    let s = oracle::summarize(r);
    format!(
        "hs{}{}-eof{}-err{}-to{}-cl{}-dg{}-end{}",
        s.connected[0] as u8,
        s.connected[1] as u8,
        s.eof.len(),
        s.errors.len(),
        s.timeouts.len(),
        r.closed.len(),
        r.dgrams.len(),
        r.end_t / 1000
    ) + if oracle::transfers_complete(scn, &s) { "-ok" } else { "-incomplete" }
}

fn run_job(cases: &[Case], job: &Job, certs: &CertFiles) -> JobResult {
    let case = &cases[job.case];
    let r = execute(&case.scn, job.schedule.clone(), certs);
    let violations = oracle::check(&case.scn, &r);
    let (loose, strict) = trace_hash(&case.scn, &r);
    JobResult {
        n_dgrams: r.dgrams.iter().filter(|d| d.idx != u32::MAX).count(),
        hash: format!("{:032x}", loose),
        strict: format!("{:032x}", strict),
        outcome: outcome_class(&case.scn, &r),
        violations,
        crashed: false,
        end_t: r.end_t,
    }
}

fn result_to_json(r: &JobResult) -> Json {
    Json::obj()
        .set("n", r.n_dgrams)
        .set("hash", r.hash.as_str())
        .set("strict", r.strict.as_str())
        .set("outcome", r.outcome.as_str())
        .set("end_t", r.end_t)
        .set("violations", Json::Arr(r.violations.iter().map(|(c, d)| Json::obj().set("clause", c.as_str()).set("detail", d.as_str())).collect()))
}

fn result_from_json(j: &Json) -> JobResult {
    let s = |k: &str| j.get(k).and_then(|x| x.as_str()).unwrap_or("").to_string();
    JobResult {
        n_dgrams: j.get("n").and_then(|x| x.as_i128()).unwrap_or(0) as usize,
        hash: s("hash"),
        strict: s("strict"),
        outcome: s("outcome"),
        end_t: j.get("end_t").and_then(|x| x.as_i128()).unwrap_or(0) as u64,
        violations: j
            .get("violations")
            .and_then(|x| x.as_arr())
            .map(|a| a.iter().map(|v| (v.get("clause").and_then(|x| x.as_str()).unwrap_or("").to_string(), v.get("detail").and_then(|x| x.as_str()).unwrap_or("").to_string())).collect())
            .unwrap_or_default(),
        crashed: false,
    }
}

// ------------------------------------------------------------------------------------------
// worker
// ------------------------------------------------------------------------------------------

fn worker_main() {
    quiet_panics();
    if let Err(e) = clock::self_test() {
        eprintln!("quichemc worker: {}", e);
        std::process::exit(2);
    }
    let tier = Tier::from_env();
    let cases = cases(tier);
    let certs = cert_files();
    let stdin = std::io::stdin();
    let stdout = std::io::stdout();
    for line in stdin.lock().lines() {
        let Ok(line) = line else { break };
        let parts: Vec<&str> = line.split('\t').collect();
        if parts.len() < 2 {
            continue;
        }
        let case: usize = parts[0].parse().unwrap();
        let schedule = parse_schedule(parts[1]).expect("schedule");
        let job = Job { case, schedule, verify: None };
        let res = run_job(&cases, &job, &certs);
        let mut o = stdout.lock();
        let _ = writeln!(o, "{}", result_to_json(&res).to_string());
        let _ = o.flush();
    }
}

struct Worker {
    child: Child,
    stdin: ChildStdin,
    stdout: BufReader<ChildStdout>,
}

fn spawn_worker() -> Worker {
    let exe = std::env::current_exe().expect("current exe");
    let mut child = Command::new(exe).arg("worker").stdin(Stdio::piped()).stdout(Stdio::piped()).stderr(Stdio::null()).spawn().expect("spawn worker");
    let stdin = child.stdin.take().unwrap();
    let stdout = BufReader::new(child.stdout.take().unwrap());
    Worker { child, stdin, stdout }
}

impl Worker {
    fn run(&mut self, job: &Job) -> Option<JobResult> {
        let line = format!("{}\t{}\n", job.case, schedule_string(&job.schedule));
        if self.stdin.write_all(line.as_bytes()).is_err() || self.stdin.flush().is_err() {
            return None;
        }
        let mut out = String::new();
        match self.stdout.read_line(&mut out) {
            Ok(n) if n > 0 => Json::parse(out.trim()).ok().map(|j| result_from_json(&j)),
            _ => None,
        }
    }
}

// ------------------------------------------------------------------------------------------
// master: iterative deviation bounding
// ------------------------------------------------------------------------------------------

struct Shared {
    queue: VecDeque<Job>,
    in_flight: usize,
    done: bool,
    executions: u64,
    transitions: u64,
    hashes: HashSet<String>,
    outcomes: HashSet<String>,
    per_case: BTreeMap<usize, (u64, u64, usize)>, // executions, datagram decisions, max k reached
    per_k: BTreeMap<usize, u64>,
    violations: Vec<(Job, String, String)>,
    machinery: Vec<String>,
    samples: Vec<Json>,
    verify_counter: u64,
    verified: u64,
    strict_same: u64,
    unexpanded: u64,
    strict_diff: Vec<String>,
    deadline: std::time::Instant,
    capped: bool,
}

fn children(case: &Case, parent: &Job, n_dgrams: usize) -> Vec<Job> {
    let mut out = Vec::new();
    let depth = parent.schedule.len();
    if depth >= case.k {
        return out;
    }
    let start = parent.schedule.last().map(|(i, _)| *i + 1).unwrap_or(0);
    for i in start..n_dgrams as u32 {
        for a in &case.menu {
            let mut s = parent.schedule.clone();
            s.push((i, a.clone()));
            out.push(Job { case: parent.case, schedule: s, verify: None });
        }
    }
    out
}

fn master(property: &str, out_path: &str) {
    if property != "C07" {
        eprintln!("quichemc: no families registered for {}", property);
        std::process::exit(2);
    }
    if let Err(e) = clock::self_test() {
        eprintln!("quichemc: machinery error: {}", e);
        std::process::exit(2);
    }
    let _ = cert_files();
    let tier = Tier::from_env();
    let cases = Arc::new(cases(tier));
    let wall: f64 = std::env::var("QUICHEMC_WALL").ok().and_then(|s| s.parse().ok()).unwrap_or(tier.pick(400.0, 2400.0));
    let t0 = std::time::Instant::now();
    let mut queue = VecDeque::new();
    for (i, _) in cases.iter().enumerate() {
        queue.push_back(Job { case: i, schedule: vec![], verify: None });
    }
    let shared = Arc::new((
        Mutex::new(Shared {
            queue,
            in_flight: 0,
            done: false,
            executions: 0,
            transitions: 0,
            hashes: HashSet::new(),
            outcomes: HashSet::new(),
            per_case: BTreeMap::new(),
            per_k: BTreeMap::new(),
            violations: Vec::new(),
            machinery: Vec::new(),
            samples: Vec::new(),
            verify_counter: 0,
            verified: 0,
            strict_same: 0,
            unexpanded: 0,
            strict_diff: Vec::new(),
            deadline: t0 + std::time::Duration::from_secs_f64(wall),
            capped: false,
        }),
        Condvar::new(),
    ));
    let nthreads = default_threads();
    std::thread::scope(|scope| {
        for _ in 0..nthreads {
            let shared = shared.clone();
            let cases = cases.clone();
            scope.spawn(move || {
                let mut worker = spawn_worker();
                loop {
                    let job = {
                        let (m, cv) = &*shared;
                        let mut g = m.lock().unwrap();
                        loop {
                            if g.done {
                                break None;
                            }
                            if std::time::Instant::now() > g.deadline && !g.queue.is_empty() {
                                g.capped = true;
                                g.queue.clear();
                            }
                            if let Some(j) = g.queue.pop_front() {
                                g.in_flight += 1;
                                break Some(j);
                            }
                            if g.in_flight == 0 {
                                g.done = true;
                                cv.notify_all();
                                break None;
                            }
                            g = cv.wait(g).unwrap();
                        }
                    };
                    let Some(job) = job else { break };
                    let res = match worker.run(&job) {
                        Some(r) => r,
                        None => {
                            let _ = worker.child.kill();
                            let _ = worker.child.wait();
                            worker = spawn_worker();
                            JobResult { crashed: true, ..Default::default() }
                        }
                    };
                    let (m, cv) = &*shared;
                    let mut g = m.lock().unwrap();
                    g.in_flight -= 1;
                    let case = &cases[job.case];
                    if res.crashed {
                        g.violations.push((job.clone(), "exec.abort".into(), "the execution aborted the worker process (double panic / abort inside an endpoint)".into()));
                    } else if let Some((expected, strict)) = &job.verify {
                        g.verified += 1;
                        if *strict == res.strict {
                            g.strict_same += 1;
                        }
                        if *expected != res.hash {
                            g.machinery.push(format!("nondeterminism: {} schedule [{}] gave observation hash {} then {}", case.scn.name, schedule_string(&job.schedule), expected, res.hash));
                        } else if *strict != res.strict && g.strict_diff.len() < 8 {
                            g.strict_diff.push(format!("{} [{}]", case.scn.name, schedule_string(&job.schedule)));
                        }
                    } else {
                        g.executions += 1;
                        g.transitions += res.n_dgrams as u64;
                        g.hashes.insert(res.hash.clone());
                        g.outcomes.insert(res.outcome.clone());
                        *g.per_k.entry(job.schedule.len()).or_insert(0) += 1;
                        let pc = g.per_case.entry(job.case).or_insert((0, 0, 0));
                        pc.0 += 1;
                        pc.1 += res.n_dgrams as u64;
                        pc.2 = pc.2.max(job.schedule.len());
                        g.verify_counter += 1;
                        let verify = g.verify_counter % 97 == 1 || !res.violations.is_empty();
                        if verify {
                            let mut vj = job.clone();
                            vj.verify = Some((res.hash.clone(), res.strict.clone()));
                            g.queue.push_back(vj);
                        }
                        if g.samples.len() < 12 && (job.schedule.len() == case.k || g.samples.len() < 3) {
                            g.samples.push(Json::obj().set("family", FAMILY).set("scenario", case.scn.name.as_str()).set("schedule", schedule_string(&job.schedule)).set("datagrams", res.n_dgrams).set("outcome", res.outcome.as_str()));
                        }
                        for (c, d) in &res.violations {
                            g.violations.push((job.clone(), c.clone(), d.clone()));
                        }
                        // a scenario whose deviation-free baseline already violates is not expanded:
                        // the baseline is the minimal counterexample and every child repeats it
                        let baseline_violates = job.schedule.is_empty() && !res.violations.is_empty();
                        if baseline_violates {
                            g.unexpanded += 1;
                        }
                        if !g.capped && !baseline_violates {
                            for ch in children(case, &job, res.n_dgrams) {
                                g.queue.push_back(ch);
                            }
                        }
                    }
                    cv.notify_all();
                }
                let _ = worker.child.kill();
                let _ = worker.child.wait();
            });
        }
    });
    let g = shared.0.lock().unwrap();
    let mut rep = Report::new("quichemc", &format!("{}[{}]", property, FAMILY));
    rep.states = g.executions;
    rep.transitions = g.transitions;
    rep.executions = g.executions;
    rep.distinct_outcomes = g.outcomes.len() as u64;
    rep.max_depth = g.per_case.values().map(|x| x.2 as u64).max().unwrap_or(0);
    rep.exhaustive = !g.capped && g.unexpanded == 0;
    if g.capped {
        rep.cap_hit = Some(format!("wall cap {:.0}s hit; the queue was cut", wall));
    }
    rep.completed_bound = Some(format!("{} scenarios ({}); deviation bound k per scenario as listed in x_cases ({}); executions per k {:?}", cases.len(), tier.pick("3-wise covering subsets of the 176-scenario echo grid and of the 64-scenario sink grid", "full echo grid + full sink grid"), tier.pick("k<=2 on 14-byte echo transfers, k<=1 elsewhere", "k<=2 on 14-byte and 5 KB echo transfers, k<=1 elsewhere"), g.per_k));
    rep.samples = g.samples.clone();
    let mut case_list = Vec::new();
    for (i, c) in cases.iter().enumerate() {
        let pc = g.per_case.get(&i).copied().unwrap_or((0, 0, 0));
        case_list.push(Json::obj().set("scenario", c.scn.name.as_str()).set("k", c.k).set("menu", c.menu.iter().map(|a| a.code()).collect::<Vec<_>>()).set("executions", pc.0).set("datagram_decisions", pc.1).set("k_reached", pc.2));
    }
    rep.extra.push(("x_cases".into(), Json::Arr(case_list)));
    rep.extra.push(("x_distinct_observation_hashes".into(), Json::Int(g.hashes.len() as i128)));
    rep.extra.push(("x_scenarios_not_expanded_because_baseline_violates".into(), Json::Int(g.unexpanded as i128)));
    rep.extra.push(("x_reruns".into(), Json::Int(g.verified as i128)));
    rep.extra.push(("x_reruns_identical_packetisation".into(), Json::Int(g.strict_same as i128)));
    rep.extra.push(("x_reruns_with_other_packetisation".into(), Json::Arr(g.strict_diff.iter().map(|s| Json::Str(s.clone())).collect())));
    // shortest schedule first, one violation per (scenario, clause)
    let mut vs = g.violations.clone();
    vs.sort_by_key(|(j, c, _)| (j.schedule.len(), j.case, c.clone(), schedule_string(&j.schedule)));
    let mut seen = HashSet::new();
    for (job, clause, detail) in vs {
        let case = &cases[job.case];
        if !seen.insert((job.case, clause.clone())) {
            continue;
        }
        let sched = schedule_string(&job.schedule);
        let mut v = Violation::new(&clause, detail.clone());
        v.fingerprint = format!("quichemc|{}|{}|{}|[{}]", FAMILY, case.scn.name, clause, sched);
        v.replay = Json::obj()
            .set("engine", "quichemc")
            .set("family", FAMILY)
            .set("scenario", case.scn.name.as_str())
            .set("scenario_description", case.scn.describe())
            .set("schedule", sched)
            .set("clause", clause.as_str())
            .set("detail", detail.as_str());
        rep.violations.push(v);
        if rep.violations.len() >= 24 {
            break;
        }
    }
    for m in g.machinery.iter().take(3) {
        rep.violations.push(Violation::new("machinery.nondeterminism", m.clone()));
    }
    rep.wall_s = t0.elapsed().as_secs_f64();
    let mut out = Output::new();
    out.push(rep);
    out.write(out_path);
}

fn find_scenario(name: &str) -> Option<Scenario> {
    full_grid().into_iter().chain(sink_grid()).find(|s| s.name == name)
}

fn replay_main(path: &str) {
    quiet_panics();
    let text = std::fs::read_to_string(path).expect("read replay file");
    let j = Json::parse(&text).expect("parse replay file");
    let name = j.get("scenario").and_then(|x| x.as_str()).expect("scenario");
    let sched = j.get("schedule").and_then(|x| x.as_str()).unwrap_or("");
    let Some(scn) = find_scenario(name) else {
        eprintln!("replay: unknown scenario {}", name);
        std::process::exit(2);
    };
    let cases = vec![Case { scn, k: 0, menu: vec![] }];
    let job = Job { case: 0, schedule: parse_schedule(sched).expect("schedule"), verify: None };
    let res = run_job(&cases, &job, &cert_files());
    println!("replay: scenario {} schedule [{}] datagrams {} outcome {}", cases[0].scn.name, sched, res.n_dgrams, res.outcome);
    if res.violations.is_empty() {
        println!("replay: no violation");
    } else {
        for (c, d) in &res.violations {
            println!("replay: VIOLATED {}: {}", c, d);
        }
        std::process::exit(1);
    }
}

fn kind_of(payload: &[u8]) -> &'static str {
    match payload.first() {
        None => "empty",
        Some(b) if b & 0x80 == 0 => "1rtt",
        Some(b) => match (b >> 4) & 3 {
            0 => "initial",
            1 => "0rtt",
            2 => "handshake",
            _ => "retry",
        },
    }
}

fn probe_main(args: &[String]) {
    let tier = Tier::from_env();
    let all = cases(tier);
    let which = args.get(1).map(|s| s.as_str()).unwrap_or("0");
    let mut scn = match which.parse::<usize>() {
        Ok(i) => all[i].scn.clone(),
        Err(_) => find_scenario(which).expect("scenario name"),
    };
    if std::env::var("QUICHEMC_CONTROL").is_ok() {
        // same script, both endpoints s2n-quic
        scn = scn.control();
    }
    let sched = args.get(2).and_then(|s| parse_schedule(s)).unwrap_or_default();
    let certs = cert_files();
    let reps: usize = std::env::var("QUICHEMC_REPEAT").ok().and_then(|s| s.parse().ok()).unwrap_or(1);
    for _ in 0..reps {
        let t0 = std::time::Instant::now();
        let r = execute(&scn, sched.clone(), &certs);
        let wall = t0.elapsed();
        let (h, strict) = trace_hash(&scn, &r);
        println!("{}: wall {:?} dgrams={} app={} end_t={}us outcome={} hash={:08x} strict={:08x} quiche={:?} stalled={:?} panicked={:?} rand_calls={}", scn.name, wall, r.dgrams.len(), r.app.len(), r.end_t, outcome_class(&scn, &r), h as u32, strict as u32, r.quiche, r.stalled, r.panicked, clock::rand_calls());
        if std::env::var("QUICHEMC_VERBOSE").is_ok() {
            for d in &r.dgrams {
                println!("  #{} t={} from={} len={} kind={} act={} delivered={:?}", d.idx, d.t, d.from, d.payload.len(), kind_of(&d.payload), d.action, d.delivered_at);
            }
            for a in &r.app {
                println!("  app t={} ep={} {:?}", a.t, a.ep, a.ev);
            }
            for f in &r.frames {
                println!("  frame t={} ep={} {} {}", f.0, f.1, f.2, f.3);
            }
            for c in &r.closed {
                println!("  closed {:?}", c);
            }
            for h in &r.handshake {
                println!("  handshake {:?}", h);
            }
        }
        for (c, d) in oracle::check(&scn, &r) {
            println!("  VIOLATION {}: {}", c, d);
        }
    }
}

fn main() {
    let args: Vec<String> = std::env::args().skip(1).collect();
    match args.first().map(|s| s.as_str()) {
        Some("worker") => worker_main(),
        Some("run") => {
            let prop = args.get(1).expect("property id");
            let out = args.iter().position(|a| a == "--out").and_then(|i| args.get(i + 1)).expect("--out");
            master(prop, out);
        }
        Some("replay") => replay_main(&args[1]),
        Some("probe") => probe_main(&args),
        Some("list") => {
            for (i, c) in cases(Tier::from_env()).iter().enumerate() {
                println!("{:3} k={} {}", i, c.k, c.scn.describe());
            }
        }
        Some("selftest") => match clock::self_test() {
            Ok(()) => println!("self-test ok: std::time::Instant::now() follows the harness clock; RAND_bytes follows the harness seed"),
            Err(e) => {
                eprintln!("{}", e);
                std::process::exit(2);
            }
        },
        _ => {
            eprintln!("usage: quichemc run C07 --out f | worker | replay f | probe <scenario|index> [sched] | list | selftest");
            std::process::exit(2);
        }
    }
}

// The harness-owned network: one decision per datagram, default "deliver after the base delay".
// Reduced copy of netmc's net.rs (same canonical ordering, same schedule syntax): only the three
// deviations C07 uses — Drop, Dup, Delay — plus the virtual-clock synchronisation in `execute` and
// in the delivery task, so that quiche's Instant::now() follows the executor's time.
#![allow(dead_code)]
use crate::record::{now_ns, now_us, Dgram, Rec, CLIENT, SERVER};
use s2n_quic::provider::io::testing::{
    network::{Buffers, Network, Packet},
    spawn,
    time::delay_until,
};
use std::collections::BTreeMap;
use std::net::SocketAddr;
use std::sync::{Arc, Mutex};
use std::time::Duration;

#[derive(Clone, Debug, PartialEq, Eq, PartialOrd, Ord)]
pub enum Action {
    Deliver,
    Drop,
    /// deliver twice, the copy `extra_us` later
    Dup(u64),
    /// deliver after `mult` x base delay (arrives after the next flight)
    Delay(u32),
}

impl Action {
    pub fn code(&self) -> String {
        match self {
            Action::Deliver => "-".into(),
            Action::Drop => "D".into(),
            Action::Dup(us) => format!("U{}", us),
            Action::Delay(m) => format!("L{}", m),
        }
    }
    pub fn parse(s: &str) -> Option<Action> {
        let (h, t) = s.split_at(1);
        Some(match h {
            "-" => Action::Deliver,
            "D" => Action::Drop,
            "U" => Action::Dup(t.parse().ok()?),
            "L" => Action::Delay(t.parse().ok()?),
            _ => return None,
        })
    }
}

pub type Schedule = Vec<(u32, Action)>;

pub fn schedule_string(s: &Schedule) -> String {
    s.iter().map(|(i, a)| format!("{}{}", i, a.code())).collect::<Vec<_>>().join(",")
}

pub fn parse_schedule(s: &str) -> Option<Schedule> {
    let mut out = Vec::new();
    for part in s.split(',') {
        if part.is_empty() {
            continue;
        }
        let pos = part.find(|c: char| !c.is_ascii_digit())?;
        let idx: u32 = part[..pos].parse().ok()?;
        out.push((idx, Action::parse(&part[pos..])?));
    }
    Some(out)
}

pub struct NetShared {
    pub schedule: BTreeMap<u32, Action>,
    pub next_idx: u32,
    pub base_delay: Duration,
    pub client_addr: Option<SocketAddr>,
    pub server_addr: Option<SocketAddr>,
    /// largest UDP payload the network carries
    pub mtu: usize,
}

pub struct ChoiceNet {
    pub shared: Arc<Mutex<NetShared>>,
    pub rec: Rec,
}

impl ChoiceNet {
    pub fn new(schedule: &Schedule, base_delay: Duration, mtu: usize, rec: Rec) -> ChoiceNet {
        let shared = NetShared { schedule: schedule.iter().cloned().collect(), next_idx: 0, base_delay, client_addr: None, server_addr: None, mtu };
        ChoiceNet { shared: Arc::new(Mutex::new(shared)), rec }
    }
}

fn deliver(buffers: &Buffers, mut packet: Packet, at_us: u64, now: u64, rec: &Rec, idx: usize) {
    packet.switch();
    let buffers = buffers.clone();
    let rec = rec.clone();
    let when = s2n_quic::provider::io::testing::time::now() + Duration::from_micros(at_us - now);
    spawn(async move {
        if at_us != now {
            delay_until(when).await;
        }
        let t = now_us();
        crate::clock::set_virtual_ns(now_ns());
        buffers.rx(*packet.path.local_address, |queue| {
            queue.enqueue(packet);
        });
        if let Some(d) = rec.0.lock().unwrap().dgrams.get_mut(idx) {
            d.delivered_at.push(t);
        }
    });
}

impl Network for ChoiceNet {
    fn execute(&mut self, buffers: &Buffers) -> usize {
        let mut packets: Vec<Packet> = Vec::new();
        buffers.drain_pending_transmissions(|p| {
            packets.push(p);
            Ok(())
        });
        if packets.is_empty() {
            return 0;
        }
        // canonical order: by source address (the per-source order is already FIFO); the drain
        // iterates a HashMap in RandomState order
        packets.sort_by_key(|p| {
            let a: SocketAddr = p.path.local_address.0.into();
            a
        });
        let now = now_us();
        crate::clock::set_virtual_ns(now_ns());
        let mut sh = self.shared.lock().unwrap();
        let base = sh.base_delay.as_micros() as u64;
        let mut count = 0;
        for packet in packets {
            let src: SocketAddr = packet.path.local_address.0.into();
            let dst: SocketAddr = packet.path.remote_address.0.into();
            let from = if Some(src) == sh.server_addr { SERVER } else { CLIENT };
            let idx = sh.next_idx;
            sh.next_idx += 1;
            let mut action = sh.schedule.get(&idx).cloned().unwrap_or(Action::Deliver);
            let mut label = action.code();
            // the network silently drops what exceeds its MTU
            if packet.payload.len() > sh.mtu {
                action = Action::Drop;
                label = "mtu".into();
            }
            let mut d = Dgram { idx, t: now, from, src, dst, payload: packet.payload.clone(), action: label, delivered_at: vec![], delivered_len: packet.payload.len(), delivered_intact: true };
            let ridx = self.rec.0.lock().unwrap().dgrams.len();
            match action {
                Action::Deliver => {
                    self.rec.0.lock().unwrap().dgrams.push(d);
                    deliver(buffers, packet, now + base, now, &self.rec, ridx);
                }
                Action::Drop => {
                    d.delivered_len = 0;
                    self.rec.0.lock().unwrap().dgrams.push(d);
                }
                Action::Dup(extra) => {
                    self.rec.0.lock().unwrap().dgrams.push(d);
                    deliver(buffers, packet.clone(), now + base, now, &self.rec, ridx);
                    deliver(buffers, packet, now + base + extra, now, &self.rec, ridx);
                }
                Action::Delay(m) => {
                    self.rec.0.lock().unwrap().dgrams.push(d);
                    deliver(buffers, packet, now + base * m as u64, now, &self.rec, ridx);
                }
            }
            count += 1;
        }
        count
    }
}

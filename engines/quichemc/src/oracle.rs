// The C07 oracle: a pure function over the record of one execution.
//
//   c07.handshake        both sides complete the handshake (s2n connect/accept Ok, quiche
//                        is_established)
//   c07.data             every chunk either application reads equals the PRF payload the other one
//                        wrote at that offset; at FIN the total equals the size written
//   c07.transport_error  neither side terminates with a transport error: quiche local_error()
//                        (quiche objected to what s2n-quic sent) / peer_error() (s2n-quic objected
//                        to what quiche sent) carry no transport code other than NO_ERROR; no
//                        s2n-quic connection_closed event or API error of kind Transport
//   c07.unexpected_close any other termination the script did not issue (application close with a
//                        code other than the script's 0, stateless reset, handshake timer, ...)
//   c07.idle_timeout     an idle timeout on either side before both transfers completed
//   c07.complete         every stream reaches EOF with the full size on both sides before the
//                        virtual-time horizon (all deviations are finite, so the network recovers)
//   c07.panic            a panic / stall inside the execution
use crate::record::{api_error_kind, App, Record, CLIENT, SERVER};
use crate::scenario::{Role, Scenario};
use std::collections::BTreeMap;

fn side(scn: &Scenario, ep: u8) -> &'static str {
    match (scn.role, ep) {
        (Role::S2nClient, CLIENT) => "s2n-quic client",
        (Role::S2nClient, _) => "quiche server",
        (Role::S2nServer, CLIENT) => "quiche client",
        (Role::S2nServer, _) => "s2n-quic server",
        (Role::Control, CLIENT) => "s2n-quic client (control)",
        (Role::Control, _) => "s2n-quic server (control)",
    }
}

pub fn s2n_ep(scn: &Scenario) -> u8 {
    if scn.role == Role::S2nClient {
        CLIENT
    } else {
        SERVER
    }
}

pub struct Summary {
    pub connected: [bool; 2],
    /// (ep, stream) -> bytes read so far
    pub read: BTreeMap<(u8, u64), u64>,
    /// (ep, stream) -> total at EOF
    pub eof: BTreeMap<(u8, u64), u64>,
    pub errors: Vec<(u8, String)>,
    pub timeouts: Vec<(u8, String)>,
    pub script_closed: bool,
}

pub fn summarize(r: &Record) -> Summary {
    let mut s = Summary { connected: [false; 2], read: BTreeMap::new(), eof: BTreeMap::new(), errors: vec![], timeouts: vec![], script_closed: false };
    for a in &r.app {
        match &a.ev {
            App::Connected | App::Accepted => s.connected[a.ep as usize] = true,
            App::Read { stream, len, .. } => *s.read.entry((a.ep, *stream)).or_insert(0) += *len as u64,
            App::Eof { stream, total } => {
                s.eof.insert((a.ep, *stream), *total);
            }
            App::ConnectError(e) | App::OpenError(e) | App::QuicheRecvError(e) | App::QuicheSendError(e) => s.errors.push((a.ep, format!("{:?}", a.ev).chars().take(40).collect::<String>() + " " + e)),
            App::ReadError { stream, off, err } => s.errors.push((a.ep, format!("read stream {} at {}: {}", stream, off, err))),
            App::WriteError { stream, off, err } => s.errors.push((a.ep, format!("write stream {} at {}: {}", stream, off, err))),
            App::FinishError { stream, err } => s.errors.push((a.ep, format!("finish stream {}: {}", stream, err))),
            App::TaskTimeout { name } => s.timeouts.push((a.ep, name.clone())),
            App::Close => s.script_closed = true,
            _ => {}
        }
    }
    s
}

pub fn transfers_complete(scn: &Scenario, s: &Summary) -> bool {
    (0..scn.n_streams()).all(|i| {
        let id = scn.stream_id(i);
        // the server reads the request, the client reads the response
        s.eof.get(&(CLIENT, id)) == Some(&(scn.resp_size(i) as u64)) && s.eof.get(&(SERVER, id)) == Some(&(scn.req_size(i) as u64))
    })
}

pub fn check(scn: &Scenario, r: &Record) -> Vec<(String, String)> {
    let mut out: Vec<(String, String)> = Vec::new();
    let s = summarize(r);
    let s2n = s2n_ep(scn);
    let quiche = 1 - s2n;
    let complete = transfers_complete(scn, &s);

    if let Some(p) = &r.panicked {
        out.push(("c07.panic".into(), format!("panic inside the execution: {}", p.lines().next().unwrap_or(""))));
    }
    if let Some(p) = &r.stalled {
        out.push(("c07.panic".into(), format!("executor stalled: {}", p.lines().next().unwrap_or(""))));
    }

    // ---- transport errors / terminations
    let mut terminated = false;
    if let Some((is_app, code, reason)) = &r.quiche.local_error {
        if !*is_app && *code != 0 {
            terminated = true;
            out.push(("c07.transport_error".into(), format!("{} terminated the connection with transport error 0x{:x} ({:?}): it rejected what s2n-quic put on the wire", side(scn, quiche), code, reason)));
        } else if *is_app && !(s.script_closed && *code == 0) {
            terminated = true;
            out.push(("c07.unexpected_close".into(), format!("{} closed with application code {} which the script never issues", side(scn, quiche), code)));
        }
    }
    if let Some((is_app, code, reason)) = &r.quiche.peer_error {
        if !*is_app && *code != 0 {
            terminated = true;
            out.push(("c07.transport_error".into(), format!("{} terminated the connection with transport error 0x{:x} ({:?}) while reading quiche's packets", side(scn, s2n), code, reason)));
        } else if *is_app && !(s.script_closed && *code == 0) {
            terminated = true;
            out.push(("c07.unexpected_close".into(), format!("{} sent an application close with code {} which the script never issues", side(scn, s2n), code)));
        }
    }
    let mut idle = Vec::new();
    for c in &r.closed {
        match c.kind.as_str() {
            "Closed" => {}
            // the script's own close (application code 0), seen locally or from the peer
            "Application" if c.transport_code == Some(0) && s.script_closed => {}
            "Transport" => {
                terminated = true;
                out.push(("c07.transport_error".into(), format!("{} connection_closed event at t={}us: {}", side(scn, c.ep), c.t, c.error)));
            }
            "IdleTimerExpired" => idle.push(format!("{} idle timer expired at t={}us", side(scn, c.ep), c.t)),
            _ => {
                terminated = true;
                out.push(("c07.unexpected_close".into(), format!("{} connection_closed event at t={}us: {}", side(scn, c.ep), c.t, c.error)));
            }
        }
    }
    if r.quiche.timed_out {
        idle.push(format!("{} idle timer expired", side(scn, quiche)));
    }
    for (ep, e) in &s.errors {
        if (*ep == s2n || scn.role == Role::Control) && api_error_kind(e) == "Transport" && !out.iter().any(|(c, _)| c == "c07.transport_error") {
            terminated = true;
            out.push(("c07.transport_error".into(), format!("{} API error: {}", side(scn, *ep), e)));
        }
    }
    if !idle.is_empty() && !complete {
        terminated = true;
        out.push(("c07.idle_timeout".into(), format!("{} before the transfers completed", idle.join("; "))));
    }

    // ---- data
    for a in &r.app {
        match &a.ev {
            App::Read { stream, off, len, ok: false, first_bad } => {
                out.push(("c07.data".into(), format!("{} read {} bytes at offset {} of stream {}: byte {} differs from what the peer wrote", side(scn, a.ep), len, off, stream, first_bad.unwrap_or(0))));
                break;
            }
            _ => {}
        }
    }
    for ((ep, id), total) in &s.eof {
        match if *ep == SERVER { scn.req_size_of_id(*id) } else { scn.resp_size_of_id(*id) } {
            Some(size) if size as u64 == *total => {}
            Some(size) => out.push(("c07.data".into(), format!("{} saw FIN of stream {} after {} bytes, the peer wrote {}", side(scn, *ep), id, total, size))),
            None => out.push(("c07.data".into(), format!("{} saw a stream {} nobody opened", side(scn, *ep), id))),
        }
    }
    for ((ep, id), n) in &s.read {
        if let Some(size) = if *ep == SERVER { scn.req_size_of_id(*id) } else { scn.resp_size_of_id(*id) } {
            if *n > size as u64 {
                out.push(("c07.data".into(), format!("{} read {} bytes of stream {}, the peer wrote only {}", side(scn, *ep), n, id, size)));
            }
        }
    }

    // ---- handshake / completion
    let hs_ok = s.connected[0] && s.connected[1];
    if !hs_ok {
        let detail = format!(
            "handshake incomplete: {} {}, {} {}; errors {:?}; s2n close events {:?}; quiche local_error {:?} peer_error {:?}; end t={}us",
            side(scn, CLIENT),
            if s.connected[0] { "connected" } else { "NOT connected" },
            side(scn, SERVER),
            if s.connected[1] { "established" } else { "NOT established" },
            s.errors,
            r.closed.iter().map(|c| format!("{}:{}", side(scn, c.ep), c.kind)).collect::<Vec<_>>(),
            r.quiche.local_error,
            r.quiche.peer_error,
            r.end_t
        );
        out.push(("c07.handshake".into(), detail));
    } else if !complete && !terminated {
        let mut prog = Vec::new();
        for i in 0..scn.n_streams() {
            let id = scn.stream_id(i);
            prog.push(format!(
                "stream {} (request {} B, response {} B): server read {}{} client read {}{}",
                id,
                scn.req_size(i),
                scn.resp_size(i),
                s.read.get(&(SERVER, id)).copied().unwrap_or(0),
                if s.eof.contains_key(&(SERVER, id)) { "+FIN" } else { "" },
                s.read.get(&(CLIENT, id)).copied().unwrap_or(0),
                if s.eof.contains_key(&(CLIENT, id)) { "+FIN" } else { "" }
            ));
        }
        out.push(("c07.complete".into(), format!("transfers incomplete at the horizon: {}; errors {:?}; timeouts {:?}; quiche {}", prog.join("; "), s.errors, s.timeouts, r.quiche.stats)));
    }
    out
}

// What one execution exposes: the datagram log, the application log of both endpoints (the
// s2n-quic one through its public API, the quiche one through its connection object), the
// s2n-quic `connection_closed` events and quiche's final error state.  The oracle is a pure
// function over this record.
#![allow(dead_code)]
use s2n_quic::provider::event::{self, events};
use std::sync::{Arc, Mutex};

pub const CLIENT: u8 = 0;
pub const SERVER: u8 = 1;

pub fn now_us() -> u64 {
    let t = s2n_quic::provider::io::testing::time::now();
    (unsafe { t.as_duration() }).as_micros() as u64
}

pub fn now_ns() -> u64 {
    let t = s2n_quic::provider::io::testing::time::now();
    (unsafe { t.as_duration() }).as_nanos() as u64
}

#[derive(Clone, Debug)]
pub struct Dgram {
    pub idx: u32,
    pub t: u64,
    /// endpoint that sent it (CLIENT / SERVER), 2 = injected by the harness
    pub from: u8,
    pub src: std::net::SocketAddr,
    pub dst: std::net::SocketAddr,
    pub payload: Vec<u8>,
    pub action: String,
    /// delivery times (after the action was applied); empty = never delivered
    pub delivered_at: Vec<u64>,
    pub delivered_len: usize,
    pub delivered_intact: bool,
}

#[derive(Clone, Debug)]
pub enum App {
    /// handshake completed as seen by the application of this endpoint
    Connected,
    ConnectError(String),
    Accepted,
    StreamOpened { stream: u64 },
    StreamAccepted { stream: u64 },
    OpenError(String),
    Write { stream: u64, off: u64, len: usize },
    WriteError { stream: u64, off: u64, err: String },
    Finish { stream: u64, total: u64 },
    FinishError { stream: u64, err: String },
    Read { stream: u64, off: u64, len: usize, ok: bool, first_bad: Option<u64> },
    Eof { stream: u64, total: u64 },
    ReadError { stream: u64, off: u64, err: String },
    /// the script closed the connection (application close, code 0)
    Close,
    TaskDone { name: String },
    TaskTimeout { name: String },
    /// quiche: `recv` returned an error other than `Done`
    QuicheRecvError(String),
    /// quiche: `send` returned an error other than `Done`
    QuicheSendError(String),
}

#[derive(Clone, Debug)]
pub struct AppEv {
    pub t: u64,
    pub ep: u8,
    pub ev: App,
}

/// s2n-quic `connection_closed` event
#[derive(Clone, Debug)]
pub struct Closed {
    pub t: u64,
    pub ep: u8,
    pub error: String,
    pub kind: String,
    pub transport_code: Option<u64>,
}

/// quiche's view when its task ended
#[derive(Clone, Debug, Default)]
pub struct QuicheEnd {
    pub present: bool,
    pub established: bool,
    pub closed: bool,
    pub timed_out: bool,
    /// (is_app, code, reason) of the CONNECTION_CLOSE quiche received
    pub peer_error: Option<(bool, u64, String)>,
    /// (is_app, code, reason) of the CONNECTION_CLOSE quiche sent
    pub local_error: Option<(bool, u64, String)>,
    pub stats: String,
}

#[derive(Default, Debug)]
pub struct Record {
    pub dgrams: Vec<Dgram>,
    pub app: Vec<AppEv>,
    pub closed: Vec<Closed>,
    pub handshake: Vec<(u64, u8, String)>,
    pub quiche: QuicheEnd,
    /// s2n-quic frame_sent / frame_received events (only recorded when QUICHEMC_VERBOSE is set)
    pub frames: Vec<(u64, u8, &'static str, String)>,
    pub stalled: Option<String>,
    pub panicked: Option<String>,
    pub end_t: u64,
}

#[derive(Clone, Default)]
pub struct Rec(pub Arc<Mutex<Record>>);

impl Rec {
    pub fn app(&self, ep: u8, ev: App) {
        let t = now_us();
        self.0.lock().unwrap().app.push(AppEv { t, ep, ev });
    }
}

// ------------------------------------------------------------------------------------------
// event subscriber (s2n-quic side)
// ------------------------------------------------------------------------------------------

pub struct Sub {
    pub ep: u8,
    pub rec: Rec,
}

pub fn verbose() -> bool {
    static V: std::sync::OnceLock<bool> = std::sync::OnceLock::new();
    *V.get_or_init(|| std::env::var("QUICHEMC_VERBOSE").is_ok())
}

pub fn variant_name<T: std::fmt::Debug>(t: &T) -> String {
    let s = format!("{:?}", t);
    s.split(|c: char| !(c.is_alphanumeric() || c == '_')).next().unwrap_or("").to_string()
}

impl event::Subscriber for Sub {
    type ConnectionContext = ();

    fn create_connection_context(&mut self, _meta: &events::ConnectionMeta, _info: &events::ConnectionInfo) -> Self::ConnectionContext {}

    fn on_connection_closed(&mut self, _c: &mut (), _meta: &events::ConnectionMeta, e: &events::ConnectionClosed) {
        let (kind, code) = classify_error(&e.error);
        let t = now_us();
        self.rec.0.lock().unwrap().closed.push(Closed { t, ep: self.ep, error: format!("{:?}", e.error), kind, transport_code: code });
    }
    fn on_frame_sent(&mut self, _c: &mut (), _meta: &events::ConnectionMeta, e: &events::FrameSent) {
        if verbose() {
            let t = now_us();
            self.rec.0.lock().unwrap().frames.push((t, self.ep, "tx", format!("{:?} {:?}", e.packet_header, e.frame)));
        }
    }
    fn on_frame_received(&mut self, _c: &mut (), _meta: &events::ConnectionMeta, e: &events::FrameReceived) {
        if verbose() {
            let t = now_us();
            self.rec.0.lock().unwrap().frames.push((t, self.ep, "rx", format!("{:?} {:?}", e.packet_header, e.frame)));
        }
    }
    fn on_handshake_status_updated(&mut self, _c: &mut (), _meta: &events::ConnectionMeta, e: &events::HandshakeStatusUpdated) {
        let t = now_us();
        self.rec.0.lock().unwrap().handshake.push((t, self.ep, variant_name(&e.status)));
    }
}

/// (kind, transport error code) of a connection error, from its public shape
pub fn classify_error(e: &s2n_quic::connection::Error) -> (String, Option<u64>) {
    use s2n_quic::connection::Error as E;
    match e {
        E::Closed { .. } => ("Closed".into(), None),
        E::Transport { code, .. } => ("Transport".into(), Some(code.as_u64())),
        // the application error code travels in the second slot for this kind
        E::Application { error, .. } => ("Application".into(), Some(u64::from(*error))),
        E::StatelessReset { .. } => ("StatelessReset".into(), None),
        E::IdleTimerExpired { .. } => ("IdleTimerExpired".into(), None),
        E::NoValidPath { .. } => ("NoValidPath".into(), None),
        E::StreamIdExhausted { .. } => ("StreamIdExhausted".into(), None),
        E::MaxHandshakeDurationExceeded { .. } => ("MaxHandshakeDurationExceeded".into(), None),
        E::ImmediateClose { .. } => ("ImmediateClose".into(), None),
        E::EndpointClosing { .. } => ("EndpointClosing".into(), None),
        E::InvalidConfiguration { .. } => ("InvalidConfiguration".into(), None),
        E::Unspecified { .. } => ("Unspecified".into(), None),
        _ => (variant_name(e), None),
    }
}

/// the same classification from the Debug rendering of a stream / connection error returned by the
/// application API (`StreamError::ConnectionError { error: Transport { .. } }` ...)
pub fn api_error_kind(text: &str) -> &'static str {
    for k in ["Transport", "IdleTimerExpired", "StatelessReset", "NoValidPath", "MaxHandshakeDurationExceeded", "ImmediateClose", "Application", "StreamReset", "Closed"] {
        if text.contains(k) {
            return k;
        }
    }
    "Other"
}

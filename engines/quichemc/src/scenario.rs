// Scenarios (role x windows x limits x datagram size x transfer size), the two peers — a real
// s2n-quic endpoint and a quiche connection driven as a task of the same deterministic executor —
// and one complete execution.
#![allow(dead_code)]
use crate::clock;
use crate::mccore::prf_byte;
use crate::net::{ChoiceNet, Schedule};
use crate::record::{now_us, App, QuicheEnd, Rec, Record, Sub, CLIENT, SERVER};
use bytes::Bytes;
use futures::future::{select, Either};
use s2n_quic::{
    client::Connect,
    provider::{
        io::testing::{primary, spawn, time, Executor, Handle},
        limits::Limits as QLimits,
        tls::default as s2n_tls_provider,
    },
    stream::PeerStream,
    Client, Server,
};
use s2n_quic_core::{crypto::tls::testing::certificates, inet::ExplicitCongestionNotification};
use s2n_quic_platform::io::testing::Socket;
use std::collections::BTreeMap;
use std::net::SocketAddr;
use std::panic::{catch_unwind, AssertUnwindSafe};
use std::sync::{Arc, Mutex};
use std::time::Duration;

// ------------------------------------------------------------------------------------------
// scenario
// ------------------------------------------------------------------------------------------

#[derive(Clone, Copy, Debug, PartialEq, Eq, PartialOrd, Ord)]
pub enum Role {
    /// s2n-quic client <-> quiche server
    S2nClient,
    /// quiche client <-> s2n-quic server
    S2nServer,
    /// s2n-quic client <-> s2n-quic server under the same script and oracle: not part of the grid;
    /// the control experiment for seeded changes ("does it break interop only?")
    Control,
}

/// what the applications do on every stream
#[derive(Clone, Copy, Debug, PartialEq, Eq, PartialOrd, Ord)]
pub enum Mode {
    /// request of n bytes; the server answers every byte it reads with one byte of its own PRF
    /// stream (both directions flow at the same time)
    Echo,
    /// upload: the client writes the bulk, the server ONLY READS until FIN and then answers with
    /// `SINK_REPLY` bytes
    SinkUp,
    /// download: the client writes `SINK_REPLY` bytes + FIN and then ONLY READS the bulk the server
    /// sends after that FIN
    SinkDown,
}

/// the connection-level window of the bulk receiver in the sink scenarios (its stream windows stay
/// large: s2n-quic default / quiche 1 MB), so MAX_DATA alone paces the transfer
pub const SINK_CONN_WINDOWS: [u64; 2] = [4 * 1024, 12 * 1024];
pub const SINK_TRANSFERS: [usize; 2] = [40 * 1024, 200 * 1024];
pub const SINK_STREAMS: [usize; 2] = [1, 2];
pub const SINK_REPLY: usize = 8;

pub const S2N_WINDOWS: [Option<u64>; 3] = [Some(20), Some(1024), None];
pub const QUICHE_WINDOWS: [u64; 3] = [20, 1024, 1 << 20];
pub const STREAM_LIMITS: [u64; 2] = [1, 3];
pub const DATAGRAM_SIZES: [u16; 2] = [1200, 1350];
pub const TRANSFERS: [usize; 3] = [14, 5 * 1024, 40 * 1024];
/// through a 20-byte stream window a transfer is cut to 50 windows (1000 B): 5 KB / 40 KB would be
/// 250 / 2000 window round trips per direction
pub const TINY_WINDOW_TRANSFER_CAP: usize = 1000;
pub const SECONDARY_STREAM_CAP: usize = 1000;

#[derive(Clone, Debug)]
pub struct Scenario {
    pub name: String,
    pub role: Role,
    /// s2n-quic stream data windows (bidi local/remote, uni); None = library default
    pub s2n_window: Option<u64>,
    /// quiche initial_max_stream_data_* (and initial_max_data, see `conn_window`)
    pub quiche_window: u64,
    /// concurrent bidirectional streams either side lets its peer open
    pub stream_limit: u64,
    /// maximum UDP payload either endpoint sends / accepts; also the network's limit
    pub mds: u16,
    /// echo: bytes of the request and of the response on the first stream; sink: total bulk bytes
    /// (split evenly over the streams)
    pub size: usize,
    pub mode: Mode,
    /// sink scenarios: streams the client opens concurrently
    pub sink_streams: usize,
    /// s2n-quic connection window when it is decoupled from the stream windows (sink scenarios in
    /// which s2n-quic receives the bulk)
    pub s2n_conn_window: Option<u64>,
    /// quiche initial_max_data when decoupled (sink scenarios in which quiche receives the bulk)
    pub quiche_conn_window: Option<u64>,
    pub horizon_ms: u64,
    pub base_delay_ms: u64,
    pub linger_ms: u64,
    pub seed: u64,
}

/// connection-level window that goes with a stream window: 20 B -> 20 B x streams, else the same
pub fn conn_window(stream_window: u64, streams: usize) -> u64 {
    if stream_window == 20 {
        20 * streams as u64
    } else {
        stream_window
    }
}

impl Scenario {
    pub fn new(role: Role, s2n_window: Option<u64>, quiche_window: u64, stream_limit: u64, mds: u16, size: usize) -> Scenario {
        let w = |v: u64| match v {
            20 => "20".to_string(),
            1024 => "1k".to_string(),
            _ => "1m".to_string(),
        };
        let name = format!(
            "{}-sw{}-qw{}-lim{}-mds{}-x{}",
            match role {
                Role::S2nClient => "s2nC_quicheS",
                Role::S2nServer => "quicheC_s2nS",
                Role::Control => "s2nC_s2nS",
            },
            s2n_window.map(w).unwrap_or("def".into()),
            w(quiche_window),
            stream_limit,
            mds,
            size
        );
        Scenario { name, role, s2n_window, quiche_window, stream_limit, mds, size, mode: Mode::Echo, sink_streams: 0, s2n_conn_window: None, quiche_conn_window: None, horizon_ms: 120_000, base_delay_ms: 25, linger_ms: 300, seed: 1 }
    }
    /// a sink scenario: the bulk receiver's connection window `cw` is far below its stream windows
    /// and below the transfer; the receiving application only reads while the bulk is in flight
    pub fn sink(role: Role, up: bool, cw: u64, streams: usize, mds: u16, size: usize) -> Scenario {
        let mut s = Scenario::new(role, None, 1 << 20, 3, mds, size);
        s.mode = if up { Mode::SinkUp } else { Mode::SinkDown };
        s.sink_streams = streams;
        // the receiver is the server for an upload, the client for a download
        let s2n_receives = match role {
            Role::S2nServer => up,
            Role::S2nClient => !up,
            Role::Control => true,
        };
        if s2n_receives {
            s.s2n_conn_window = Some(cw);
        } else {
            s.quiche_conn_window = Some(cw);
        }
        s.name = format!(
            "{}-{}-{}cw{}k-n{}-mds{}-x{}",
            match role {
                Role::S2nClient => "s2nC_quicheS",
                Role::S2nServer => "quicheC_s2nS",
                Role::Control => "s2nC_s2nS",
            },
            if up { "sinkup" } else { "sinkdown" },
            if s2n_receives { "s2n" } else { "quiche" },
            cw / 1024,
            streams,
            mds,
            size
        );
        s
    }
    /// the same script with s2n-quic on both sides (control experiment, not part of any tier)
    pub fn control(&self) -> Scenario {
        let mut c = self.clone();
        c.role = Role::Control;
        if c.mode != Mode::Echo && c.s2n_conn_window.is_none() {
            c.s2n_conn_window = c.quiche_conn_window;
        }
        c.name = format!("s2nC_s2nS[{}]", self.name);
        c
    }
    /// streams the client opens: limit 1 -> 2 (the second needs a MAX_STREAMS from the peer),
    /// limit 3 -> 3 concurrently
    pub fn n_streams(&self) -> usize {
        if self.mode != Mode::Echo {
            return self.sink_streams;
        }
        if self.stream_limit == 1 {
            2
        } else {
            3
        }
    }
    pub fn stream_id(&self, i: usize) -> u64 {
        4 * i as u64
    }
    /// echo: request = response size of the i-th stream
    pub fn stream_size(&self, i: usize) -> usize {
        if i == 0 {
            self.size
        } else {
            self.size.min(SECONDARY_STREAM_CAP)
        }
    }
    /// bytes the client writes on the i-th stream
    pub fn req_size(&self, i: usize) -> usize {
        match self.mode {
            Mode::Echo => self.stream_size(i),
            Mode::SinkUp => self.size / self.sink_streams,
            Mode::SinkDown => SINK_REPLY,
        }
    }
    /// bytes the server writes on the i-th stream
    pub fn resp_size(&self, i: usize) -> usize {
        match self.mode {
            Mode::Echo => self.stream_size(i),
            Mode::SinkUp => SINK_REPLY,
            Mode::SinkDown => self.size / self.sink_streams,
        }
    }
    fn index_of_id(&self, id: u64) -> Option<usize> {
        if id % 4 == 0 && ((id / 4) as usize) < self.n_streams() {
            Some((id / 4) as usize)
        } else {
            None
        }
    }
    pub fn req_size_of_id(&self, id: u64) -> Option<usize> {
        self.index_of_id(id).map(|i| self.req_size(i))
    }
    pub fn resp_size_of_id(&self, id: u64) -> Option<usize> {
        self.index_of_id(id).map(|i| self.resp_size(i))
    }
    pub fn describe(&self) -> String {
        format!(
            "{} role={:?} mode={:?} s2n_conn_window={:?} quiche_initial_max_data={:?} s2n_window={:?} quiche_window={} stream_limit={} max_datagram={} transfer={}B streams={} (request/response sizes {:?}) base_delay={}ms horizon={}ms",
            self.name,
            self.role,
            self.mode,
            self.s2n_conn_window,
            self.quiche_conn_window,
            self.s2n_window,
            self.quiche_window,
            self.stream_limit,
            self.mds,
            self.size,
            self.n_streams(),
            (0..self.n_streams()).map(|i| (self.req_size(i), self.resp_size(i))).collect::<Vec<_>>(),
            self.base_delay_ms,
            self.horizon_ms
        )
    }
    fn s2n_limits(&self) -> QLimits {
        let mut l = QLimits::new().with_pto_jitter_percentage(0).unwrap();
        if let Some(v) = self.s2n_window {
            l = l.with_bidirectional_local_data_window(v).unwrap().with_bidirectional_remote_data_window(v).unwrap().with_unidirectional_data_window(v).unwrap();
            l = l.with_data_window(conn_window(v, self.n_streams())).unwrap();
        }
        if let Some(cw) = self.s2n_conn_window {
            // decoupled: connection window far below the (default) stream windows
            l = l.with_data_window(cw).unwrap();
        }
        l = l.with_max_open_remote_bidirectional_streams(self.stream_limit).unwrap();
        l = l.with_max_open_remote_unidirectional_streams(self.stream_limit).unwrap();
        l
    }
    fn quiche_config(&self, dir: &CertFiles) -> Result<quiche::Config, String> {
        let e = |x: quiche::Error| format!("quiche config: {:?}", x);
        let mut c = quiche::Config::new(quiche::PROTOCOL_VERSION).map_err(e)?;
        c.set_application_protos(&[b"h3"]).map_err(e)?;
        match self.role {
            Role::S2nClient => {
                c.load_cert_chain_from_pem_file(&dir.cert).map_err(e)?;
                c.load_priv_key_from_pem_file(&dir.key).map_err(e)?;
            }
            Role::S2nServer | Role::Control => {
                // the repository's test certificate is its own trust anchor
                c.load_verify_locations_from_file(&dir.cert).map_err(e)?;
                c.verify_peer(true);
            }
        }
        c.set_max_idle_timeout(30_000);
        c.set_max_recv_udp_payload_size(self.mds as usize);
        c.set_max_send_udp_payload_size(self.mds as usize);
        c.set_initial_max_data(self.quiche_conn_window.unwrap_or(conn_window(self.quiche_window, self.n_streams())));
        c.set_initial_max_stream_data_bidi_local(self.quiche_window);
        c.set_initial_max_stream_data_bidi_remote(self.quiche_window);
        c.set_initial_max_stream_data_uni(self.quiche_window);
        c.set_initial_max_streams_bidi(self.stream_limit);
        c.set_initial_max_streams_uni(self.stream_limit);
        c.set_disable_active_migration(true);
        c.enable_pacing(false);
        c.grease(false);
        c.discover_pmtu(false);
        Ok(c)
    }
}

/// every point of the grid (after the tiny-window rule), in a fixed order
pub fn full_grid() -> Vec<Scenario> {
    let mut out: Vec<Scenario> = Vec::new();
    for role in [Role::S2nClient, Role::S2nServer] {
        for sw in S2N_WINDOWS {
            for qw in QUICHE_WINDOWS {
                for lim in STREAM_LIMITS {
                    for mds in DATAGRAM_SIZES {
                        for size in TRANSFERS {
                            let tiny = sw == Some(20) || qw == 20;
                            let size = if tiny { size.min(TINY_WINDOW_TRANSFER_CAP) } else { size };
                            let s = Scenario::new(role, sw, qw, lim, mds, size);
                            if !out.iter().any(|o| o.name == s.name) {
                                out.push(s);
                            }
                        }
                    }
                }
            }
        }
    }
    out
}

/// every sink scenario: role x direction of the bulk x receiver's connection window x streams x
/// datagram size x transfer
pub fn sink_grid() -> Vec<Scenario> {
    let mut out = Vec::new();
    for role in [Role::S2nClient, Role::S2nServer] {
        for up in [true, false] {
            for cw in SINK_CONN_WINDOWS {
                for streams in SINK_STREAMS {
                    for mds in DATAGRAM_SIZES {
                        for size in SINK_TRANSFERS {
                            out.push(Scenario::sink(role, up, cw, streams, mds, size));
                        }
                    }
                }
            }
        }
    }
    out
}

fn factors(s: &Scenario) -> Vec<String> {
    match s.mode {
        Mode::Echo => vec![format!("{:?}", s.role), format!("{:?}", s.s2n_window), format!("{}", s.quiche_window), format!("{}", s.stream_limit), format!("{}", s.mds), format!("{}", s.size)],
        _ => vec![
            format!("{:?}", s.role),
            format!("{:?}", s.mode),
            format!("{}", s.s2n_conn_window.or(s.quiche_conn_window).unwrap_or(0)),
            format!("{}", s.sink_streams),
            format!("{}", s.mds),
            format!("{}", s.size),
        ],
    }
}

/// deterministic greedy t-wise cover of the factors of `grid`: every combination of values of any
/// `t` factors that occurs in the grid occurs in the subset
pub fn covering_subset(grid: Vec<Scenario>, t: usize) -> Vec<Scenario> {
    let nf = grid.first().map(|s| factors(s).len()).unwrap_or(0);
    let mut subsets: Vec<Vec<usize>> = Vec::new();
    for mask in 0u32..(1 << nf) {
        if mask.count_ones() as usize == t {
            subsets.push((0..nf).filter(|i| mask & (1 << i) != 0).collect());
        }
    }
    let tuples_of = |s: &Scenario| -> Vec<(Vec<usize>, Vec<String>)> {
        let f = factors(s);
        subsets.iter().map(|idx| (idx.clone(), idx.iter().map(|&i| f[i].clone()).collect())).collect()
    };
    let all: Vec<Vec<(Vec<usize>, Vec<String>)>> = grid.iter().map(|s| tuples_of(s)).collect();
    let mut uncovered: std::collections::BTreeSet<(Vec<usize>, Vec<String>)> = all.iter().flatten().cloned().collect();
    let mut out = Vec::new();
    while !uncovered.is_empty() {
        let mut best = 0usize;
        let mut best_n = 0usize;
        for (i, ts) in all.iter().enumerate() {
            let n = ts.iter().filter(|p| uncovered.contains(*p)).count();
            if n > best_n {
                best_n = n;
                best = i;
            }
        }
        for p in &all[best] {
            uncovered.remove(p);
        }
        out.push(grid[best].clone());
    }
    out
}

pub const C2S: u64 = 0xC2_0000_0000;
pub const S2C: u64 = 0x52_0000_0000;

fn prf_bytes(key: u64, off: u64, len: usize) -> Vec<u8> {
    let mut v = vec![0u8; len];
    for (i, b) in v.iter_mut().enumerate() {
        *b = prf_byte(key, off + i as u64);
    }
    v
}

fn check_bytes(key: u64, off: u64, data: &[u8]) -> Option<u64> {
    for (i, b) in data.iter().enumerate() {
        if *b != prf_byte(key, off + i as u64) {
            return Some(off + i as u64);
        }
    }
    None
}

// ------------------------------------------------------------------------------------------
// certificate files for quiche (created at run time next to the executable)
// ------------------------------------------------------------------------------------------

#[derive(Clone, Debug)]
pub struct CertFiles {
    pub cert: String,
    pub key: String,
}

pub fn cert_files() -> CertFiles {
    let exe = std::env::current_exe().expect("current exe");
    let dir = exe.parent().expect("exe dir").join("quichemc-tmp");
    let _ = std::fs::create_dir_all(&dir);
    let put = |name: &str, content: &str| -> String {
        let path = dir.join(name);
        let same = std::fs::read_to_string(&path).map(|c| c == content).unwrap_or(false);
        if !same {
            // atomic: several worker processes may start at the same time
            let tmp = dir.join(format!("{}.{}", name, std::process::id()));
            std::fs::write(&tmp, content).expect("write certificate file");
            std::fs::rename(&tmp, &path).expect("rename certificate file");
        }
        path.to_string_lossy().to_string()
    };
    CertFiles { cert: put("cert.pem", certificates::CERT_PEM), key: put("key.pem", certificates::KEY_PEM) }
}

// ------------------------------------------------------------------------------------------
// deterministic providers for the s2n-quic endpoint (as in netmc)
// ------------------------------------------------------------------------------------------

pub struct DetRandom(pub u64);
impl DetRandom {
    fn next(&mut self) -> u64 {
        self.0 = self.0.wrapping_add(0x9e37_79b9_7f4a_7c15);
        let mut z = self.0;
        z = (z ^ (z >> 30)).wrapping_mul(0xbf58_476d_1ce4_e5b9);
        z = (z ^ (z >> 27)).wrapping_mul(0x94d0_49bb_1331_11eb);
        z ^ (z >> 31)
    }
    fn fill(&mut self, dest: &mut [u8]) {
        for chunk in dest.chunks_mut(8) {
            let v = self.next().to_le_bytes();
            chunk.copy_from_slice(&v[..chunk.len()]);
        }
    }
}
impl s2n_quic::provider::random::Provider for DetRandom {
    type Generator = Self;
    type Error = core::convert::Infallible;
    fn start(self) -> Result<Self::Generator, Self::Error> {
        Ok(self)
    }
}
impl s2n_quic::provider::random::Generator for DetRandom {
    fn public_random_fill(&mut self, dest: &mut [u8]) {
        self.fill(dest)
    }
    fn private_random_fill(&mut self, dest: &mut [u8]) {
        self.fill(dest)
    }
}

pub struct DetCid {
    pub seed: u64,
    pub ctr: u64,
}
impl s2n_quic::provider::connection_id::Generator for DetCid {
    fn generate(&mut self, _info: &s2n_quic::provider::connection_id::ConnectionInfo) -> s2n_quic::provider::connection_id::LocalId {
        self.ctr += 1;
        let a = crate::mccore::splitmix64(self.seed ^ self.ctr.wrapping_mul(0x1000_0001)).to_be_bytes();
        let b = crate::mccore::splitmix64(self.seed.rotate_left(17) ^ self.ctr).to_be_bytes();
        let mut id = [0u8; 16];
        id[..8].copy_from_slice(&a);
        id[8..].copy_from_slice(&b);
        (&id[..]).try_into().expect("16 byte id")
    }
    fn rotate_handshake_connection_id(&self) -> bool {
        true
    }
}
impl s2n_quic::provider::connection_id::Validator for DetCid {
    fn validate(&self, _info: &s2n_quic::provider::connection_id::ConnectionInfo, buffer: &[u8]) -> Option<usize> {
        if buffer.len() >= 16 {
            Some(16)
        } else {
            None
        }
    }
}

pub struct DetToken(pub u64);
impl s2n_quic::provider::stateless_reset_token::Generator for DetToken {
    const ENABLED: bool = true;
    fn generate(&mut self, local_connection_id: &[u8]) -> s2n_quic_core::stateless_reset::Token {
        let mut h = self.0;
        for b in local_connection_id {
            h = crate::mccore::splitmix64(h ^ *b as u64);
        }
        let mut t = [0u8; 16];
        t[..8].copy_from_slice(&h.to_be_bytes());
        t[8..].copy_from_slice(&crate::mccore::splitmix64(h ^ 0x7075).to_be_bytes());
        t.into()
    }
}
pub struct DetTokenProvider(pub u64);
impl s2n_quic::provider::stateless_reset_token::Provider for DetTokenProvider {
    type Generator = DetToken;
    type Error = core::convert::Infallible;
    fn start(self) -> Result<Self::Generator, Self::Error> {
        Ok(DetToken(self.0))
    }
}

// ------------------------------------------------------------------------------------------
// s2n-quic application logic
// ------------------------------------------------------------------------------------------

async fn with_deadline<F: std::future::Future<Output = ()>>(name: String, rec: Rec, ep: u8, deadline_us: u64, f: F) {
    let now = now_us();
    if deadline_us <= now {
        rec.app(ep, App::TaskTimeout { name });
        return;
    }
    let timer = time::delay(Duration::from_micros(deadline_us - now));
    match select(Box::pin(f), timer).await {
        Either::Left(_) => rec.app(ep, App::TaskDone { name }),
        Either::Right(_) => rec.app(ep, App::TaskTimeout { name }),
    }
}

/// read to EOF / error, checking every chunk against the PRF of the writer
async fn s2n_read_stream(mut recv: s2n_quic::stream::ReceiveStream, key: u64, rec: Rec, ep: u8) {
    let id = recv.id();
    let mut off = 0u64;
    loop {
        match recv.receive().await {
            Ok(Some(data)) => {
                let bad = check_bytes(key, off, &data);
                rec.app(ep, App::Read { stream: id, off, len: data.len(), ok: bad.is_none(), first_bad: bad });
                off += data.len() as u64;
            }
            Ok(None) => {
                rec.app(ep, App::Eof { stream: id, total: off });
                return;
            }
            Err(e) => {
                rec.app(ep, App::ReadError { stream: id, off, err: format!("{:?}", e) });
                return;
            }
        }
    }
}

async fn s2n_write(send: &mut s2n_quic::stream::SendStream, key: u64, off: &mut u64, n: usize, rec: &Rec, ep: u8) -> bool {
    let id = send.id();
    let mut left = n;
    while left > 0 {
        let c = left.min(1000);
        let data = Bytes::from(prf_bytes(key, *off, c));
        match send.send(data).await {
            Ok(()) => {
                rec.app(ep, App::Write { stream: id, off: *off, len: c });
                *off += c as u64;
                left -= c;
            }
            Err(e) => {
                rec.app(ep, App::WriteError { stream: id, off: *off, err: format!("{:?}", e) });
                return false;
            }
        }
    }
    true
}

fn start_s2n_client_app(client: Client, addr: SocketAddr, rec: Rec, scn: Arc<Scenario>) {
    let deadline_us = scn.horizon_ms * 1000;
    let rec0 = rec.clone();
    primary::spawn(with_deadline("s2n-client-main".into(), rec0, CLIENT, deadline_us + 5_000_000, async move {
        let connect = Connect::new(addr).with_server_name("localhost");
        let connection = match client.connect(connect).await {
            Ok(c) => c,
            Err(e) => {
                rec.app(CLIENT, App::ConnectError(format!("{:?}", e)));
                return;
            }
        };
        rec.app(CLIENT, App::Connected);
        let handle = connection.handle();
        let mut joins = Vec::new();
        for i in 0..scn.n_streams() {
            let (tx, rx) = futures::channel::oneshot::channel::<()>();
            joins.push(rx);
            let mut h = handle.clone();
            let rec2 = rec.clone();
            let size = scn.req_size(i);
            primary::spawn(with_deadline(format!("s2n-client-stream-{}", i), rec.clone(), CLIENT, deadline_us, async move {
                match h.open_bidirectional_stream().await {
                    Ok(s) => {
                        let id = s.id();
                        rec2.app(CLIENT, App::StreamOpened { stream: id });
                        let (r, mut w) = s.split();
                        let (rtx, rrx) = futures::channel::oneshot::channel::<()>();
                        let rec3 = rec2.clone();
                        spawn(async move {
                            s2n_read_stream(r, S2C ^ id, rec3, CLIENT).await;
                            let _ = rtx.send(());
                        });
                        let mut off = 0u64;
                        if s2n_write(&mut w, C2S ^ id, &mut off, size, &rec2, CLIENT).await {
                            match w.finish() {
                                Ok(()) => rec2.app(CLIENT, App::Finish { stream: id, total: off }),
                                Err(e) => rec2.app(CLIENT, App::FinishError { stream: id, err: format!("{:?}", e) }),
                            }
                        }
                        let _ = rrx.await;
                    }
                    Err(e) => rec2.app(CLIENT, App::OpenError(format!("{:?}", e))),
                }
                let _ = tx.send(());
            }));
        }
        for j in joins {
            let _ = j.await;
        }
        // linger so that the peer observes everything, close (application code 0), linger again
        time::delay(Duration::from_millis(scn.linger_ms)).await;
        handle.close(0u32.into());
        rec.app(CLIENT, App::Close);
        time::delay(Duration::from_millis(scn.linger_ms)).await;
        drop(connection);
    }));
}

/// Echo: the s2n-quic server answers every byte it reads with one byte of its own PRF stream (echo
/// pacing, independent content) and finishes when the request is finished.
/// Sink modes: it ONLY READS until the request's FIN (no application write can wake the connection
/// meanwhile), then writes the whole response and finishes.
async fn s2n_server_stream(stream: PeerStream, rec: Rec, scn: Arc<Scenario>) {
    let paced = scn.mode == Mode::Echo;
    match stream {
        PeerStream::Receive(r) => {
            let id = r.id();
            rec.app(SERVER, App::StreamAccepted { stream: id });
            s2n_read_stream(r, C2S ^ id, rec, SERVER).await;
        }
        PeerStream::Bidirectional(s) => {
            let id = s.id();
            rec.app(SERVER, App::StreamAccepted { stream: id });
            let (mut r, mut w) = s.split();
            let mut off = 0u64;
            let mut woff = 0u64;
            let mut w_open = true;
            loop {
                match r.receive().await {
                    Ok(Some(data)) => {
                        let bad = check_bytes(C2S ^ id, off, &data);
                        rec.app(SERVER, App::Read { stream: id, off, len: data.len(), ok: bad.is_none(), first_bad: bad });
                        off += data.len() as u64;
                        if w_open && paced {
                            w_open = s2n_write(&mut w, S2C ^ id, &mut woff, data.len(), &rec, SERVER).await;
                        }
                    }
                    Ok(None) => {
                        rec.app(SERVER, App::Eof { stream: id, total: off });
                        if !paced {
                            let n = scn.resp_size_of_id(id).unwrap_or(0);
                            w_open = s2n_write(&mut w, S2C ^ id, &mut woff, n, &rec, SERVER).await;
                        }
                        break;
                    }
                    Err(e) => {
                        rec.app(SERVER, App::ReadError { stream: id, off, err: format!("{:?}", e) });
                        break;
                    }
                }
            }
            if w_open {
                match w.finish() {
                    Ok(()) => rec.app(SERVER, App::Finish { stream: id, total: woff }),
                    Err(e) => rec.app(SERVER, App::FinishError { stream: id, err: format!("{:?}", e) }),
                }
            }
        }
    }
}

fn start_s2n_server_app(mut server: Server, rec: Rec, scn: Arc<Scenario>) {
    spawn(async move {
        while let Some(mut connection) = server.accept().await {
            rec.app(SERVER, App::Accepted);
            let rec = rec.clone();
            let scn = scn.clone();
            spawn(async move {
                loop {
                    match connection.accept().await {
                        Ok(Some(stream)) => {
                            spawn(s2n_server_stream(stream, rec.clone(), scn.clone()));
                        }
                        Ok(None) => break,
                        Err(_) => break,
                    }
                }
            });
        }
    });
}

// ------------------------------------------------------------------------------------------
// the quiche peer
// ------------------------------------------------------------------------------------------

#[derive(Debug, Default)]
struct QStream {
    /// bytes this side still has to write (client: the request; server: one per byte read)
    to_send: u64,
    sent: u64,
    /// everything to send is known (client: from the start; server: after the request's FIN)
    fin_ready: bool,
    fin_sent: bool,
    rx_off: u64,
    rx_fin: bool,
    rx_failed: bool,
    tx_failed: bool,
    opened: bool,
    /// the application queued new data since the last write attempt
    kick: bool,
}

fn conn_error(e: Option<&quiche::ConnectionError>) -> Option<(bool, u64, String)> {
    e.map(|e| (e.is_app, e.error_code, String::from_utf8_lossy(&e.reason).to_string()))
}

fn quiche_end(conn: &quiche::Connection, established: bool) -> QuicheEnd {
    let st = conn.stats();
    QuicheEnd {
        present: true,
        established,
        closed: conn.is_closed(),
        timed_out: conn.is_timed_out(),
        peer_error: conn_error(conn.peer_error()),
        local_error: conn_error(conn.local_error()),
        stats: format!("recv={} sent={} lost={} retrans={}", st.recv, st.sent, st.lost, st.retrans),
    }
}

/// One task drives the quiche connection: socket -> recv, timers, application, send -> socket.
/// `client_to`: Some(server address) = quiche is the client.
async fn quiche_task(socket: Socket, client_to: Option<SocketAddr>, mut config: quiche::Config, scn: Arc<Scenario>, rec: Rec) {
    let ep = if client_to.is_some() { CLIENT } else { SERVER };
    let rx_key = if ep == CLIENT { S2C } else { C2S };
    let tx_key = if ep == CLIENT { C2S } else { S2C };
    let local = socket.local_addr().expect("socket address");
    let deadline_us = scn.horizon_ms * 1000 + if ep == CLIENT { 5_000_000 } else { 6_000_000 };
    let name = if ep == CLIENT { "quiche-client" } else { "quiche-server" };
    let mut out = vec![0u8; 65535];
    let mut buf = vec![0u8; 65535];
    let mut conn: Option<quiche::Connection> = None;
    let mut streams: BTreeMap<u64, QStream> = BTreeMap::new();
    let mut established = false;
    let mut close_at: Option<u64> = None;
    let mut close_sent = false;
    let mut pending: Vec<(SocketAddr, Vec<u8>)> = Vec::new();

    clock::set_virtual_ns(crate::record::now_ns());
    if let Some(server_addr) = client_to {
        // fixed 16-byte source connection id
        let scid_bytes: Vec<u8> = (0..16u8).map(|i| crate::mccore::splitmix64(scn.seed ^ 0x9c1d ^ i as u64) as u8).collect();
        let scid = quiche::ConnectionId::from_vec(scid_bytes);
        match quiche::connect(Some("localhost"), &scid, local, server_addr, &mut config) {
            Ok(c) => conn = Some(c),
            Err(e) => {
                rec.app(ep, App::ConnectError(format!("quiche::connect {:?}", e)));
                return;
            }
        }
        for i in 0..scn.n_streams() {
            streams.insert(scn.stream_id(i), QStream { to_send: scn.req_size(i) as u64, fin_ready: true, ..Default::default() });
        }
    }

    let mut timed_out_task = false;
    loop {
        let now_ns = crate::record::now_ns();
        clock::set_virtual_ns(now_ns);
        let now = now_ns / 1000;
        if now >= deadline_us {
            timed_out_task = true;
            break;
        }
        // ---- receive
        loop {
            match socket.try_recv_from() {
                Ok(Some((from, _ecn, payload))) => pending.push((from, payload)),
                _ => break,
            }
        }
        for (from, mut payload) in pending.drain(..) {
            if conn.is_none() {
                // server: the first Initial creates the connection
                let hdr = match quiche::Header::from_slice(&mut payload, quiche::MAX_CONN_ID_LEN) {
                    Ok(h) => h,
                    Err(_) => continue,
                };
                if hdr.ty != quiche::Type::Initial {
                    continue;
                }
                let scid_bytes: Vec<u8> = (0..16u8).map(|i| crate::mccore::splitmix64(scn.seed ^ 0x5c1d ^ i as u64) as u8).collect();
                let scid = quiche::ConnectionId::from_vec(scid_bytes);
                match quiche::accept(&scid, None, local, from, &mut config) {
                    Ok(c) => conn = Some(c),
                    Err(e) => {
                        rec.app(ep, App::ConnectError(format!("quiche::accept {:?}", e)));
                        return;
                    }
                }
            }
            let c = conn.as_mut().unwrap();
            match c.recv(&mut payload, quiche::RecvInfo { from, to: local }) {
                Ok(_) | Err(quiche::Error::Done) => {}
                Err(e) => rec.app(ep, App::QuicheRecvError(format!("{:?}", e))),
            }
        }
        let mut wait_us: Option<u64> = Some(deadline_us - now);
        if let Some(c) = conn.as_mut() {
            // ---- timers
            if let Some(d) = c.timeout() {
                if d.is_zero() {
                    c.on_timeout();
                }
            }
            // ---- application
            if c.is_established() && !established {
                established = true;
                rec.app(ep, if ep == CLIENT { App::Connected } else { App::Accepted });
            }
            if established && !c.is_closed() && !c.is_draining() {
                // read
                let readable: Vec<u64> = c.readable().collect();
                for id in readable {
                    let st = streams.entry(id).or_default();
                    if !st.opened && ep == SERVER {
                        st.opened = true;
                        rec.app(ep, App::StreamAccepted { stream: id });
                    }
                    loop {
                        match c.stream_recv(id, &mut buf) {
                            Ok((n, fin)) => {
                                if n > 0 {
                                    let bad = check_bytes(rx_key ^ id, st.rx_off, &buf[..n]);
                                    rec.app(ep, App::Read { stream: id, off: st.rx_off, len: n, ok: bad.is_none(), first_bad: bad });
                                    st.rx_off += n as u64;
                                    if ep == SERVER && scn.mode == Mode::Echo {
                                        st.to_send += n as u64;
                                        st.kick = true;
                                    }
                                }
                                if fin {
                                    st.rx_fin = true;
                                    if ep == SERVER {
                                        if scn.mode != Mode::Echo {
                                            // sink modes: nothing is written before the request's FIN
                                            st.to_send = scn.resp_size_of_id(id).unwrap_or(0) as u64;
                                        }
                                        st.fin_ready = true;
                                        st.kick = true;
                                    }
                                    rec.app(ep, App::Eof { stream: id, total: st.rx_off });
                                    break;
                                }
                                if n == 0 {
                                    break;
                                }
                            }
                            Err(quiche::Error::Done) => break,
                            Err(e) => {
                                if !st.rx_failed {
                                    st.rx_failed = true;
                                    rec.app(ep, App::ReadError { stream: id, off: st.rx_off, err: format!("{:?}", e) });
                                }
                                break;
                            }
                        }
                    }
                }
                // write — like the quiche example applications: a stream is written when the
                // application has just queued data for it, when it is first opened (and the peer's
                // stream limit allows it), or when quiche reports it writable again.  The loop never
                // pokes a blocked stream: quiche announces DATA_BLOCKED / STREAM_DATA_BLOCKED once
                // and then waits for the peer's MAX_DATA / MAX_STREAM_DATA (RFC 9000 4.1).
                let writable: std::collections::BTreeSet<u64> = c.writable().collect();
                let mut streams_left = c.peer_streams_left_bidi();
                for (&id, st) in streams.iter_mut() {
                    if st.fin_sent || st.tx_failed {
                        continue;
                    }
                    let opening = ep == CLIENT && !st.opened;
                    if opening && streams_left == 0 {
                        continue;
                    }
                    if !(opening || st.kick || writable.contains(&id)) {
                        continue;
                    }
                    st.kick = false;
                    loop {
                        let left = (st.to_send - st.sent) as usize;
                        if left == 0 && !st.fin_ready {
                            break;
                        }
                        let n = left.min(4096);
                        let fin = st.fin_ready && n == left;
                        let data = prf_bytes(tx_key ^ id, st.sent, n);
                        let res = c.stream_send(id, &data, fin);
                        if opening && !st.opened && !matches!(res, Err(quiche::Error::StreamLimit)) {
                            // the stream exists now, even if nothing could be buffered yet
                            st.opened = true;
                            streams_left = streams_left.saturating_sub(1);
                            rec.app(ep, App::StreamOpened { stream: id });
                        }
                        match res {
                            Ok(w) => {
                                if w > 0 {
                                    rec.app(ep, App::Write { stream: id, off: st.sent, len: w });
                                }
                                st.sent += w as u64;
                                if w == n && fin {
                                    st.fin_sent = true;
                                    rec.app(ep, App::Finish { stream: id, total: st.sent });
                                    break;
                                }
                                if w < n || w == 0 {
                                    break; // out of credit / buffer: wait until quiche reports it writable
                                }
                            }
                            Err(quiche::Error::Done) | Err(quiche::Error::StreamLimit) => break,
                            Err(e) => {
                                st.tx_failed = true;
                                rec.app(ep, App::WriteError { stream: id, off: st.sent, err: format!("{:?}", e) });
                                break;
                            }
                        }
                    }
                }
                // the client closes once every response is complete (after lingering)
                if ep == CLIENT && close_at.is_none() && streams.values().all(|s| s.fin_sent && s.rx_fin) {
                    close_at = Some(now + scn.linger_ms * 1000);
                }
                if let Some(t) = close_at {
                    if now >= t && !close_sent {
                        close_sent = true;
                        let _ = c.close(true, 0, b"done");
                        rec.app(ep, App::Close);
                    }
                }
            }
            // ---- send
            loop {
                match c.send(&mut out) {
                    Ok((n, info)) => {
                        let _ = socket.send_to(info.to, ExplicitCongestionNotification::NotEct, out[..n].to_vec());
                    }
                    Err(quiche::Error::Done) => break,
                    Err(e) => {
                        rec.app(ep, App::QuicheSendError(format!("{:?}", e)));
                        break;
                    }
                }
            }
            rec.0.lock().unwrap().quiche = quiche_end(c, established);
            if c.is_closed() {
                break;
            }
            if let Some(d) = c.timeout() {
                wait_us = Some(wait_us.unwrap().min((d.as_nanos() as u64).div_ceil(1000)));
            }
            if let (Some(t), false) = (close_at, close_sent) {
                wait_us = Some(wait_us.unwrap().min(t.saturating_sub(now)));
            }
        }
        // ---- wait for a datagram or the next timer
        let timer = time::delay(Duration::from_micros(wait_us.unwrap_or(1).max(1)));
        let got = match select(Box::pin(socket.recv_from()), timer).await {
            Either::Left((Ok((from, _ecn, payload)), _)) => Some((from, payload)),
            Either::Left((Err(_), _)) => None,
            Either::Right(_) => None,
        };
        if let Some(p) = got {
            pending.push(p);
        }
    }
    if let Some(c) = conn.as_ref() {
        rec.0.lock().unwrap().quiche = quiche_end(c, established);
    }
    rec.app(ep, if timed_out_task { App::TaskTimeout { name: name.into() } } else { App::TaskDone { name: name.into() } });
}

// ------------------------------------------------------------------------------------------
// one execution
// ------------------------------------------------------------------------------------------

fn start_s2n_server(handle: &Handle, scn: &Arc<Scenario>, rec: &Rec, net: &Arc<Mutex<crate::net::NetShared>>) -> Result<SocketAddr, String> {
    let e = |x: &dyn std::fmt::Display| x.to_string();
    let tls = s2n_tls_provider::Server::builder()
        .with_application_protocols(["h3"].iter())
        .map_err(|x| e(&x))?
        .with_certificate(certificates::CERT_PEM, certificates::KEY_PEM)
        .map_err(|x| e(&x))?
        .build()
        .map_err(|x| e(&x))?;
    let server = Server::builder()
        .with_io(handle.builder().with_max_mtu(scn.mds + 28).build().map_err(|x| e(&x))?)
        .map_err(|x| e(&x))?
        .with_tls(tls)
        .map_err(|x| e(&x))?
        .with_event(Sub { ep: SERVER, rec: rec.clone() })
        .map_err(|x| e(&x))?
        .with_random(DetRandom(scn.seed ^ 0x5e57))
        .map_err(|x| e(&x))?
        .with_connection_id(DetCid { seed: scn.seed ^ 0x5e57_c1d, ctr: 0 })
        .map_err(|x| e(&x))?
        .with_stateless_reset_token(DetTokenProvider(scn.seed ^ 0x5e57_70c))
        .map_err(|x| e(&x))?
        .with_limits(scn.s2n_limits())
        .map_err(|x| e(&x))?
        .start()
        .map_err(|x| e(&x))?;
    let addr = server.local_addr().map_err(|x| e(&x))?;
    net.lock().unwrap().server_addr = Some(addr);
    start_s2n_server_app(server, rec.clone(), scn.clone());
    Ok(addr)
}

fn start_s2n_client(handle: &Handle, scn: &Arc<Scenario>, rec: &Rec, net: &Arc<Mutex<crate::net::NetShared>>, addr: SocketAddr) -> Result<(), String> {
    let e = |x: &dyn std::fmt::Display| x.to_string();
    let tls = s2n_tls_provider::Client::builder()
        .with_application_protocols(["h3"].iter())
        .map_err(|x| e(&x))?
        .with_certificate(certificates::CERT_PEM)
        .map_err(|x| e(&x))?
        .build()
        .map_err(|x| e(&x))?;
    let net2 = net.clone();
    let client = Client::builder()
        .with_io(
            handle
                .builder()
                .with_max_mtu(scn.mds + 28)
                .on_socket(move |socket| {
                    let mut n = net2.lock().unwrap();
                    n.client_addr = socket.local_addr().ok();
                })
                .build()
                .map_err(|x| e(&x))?,
        )
        .map_err(|x| e(&x))?
        .with_tls(tls)
        .map_err(|x| e(&x))?
        .with_event(Sub { ep: CLIENT, rec: rec.clone() })
        .map_err(|x| e(&x))?
        .with_random(DetRandom(scn.seed ^ 0xc11e))
        .map_err(|x| e(&x))?
        .with_connection_id(DetCid { seed: scn.seed ^ 0xc11e_c1d, ctr: 0 })
        .map_err(|x| e(&x))?
        .with_stateless_reset_token(DetTokenProvider(scn.seed ^ 0xc11e_70c))
        .map_err(|x| e(&x))?
        .with_limits(scn.s2n_limits())
        .map_err(|x| e(&x))?
        .start()
        .map_err(|x| e(&x))?;
    start_s2n_client_app(client, addr, rec.clone(), scn.clone());
    Ok(())
}

fn build_and_start(handle: &Handle, scn: Arc<Scenario>, rec: Rec, net: Arc<Mutex<crate::net::NetShared>>, certs: &CertFiles) -> Result<(), String> {
    let e = |x: &dyn std::fmt::Display| x.to_string();
    let ip_mtu = scn.mds + 28;
    match scn.role {
        Role::S2nServer => {
            let addr = start_s2n_server(handle, &scn, &rec, &net)?;
            let socket = handle.builder().with_max_mtu(ip_mtu).build().map_err(|x| e(&x))?.socket();
            net.lock().unwrap().client_addr = socket.local_addr().ok();
            let config = scn.quiche_config(certs)?;
            primary::spawn(quiche_task(socket, Some(addr), config, scn.clone(), rec));
        }
        Role::S2nClient => {
            let socket = handle.builder().with_max_mtu(ip_mtu).build().map_err(|x| e(&x))?.socket();
            let addr = socket.local_addr().map_err(|x| e(&x))?;
            net.lock().unwrap().server_addr = Some(addr);
            let config = scn.quiche_config(certs)?;
            primary::spawn(quiche_task(socket, None, config, scn.clone(), rec.clone()));
            start_s2n_client(handle, &scn, &rec, &net, addr)?;
        }
        Role::Control => {
            let addr = start_s2n_server(handle, &scn, &rec, &net)?;
            start_s2n_client(handle, &scn, &rec, &net, addr)?;
        }
    }
    Ok(())
}

/// run one complete execution; never panics (a panic inside is recorded)
pub fn execute(scn: &Scenario, schedule: Schedule, certs: &CertFiles) -> Record {
    let rec = Rec::default();
    let scn = Arc::new(scn.clone());
    clock::new_epoch();
    clock::reseed(scn.seed);
    clock::bind();
    let net = ChoiceNet::new(&schedule, Duration::from_millis(scn.base_delay_ms), scn.mds as usize, rec.clone());
    let shared = net.shared.clone();
    let mut executor = Executor::new(net, scn.seed);
    let handle = executor.handle().clone();
    let rec2 = rec.clone();
    let scn2 = scn.clone();
    let result = catch_unwind(AssertUnwindSafe(|| {
        let setup = executor.enter(|| build_and_start(&handle, scn2.clone(), rec2.clone(), shared.clone(), certs));
        if let Err(e) = setup {
            panic!("setup failed: {}", e);
        }
        executor.run();
        executor.enter(now_us)
    }));
    let mut end_t = 0;
    match result {
        Ok(t) => {
            end_t = t;
            let closed = catch_unwind(AssertUnwindSafe(move || drop(executor)));
            if closed.is_err() {
                rec.0.lock().unwrap().panicked = Some("panic while closing the executor".into());
            }
        }
        Err(e) => {
            let msg = if let Some(s) = e.downcast_ref::<&str>() {
                s.to_string()
            } else if let Some(s) = e.downcast_ref::<String>() {
                s.clone()
            } else {
                "panic".to_string()
            };
            std::mem::forget(executor);
            let mut r = rec.0.lock().unwrap();
            if msg.contains("runtime stalled") {
                r.stalled = Some(msg);
            } else {
                r.panicked = Some(msg);
            }
        }
    }
    clock::unbind();
    let mut r = std::mem::take(&mut *rec.0.lock().unwrap());
    if end_t == 0 {
        end_t = r.dgrams.last().map(|d| d.t).unwrap_or(0);
    }
    r.end_t = end_t;
    r
}

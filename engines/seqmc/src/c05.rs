// C05 — wire codecs are total, round-trip exactly and follow the RFC 9000 layout.
//
// Bounded-exhaustive enumeration (mccore `enumerate`) of byte strings and of field tuples against
// reference parsers written in this file straight from RFC 9000 §16-19, RFC 8999 and RFC 9221
// (no s2n types are used on the reference side).  Families:
//
//   c05.varint   VarInt decode/encode vs. §16
//   c05.frames   FrameMut/FrameRef decode + frame encoders vs. §12.4/§19 (+ RFC 9221, + the two
//                s2n-quic-dc extension frames, transcribed from their own doc comments)
//   c05.packets  ProtectedPacket::decode vs. §17 / RFC 8999, VN / Retry / stateless-reset encoders
//   c05.pnum     PacketNumberLen tag bits <-> 1..4 bytes, truncated packet number codec
//   c05.tparams  Client/ServerTransportParameters: totality, round trip, emitted layout (§18)
//   c05.codec    s2n-codec DecoderBuffer(/Mut) + EncoderBuffer / EncoderLenEstimator primitives
//
// Two oracles fire on the unchanged tree (reported to the lead, not loosened; each has one stable,
// case-independent fingerprint so it can be listed as a known finding):
//   pktenc.length_not_shortest  the long-header Length field is written with the width of the
//                               remaining buffer capacity, not of its value
//   tparams.int_width           ack_delay_exponent is decoded as a raw u8, so a 2/4/8-byte
//                               variable-length integer (legal per §16/§18.2) is rejected
//
// Every family is a list of *sections*; each section is one `enumerate` call (one Report).  A case is
// identified by (section name, index, tier); `replay` re-runs exactly that case.
//
// What "agree" means (decided up front):
//   * reference Accept(v)          => the decoder must accept, with the same value and consumed length
//   * reference Reject             => the decoder must reject (truncated input, or a rule for which
//                                     the RFC prescribes FRAME_ENCODING_ERROR / "MUST discard" and
//                                     nothing else)
//   * reference Lenient(v, why)    => the RFC lets the receiver reject this input at decode time *or*
//                                     later (or does not constrain it at all): the decoder may reject;
//                                     if it accepts, the value must be v.  Each such case carries its
//                                     RFC citation below.
#![allow(clippy::all)]
use crate::mccore::*;
use s2n_codec::{u24, u48, DecoderBuffer, DecoderBufferMut, Encoder, EncoderBuffer, EncoderLenEstimator, EncoderValue};
use s2n_quic_core::{
    connection, frame,
    frame::{ack::AckRangesDecoder, Frame, FrameMut, FrameRef},
    inet, packet,
    packet::number::PacketNumberSpace,
    random, stateless_reset,
    stream::StreamType,
    transport::parameters as tp,
    varint::VarInt,
};
use std::ops::RangeInclusive;

const VMAX: u64 = (1u64 << 62) - 1;
const SIGMA: [u8; 9] = [0x00, 0x01, 0x3f, 0x40, 0x7f, 0x80, 0xbf, 0xc0, 0xff];
const V8: [u64; 8] = [0, 63, 64, 16_383, 16_384, (1 << 30) - 1, 1 << 30, VMAX];
const KEY: u64 = 0xC05;

// ------------------------------------------------------------------------------------------
// enumeration helpers
// ------------------------------------------------------------------------------------------

/// number of strings of length <= n over an alphabet of k symbols
fn count_upto(k: u64, n: u32) -> u64 {
    (0..=n).map(|l| k.pow(l)).sum()
}

/// i-th string in shortlex order (shorter first) over an alphabet of k symbols
fn nth_string(mut i: u64, k: u64, map: impl Fn(u64) -> u8) -> Vec<u8> {
    let mut len = 0usize;
    let mut block = 1u64;
    while i >= block {
        i -= block;
        block *= k;
        len += 1;
    }
    let mut out = vec![0u8; len];
    for p in (0..len).rev() {
        out[p] = map(i % k);
        i /= k;
    }
    out
}

fn nth_bytes(i: u64) -> Vec<u8> {
    nth_string(i, 256, |d| d as u8)
}

/// index of the first Σ_b string of length 6 in shortlex order
fn n6_offset() -> u64 {
    count_upto(9, 5)
}

fn nth_sigma(i: u64) -> Vec<u8> {
    nth_string(i, 9, |d| SIGMA[d as usize])
}

fn tier_name(t: Tier) -> &'static str {
    match t {
        Tier::Quick => "quick",
        Tier::Thorough => "thorough",
    }
}

/// prefix sums -> (which item, offset inside the item)
fn locate(prefix: &[u64], i: u64) -> (usize, u64) {
    // prefix[k] = number of cases before item k; prefix.len() = items + 1
    let k = match prefix.binary_search(&i) {
        Ok(mut k) => {
            // skip empty items
            while prefix[k + 1] == prefix[k] {
                k += 1;
            }
            k
        }
        Err(k) => k - 1,
    };
    (k, i - prefix[k])
}

struct Section {
    name: String,
    n: u64,
    wall: f64,
    check: Box<dyn Fn(u64) -> Result<u64, Violation> + Sync + Send>,
    describe: Box<dyn Fn(u64) -> Json + Sync + Send>,
}

impl Section {
    fn new(
        name: &str,
        n: u64,
        wall: f64,
        check: impl Fn(u64) -> Result<u64, Violation> + Sync + Send + 'static,
        describe: impl Fn(u64) -> Json + Sync + Send + 'static,
    ) -> Section {
        Section { name: name.to_string(), n, wall, check: Box::new(check), describe: Box::new(describe) }
    }
}

fn input_json(b: &[u8]) -> Json {
    Json::obj().set("input", hex(b))
}

// ------------------------------------------------------------------------------------------
// reference: RFC 9000 §16 variable-length integers
// ------------------------------------------------------------------------------------------

/// RFC 9000 §16: the two most significant bits of the first byte are log2 of the length; the value
/// is the remaining bits in network byte order.  Returns (value, length) or None on short input.
fn ref_varint(b: &[u8]) -> Option<(u64, usize)> {
    let first = *b.first()?;
    let len = 1usize << (first >> 6);
    if b.len() < len {
        return None;
    }
    let mut v = (first & 0x3f) as u64;
    for &x in &b[1..len] {
        v = (v << 8) | x as u64;
    }
    Some((v, len))
}

/// RFC 9000 §16 Table 4: shortest encoding length of a value
fn ref_varint_size(v: u64) -> usize {
    if v <= 63 {
        1
    } else if v <= 16_383 {
        2
    } else if v <= 1_073_741_823 {
        4
    } else {
        8
    }
}

fn ref_varint_encode(v: u64) -> Vec<u8> {
    let n = ref_varint_size(v);
    let mut out = v.to_be_bytes()[8 - n..].to_vec();
    out[0] |= (n.trailing_zeros() as u8) << 6;
    out
}

fn vi(v: u64) -> VarInt {
    VarInt::new(v).expect("value within varint range")
}

// ------------------------------------------------------------------------------------------
// family varint
// ------------------------------------------------------------------------------------------

fn check_varint_decode(b: &[u8]) -> Result<u64, Violation> {
    let want = ref_varint(b);
    let got = DecoderBuffer::new(b).decode::<VarInt>();
    let mut copy = b.to_vec();
    let got_mut = DecoderBufferMut::new(&mut copy).decode::<VarInt>().map(|(v, rest)| (v, rest.len()));
    match (want, got) {
        (None, Err(_)) => {
            ensure(got_mut.is_err(), "varint.mut_differs", || format!("{}: DecoderBuffer rejects, DecoderBufferMut accepts", hex(b)))?;
            Ok(0)
        }
        (Some((v, n)), Ok((g, rest))) => {
            ensure(g.as_u64() == v, "varint.value", || format!("{}: decoded {} but §16 gives {}", hex(b), g.as_u64(), v))?;
            let rest = rest.into_less_safe_slice();
            ensure(b.len() - rest.len() == n && rest == &b[n..], "varint.consumed", || {
                format!("{}: consumed {} bytes, §16 length is {}", hex(b), b.len() - rest.len(), n)
            })?;
            ensure(matches!(got_mut, Ok((m, r)) if m == g && r == rest.len()), "varint.mut_differs", || format!("{}: DecoderBufferMut result differs", hex(b)))?;
            Ok(n as u64)
        }
        (None, Ok((g, _))) => violation("varint.accepts_truncated", format!("{}: decoded {} from a truncated encoding", hex(b), g.as_u64())),
        (Some((v, _)), Err(e)) => violation("varint.rejects_valid", format!("{}: rejected ({}) but encodes {}", hex(b), e, v)),
    }
}

fn varint_values() -> Vec<u64> {
    let mut v: Vec<u64> = (0..=70_000u64).collect();
    for b in [63u64, 64, 16_383, 16_384, (1 << 30) - 1, 1 << 30, VMAX, 1 << 32, (1 << 32) - 1, 1 << 61, 1 << 56, 255, 256, 65_535, 65_536] {
        for d in [-1i64, 0, 1] {
            let x = b as i128 + d as i128;
            if x >= 0 {
                v.push(x as u64);
            }
        }
    }
    v.push(u64::MAX);
    v.push(1 << 63);
    v
}

fn check_varint_encode(v: u64, slack: usize) -> Result<u64, Violation> {
    let r = VarInt::new(v);
    if v > VMAX {
        ensure(r.is_err(), "varint.range", || format!("VarInt::new({}) accepted a value above 2^62-1", v))?;
        return Ok(100);
    }
    let x = match r {
        Ok(x) => x,
        Err(_) => return violation("varint.range", format!("VarInt::new({}) rejected", v)),
    };
    let want = ref_varint_encode(v);
    let size = x.encoding_size();
    ensure(size == want.len(), "varint.shortest", || format!("{}: encoding_size() = {}, shortest form is {} bytes", v, size, want.len()))?;
    let mut est = EncoderLenEstimator::new(usize::MAX);
    est.encode(&x);
    ensure(est.len() == size, "varint.estimator", || format!("{}: estimator {} vs encoding_size {}", v, est.len(), size))?;
    // capacity == size exercises the byte-wise path, capacity >= 8 the "oversized" 8-byte store
    let mut buf = vec![0xAAu8; size + slack];
    let mut enc = EncoderBuffer::new(&mut buf);
    enc.encode(&x);
    let written = enc.len();
    ensure(written == size, "varint.announced_size", || format!("{}: announced {} wrote {}", v, size, written))?;
    ensure(buf[..written] == want[..], "varint.encoding", || format!("{}: emitted {} expected {} (§16 shortest form)", v, hex(&buf[..written]), hex(&want)))?;
    let (back, rest) = match DecoderBuffer::new(&buf[..written]).decode::<VarInt>() {
        Ok(x) => x,
        Err(e) => return violation("varint.roundtrip", format!("{}: own encoding {} rejected: {}", v, hex(&buf[..written]), e)),
    };
    ensure(back.as_u64() == v && rest.is_empty(), "varint.roundtrip", || format!("{}: decoded back {}", v, back.as_u64()))?;
    Ok(size as u64)
}

fn varint_sections(tier: Tier) -> Vec<Section> {
    let mut s = Vec::new();
    s.push(Section::new("dec3", count_upto(256, 3), 120.0, |i| check_varint_decode(&nth_bytes(i)), |i| input_json(&nth_bytes(i))));
    // 16 first bytes (each 2-bit prefix x low bits {0,1,3e,3f}) followed by every Σ_b string
    let tail = tier.pick(6, 7);
    let ntail = count_upto(9, tail);
    let mk = move |i: u64| {
        let f = i / ntail;
        let first = ((f / 4) as u8) << 6 | [0u8, 1, 0x3e, 0x3f][(f % 4) as usize];
        let mut b = vec![first];
        b.extend(nth_sigma(i % ntail));
        b
    };
    s.push(Section::new("dec8", 16 * ntail, 120.0, move |i| check_varint_decode(&mk(i)), move |i| input_json(&mk(i))));
    let vals = std::sync::Arc::new(varint_values());
    let v2 = vals.clone();
    s.push(Section::new(
        "enc",
        vals.len() as u64 * 3,
        60.0,
        move |i| check_varint_encode(vals[(i / 3) as usize], [0usize, 1, 8][(i % 3) as usize]),
        move |i| Json::obj().set("value", v2[(i / 3) as usize]).set("slack", [0u64, 1, 8][(i % 3) as usize]),
    ));
    s
}

// ------------------------------------------------------------------------------------------
// frames: neutral value type
// ------------------------------------------------------------------------------------------

#[derive(Debug, Clone, PartialEq, Eq)]
enum NF {
    Padding(usize),
    Ping,
    /// ranges are (smallest, largest), descending, the first one ends at `largest`
    Ack { largest: u64, delay: u64, ranges: Vec<(u64, u64)>, ecn: Option<[u64; 3]> },
    ResetStream { id: u64, err: u64, final_size: u64 },
    StopSending { id: u64, err: u64 },
    Crypto { offset: u64, data: Vec<u8> },
    NewToken { token: Vec<u8> },
    /// `has_len` = LEN bit (the frame is not the last one of the packet)
    Stream { id: u64, offset: u64, fin: bool, has_len: bool, data: Vec<u8> },
    MaxData(u64),
    MaxStreamData { id: u64, max: u64 },
    MaxStreams { bidi: bool, max: u64 },
    DataBlocked(u64),
    StreamDataBlocked { id: u64, limit: u64 },
    StreamsBlocked { bidi: bool, limit: u64 },
    NewConnectionId { seq: u64, retire_prior_to: u64, cid: Vec<u8>, token: [u8; 16] },
    RetireConnectionId(u64),
    PathChallenge([u8; 8]),
    PathResponse([u8; 8]),
    ConnectionClose { app: bool, code: u64, frame_type: Option<u64>, reason: Vec<u8> },
    HandshakeDone,
    Datagram { has_len: bool, data: Vec<u8> },
    DcStatelessResetTokens(Vec<[u8; 16]>),
    MtuProbingComplete(u16),
}

impl NF {
    fn kind(&self) -> u64 {
        match self {
            NF::Padding(_) => 1,
            NF::Ping => 2,
            NF::Ack { ecn, .. } => 3 + ecn.is_some() as u64,
            NF::ResetStream { .. } => 5,
            NF::StopSending { .. } => 6,
            NF::Crypto { .. } => 7,
            NF::NewToken { .. } => 8,
            NF::Stream { .. } => 9,
            NF::MaxData(_) => 10,
            NF::MaxStreamData { .. } => 11,
            NF::MaxStreams { .. } => 12,
            NF::DataBlocked(_) => 13,
            NF::StreamDataBlocked { .. } => 14,
            NF::StreamsBlocked { .. } => 15,
            NF::NewConnectionId { .. } => 16,
            NF::RetireConnectionId(_) => 17,
            NF::PathChallenge(_) => 18,
            NF::PathResponse(_) => 19,
            NF::ConnectionClose { .. } => 20,
            NF::HandshakeDone => 21,
            NF::Datagram { .. } => 22,
            NF::DcStatelessResetTokens(_) => 23,
            NF::MtuProbingComplete(_) => 24,
        }
    }
}

// ------------------------------------------------------------------------------------------
// frames: reference parser (RFC 9000 §12.4 Table 3 and §19, RFC 9221 §4)
// ------------------------------------------------------------------------------------------

#[derive(Debug, Clone, PartialEq)]
enum RefErr {
    Truncated,
    Invalid(&'static str),
}

struct Cur<'a> {
    b: &'a [u8],
    pos: usize,
    /// number of variable-length integers seen that were not in their shortest form
    nonmin: u32,
}

impl<'a> Cur<'a> {
    fn new(b: &'a [u8]) -> Cur<'a> {
        Cur { b, pos: 0, nonmin: 0 }
    }
    fn rem(&self) -> usize {
        self.b.len() - self.pos
    }
    fn u8(&mut self) -> Result<u8, RefErr> {
        let v = *self.b.get(self.pos).ok_or(RefErr::Truncated)?;
        self.pos += 1;
        Ok(v)
    }
    fn take(&mut self, n: u64) -> Result<&'a [u8], RefErr> {
        if n > self.rem() as u64 {
            return Err(RefErr::Truncated);
        }
        let s = &self.b[self.pos..self.pos + n as usize];
        self.pos += n as usize;
        Ok(s)
    }
    fn rest(&mut self) -> &'a [u8] {
        let s = &self.b[self.pos..];
        self.pos = self.b.len();
        s
    }
    fn varint(&mut self) -> Result<u64, RefErr> {
        let (v, n) = ref_varint(&self.b[self.pos..]).ok_or(RefErr::Truncated)?;
        if n != ref_varint_size(v) {
            self.nonmin += 1;
        }
        self.pos += n;
        Ok(v)
    }
    fn be(&mut self, n: usize) -> Result<u64, RefErr> {
        let s = self.take(n as u64)?;
        Ok(s.iter().fold(0u64, |a, &x| (a << 8) | x as u64))
    }
    fn arr<const N: usize>(&mut self) -> Result<[u8; N], RefErr> {
        let s = self.take(N as u64)?;
        let mut a = [0u8; N];
        a.copy_from_slice(s);
        Ok(a)
    }
}

struct RefFrame {
    nf: NF,
    /// Some(why): the RFC allows the receiver to reject this frame at parse time or later
    lenient: Option<&'static str>,
}

/// Parses one frame from the cursor (which spans the rest of the packet payload).
fn ref_frame(c: &mut Cur) -> Result<RefFrame, RefErr> {
    let start = c.pos;
    // §12.4: "the Frame Type field uses a variable-length integer encoding"
    let ty = c.varint()?;
    let ty_len = c.pos - start;
    let mut lenient: Option<&'static str> = None;
    let nf = match ty {
        // §19.1 PADDING: no content
        0x00 => NF::Padding(1),
        // §19.2 PING
        0x01 => NF::Ping,
        // §19.3 ACK { Largest Acknowledged (i), ACK Delay (i), ACK Range Count (i), First ACK Range (i),
        //             ACK Range (..) ..., [ECN Counts (..)] }
        0x02 | 0x03 => {
            let largest = c.varint()?;
            let delay = c.varint()?;
            let count = c.varint()?;
            let first = c.varint()?;
            // §19.3.1: "If any computed packet number is negative, an endpoint MUST generate a
            // connection error of type FRAME_ENCODING_ERROR."
            let mut smallest = largest.checked_sub(first).ok_or(RefErr::Invalid("ACK: first range below zero (§19.3.1)"))?;
            let mut ranges = vec![(smallest, largest)];
            let mut i = 0u64;
            while i < count {
                let gap = c.varint()?;
                let len = c.varint()?;
                // §19.3.1: largest = previous_smallest - gap - 2 ; smallest = largest - ack_range
                let hi = smallest.checked_sub(gap).and_then(|v| v.checked_sub(2)).ok_or(RefErr::Invalid("ACK: gap below zero (§19.3.1)"))?;
                let lo = hi.checked_sub(len).ok_or(RefErr::Invalid("ACK: range below zero (§19.3.1)"))?;
                ranges.push((lo, hi));
                smallest = lo;
                i += 1;
            }
            // §19.3.2: ECN counts only when the type is 0x03
            let ecn = if ty == 0x03 { Some([c.varint()?, c.varint()?, c.varint()?]) } else { None };
            NF::Ack { largest, delay, ranges, ecn }
        }
        // §19.4 RESET_STREAM { Stream ID (i), Application Protocol Error Code (i), Final Size (i) }
        0x04 => NF::ResetStream { id: c.varint()?, err: c.varint()?, final_size: c.varint()? },
        // §19.5 STOP_SENDING { Stream ID (i), Application Protocol Error Code (i) }
        0x05 => NF::StopSending { id: c.varint()?, err: c.varint()? },
        // §19.6 CRYPTO { Offset (i), Length (i), Crypto Data (..) }
        0x06 => {
            let offset = c.varint()?;
            let len = c.varint()?;
            let data = c.take(len)?.to_vec();
            // §19.6: offset + length > 2^62-1 "MUST be treated as a connection error of type
            // FRAME_ENCODING_ERROR or CRYPTO_BUFFER_EXCEEDED" - either layer may detect it
            if offset + len > VMAX {
                lenient = Some("CRYPTO offset+length > 2^62-1 (§19.6: FRAME_ENCODING_ERROR or CRYPTO_BUFFER_EXCEEDED)");
            }
            NF::Crypto { offset, data }
        }
        // §19.7 NEW_TOKEN { Token Length (i), Token (..) }
        0x07 => {
            let len = c.varint()?;
            let token = c.take(len)?.to_vec();
            // §19.7: "A client MUST treat receipt of a NEW_TOKEN frame with an empty Token field as a
            // connection error of type FRAME_ENCODING_ERROR" (a server treats any NEW_TOKEN as an error)
            if token.is_empty() {
                return Err(RefErr::Invalid("NEW_TOKEN with empty token (§19.7)"));
            }
            NF::NewToken { token }
        }
        // §19.8 STREAM: type 0b00001XXX, OFF = 0x04, LEN = 0x02, FIN = 0x01
        0x08..=0x0f => {
            let id = c.varint()?;
            let offset = if ty & 0x04 != 0 { c.varint()? } else { 0 };
            let has_len = ty & 0x02 != 0;
            let data = if has_len {
                let len = c.varint()?;
                c.take(len)?.to_vec()
            } else {
                // "Stream Data field extends to the end of the packet"
                c.rest().to_vec()
            };
            // §19.8: offset + length > 2^62-1 "MUST be treated as a connection error of type
            // FRAME_ENCODING_ERROR or FLOW_CONTROL_ERROR"
            if offset + data.len() as u64 > VMAX {
                lenient = Some("STREAM offset+length > 2^62-1 (§19.8: FRAME_ENCODING_ERROR or FLOW_CONTROL_ERROR)");
            }
            NF::Stream { id, offset, fin: ty & 0x01 != 0, has_len, data }
        }
        // §19.9 MAX_DATA
        0x10 => NF::MaxData(c.varint()?),
        // §19.10 MAX_STREAM_DATA
        0x11 => NF::MaxStreamData { id: c.varint()?, max: c.varint()? },
        // §19.11 MAX_STREAMS (0x12 bidirectional, 0x13 unidirectional)
        0x12 | 0x13 => {
            let max = c.varint()?;
            // §19.11: "This value cannot exceed 2^60 ... Receipt of a frame that permits opening of a
            // stream larger than this limit MUST be treated as a connection error of type
            // FRAME_ENCODING_ERROR."
            if max > 1 << 60 {
                return Err(RefErr::Invalid("MAX_STREAMS above 2^60 (§19.11)"));
            }
            NF::MaxStreams { bidi: ty == 0x12, max }
        }
        // §19.12 DATA_BLOCKED
        0x14 => NF::DataBlocked(c.varint()?),
        // §19.13 STREAM_DATA_BLOCKED
        0x15 => NF::StreamDataBlocked { id: c.varint()?, limit: c.varint()? },
        // §19.14 STREAMS_BLOCKED
        0x16 | 0x17 => {
            let limit = c.varint()?;
            // §19.14: above 2^60 "MUST be treated as a connection error of type STREAM_LIMIT_ERROR or
            // FRAME_ENCODING_ERROR"
            if limit > 1 << 60 {
                lenient = Some("STREAMS_BLOCKED above 2^60 (§19.14: STREAM_LIMIT_ERROR or FRAME_ENCODING_ERROR)");
            }
            NF::StreamsBlocked { bidi: ty == 0x16, limit }
        }
        // §19.15 NEW_CONNECTION_ID { Sequence Number (i), Retire Prior To (i), Length (8),
        //                           Connection ID (8..160), Stateless Reset Token (128) }
        0x18 => {
            let seq = c.varint()?;
            let retire_prior_to = c.varint()?;
            let len = c.u8()?;
            let cid = c.take(len as u64);
            let token = cid.clone().and_then(|_| c.arr::<16>());
            // "Values less than 1 and greater than 20 are invalid and MUST be treated as a connection
            // error of type FRAME_ENCODING_ERROR."
            if !(1..=20).contains(&len) {
                return Err(RefErr::Invalid("NEW_CONNECTION_ID length outside 1..=20 (§19.15)"));
            }
            // "Receiving a value in the Retire Prior To field that is greater than that in the
            // Sequence Number field MUST be treated as a connection error of type FRAME_ENCODING_ERROR."
            if retire_prior_to > seq {
                return Err(RefErr::Invalid("NEW_CONNECTION_ID retire_prior_to > sequence (§19.15)"));
            }
            NF::NewConnectionId { seq, retire_prior_to, cid: cid?.to_vec(), token: token? }
        }
        // §19.16 RETIRE_CONNECTION_ID
        0x19 => NF::RetireConnectionId(c.varint()?),
        // §19.17 PATH_CHALLENGE { Data (64) }, §19.18 PATH_RESPONSE
        0x1a => NF::PathChallenge(c.arr::<8>()?),
        0x1b => NF::PathResponse(c.arr::<8>()?),
        // §19.19 CONNECTION_CLOSE { Error Code (i), [Frame Type (i)], Reason Phrase Length (i), Reason Phrase (..) }
        0x1c | 0x1d => {
            let code = c.varint()?;
            let frame_type = if ty == 0x1c { Some(c.varint()?) } else { None };
            let len = c.varint()?;
            NF::ConnectionClose { app: ty == 0x1d, code, frame_type, reason: c.take(len)?.to_vec() }
        }
        // §19.20 HANDSHAKE_DONE
        0x1e => NF::HandshakeDone,
        // RFC 9221 §4 DATAGRAM { Type (i) = 0x30..0x31, [Length (i)], Datagram Data (..) }
        0x30 | 0x31 => {
            let has_len = ty == 0x31;
            let data = if has_len {
                let len = c.varint()?;
                c.take(len)?.to_vec()
            } else {
                c.rest().to_vec()
            };
            NF::Datagram { has_len, data }
        }
        // s2n-quic-dc extension, transcribed from the doc comment in frame/dc_stateless_reset_tokens.rs:
        //   DC_STATELESS_RESET_TOKENS { Type (i) = 0xdc0000, Count (i), Stateless Reset Tokens [(128)] }
        //   "1 or more 128-bit values"; the upper bound 4092 is the constant
        //   MAX_STATELESS_RESET_TOKEN_COUNT of that file (no RFC exists for this frame).
        0xdc0000 => {
            let count = c.varint()?;
            if count == 0 || count > 4092 {
                return Err(RefErr::Invalid("DC_STATELESS_RESET_TOKENS count outside 1..=4092"));
            }
            let mut v = Vec::new();
            for _ in 0..count {
                v.push(c.arr::<16>()?);
            }
            NF::DcStatelessResetTokens(v)
        }
        // s2n-quic-dc extension, doc comment of frame/mtu_probing_complete.rs:
        //   MTU_PROBING_COMPLETE { Type (i) = 0xdc0002, Mtu [16] }
        0xdc0002 => NF::MtuProbingComplete(c.be(2)? as u16),
        // §12.4: "An endpoint MUST treat the receipt of a frame of unknown type as a connection error
        // of type FRAME_ENCODING_ERROR."
        _ => return Err(RefErr::Invalid("unknown frame type (§12.4)")),
    };
    // §12.4: "a frame type MUST use the shortest possible encoding ... An endpoint MAY treat the
    // receipt of a frame type that uses a longer encoding than necessary as a connection error"
    if ty_len != ref_varint_size(ty) {
        lenient = Some("frame type not in shortest form (§12.4: MAY be treated as PROTOCOL_VIOLATION)");
    }
    Ok(RefFrame { nf, lenient })
}

// ------------------------------------------------------------------------------------------
// frames: real decoder -> neutral, real encoder <- neutral
// ------------------------------------------------------------------------------------------

trait DataBytes {
    fn bytes(self) -> Vec<u8>;
}
impl DataBytes for DecoderBuffer<'_> {
    fn bytes(self) -> Vec<u8> {
        self.into_less_safe_slice().to_vec()
    }
}
impl DataBytes for DecoderBufferMut<'_> {
    fn bytes(self) -> Vec<u8> {
        self.into_less_safe_slice().to_vec()
    }
}

fn to_neutral<'a, D: DataBytes>(f: Frame<'a, AckRangesDecoder<'a>, D>) -> NF {
    match f {
        Frame::Padding(p) => NF::Padding(p.length),
        Frame::Ping(_) => NF::Ping,
        Frame::Ack(a) => NF::Ack {
            largest: a.largest_acknowledged().as_u64(),
            delay: a.ack_delay.as_u64(),
            ranges: a.ack_ranges().map(|r| (r.start().as_u64(), r.end().as_u64())).collect(),
            ecn: a.ecn_counts.map(|e| [e.ect_0_count.as_u64(), e.ect_1_count.as_u64(), e.ce_count.as_u64()]),
        },
        Frame::ResetStream(r) => NF::ResetStream { id: r.stream_id.as_u64(), err: r.application_error_code.as_u64(), final_size: r.final_size.as_u64() },
        Frame::StopSending(r) => NF::StopSending { id: r.stream_id.as_u64(), err: r.application_error_code.as_u64() },
        Frame::Crypto(c) => NF::Crypto { offset: c.offset.as_u64(), data: c.data.bytes() },
        Frame::NewToken(t) => NF::NewToken { token: t.token.to_vec() },
        Frame::Stream(s) => NF::Stream { id: s.stream_id.as_u64(), offset: s.offset.as_u64(), fin: s.is_fin, has_len: !s.is_last_frame, data: s.data.bytes() },
        Frame::MaxData(m) => NF::MaxData(m.maximum_data.as_u64()),
        Frame::MaxStreamData(m) => NF::MaxStreamData { id: m.stream_id.as_u64(), max: m.maximum_stream_data.as_u64() },
        Frame::MaxStreams(m) => NF::MaxStreams { bidi: m.stream_type == StreamType::Bidirectional, max: m.maximum_streams.as_u64() },
        Frame::DataBlocked(m) => NF::DataBlocked(m.data_limit.as_u64()),
        Frame::StreamDataBlocked(m) => NF::StreamDataBlocked { id: m.stream_id.as_u64(), limit: m.stream_data_limit.as_u64() },
        Frame::StreamsBlocked(m) => NF::StreamsBlocked { bidi: m.stream_type == StreamType::Bidirectional, limit: m.stream_limit.as_u64() },
        Frame::NewConnectionId(n) => NF::NewConnectionId {
            seq: n.sequence_number.as_u64(),
            retire_prior_to: n.retire_prior_to.as_u64(),
            cid: n.connection_id.to_vec(),
            token: *n.stateless_reset_token,
        },
        Frame::RetireConnectionId(r) => NF::RetireConnectionId(r.sequence_number.as_u64()),
        Frame::PathChallenge(p) => NF::PathChallenge(*p.data),
        Frame::PathResponse(p) => NF::PathResponse(*p.data),
        Frame::ConnectionClose(c) => NF::ConnectionClose {
            app: c.frame_type.is_none(),
            code: c.error_code.as_u64(),
            frame_type: c.frame_type.map(|v| v.as_u64()),
            reason: c.reason.map(|r| r.to_vec()).unwrap_or_default(),
        },
        Frame::HandshakeDone(_) => NF::HandshakeDone,
        Frame::Datagram(d) => NF::Datagram { has_len: !d.is_last_frame, data: d.data.bytes() },
        Frame::DcStatelessResetTokens(t) => NF::DcStatelessResetTokens(t.into_iter().map(|x| x.into_inner()).collect()),
        Frame::MtuProbingComplete(m) => NF::MtuProbingComplete(m.mtu),
    }
}

/// an `AckRanges` source for the real ACK encoder (the trait is public)
struct RangeList(Vec<RangeInclusive<VarInt>>);
impl frame::ack::AckRanges for RangeList {
    type Iter = std::vec::IntoIter<RangeInclusive<VarInt>>;
    fn ack_ranges(&self) -> Self::Iter {
        self.0.clone().into_iter()
    }
}

struct EncOut {
    bytes: Vec<u8>,
}

/// encodes with the real encoder and checks the three length oracles:
/// encoding_size() == EncoderLenEstimator == bytes written, and the bytes do not depend on slack
fn enc_out<T: EncoderValue>(what: &str, v: &T) -> Result<EncOut, Violation> {
    let announced = v.encoding_size();
    let mut est = EncoderLenEstimator::new(usize::MAX);
    v.encode(&mut est);
    ensure(est.len() == announced, "enc.estimator", || format!("{}: encoding_size() = {} but EncoderLenEstimator counts {}", what, announced, est.len()))?;
    let mut buf = vec![0u8; announced + 16];
    let mut e = EncoderBuffer::new(&mut buf);
    v.encode(&mut e);
    let written = e.len();
    ensure(written == announced, "enc.announced_size", || format!("{}: announced {} bytes, wrote {}", what, announced, written))?;
    buf.truncate(written);
    // exact-capacity buffer (what encode_to_vec does): different varint store path, same bytes
    let mut exact = vec![0u8; announced];
    let mut e = EncoderBuffer::new(&mut exact);
    v.encode(&mut e);
    ensure(e.len() == announced && exact == buf, "enc.capacity_dependent", || format!("{}: {} with slack vs {} exact", what, hex(&buf), hex(&exact)))?;
    let mut e = EncoderBuffer::new(&mut exact);
    ensure(v.encoding_size_for_encoder(&e) == announced, "enc.size_for_encoder", || format!("{}: encoding_size_for_encoder differs from encoding_size", what))?;
    e.encode(v);
    Ok(EncOut { bytes: buf })
}

/// builds the real frame described by `nf` and encodes it with the real encoder
fn encode_spec(nf: &NF) -> Result<EncOut, Violation> {
    let what = brief(nf);
    let w = what.as_str();
    match nf {
        NF::Padding(n) => enc_out(w, &frame::Padding { length: *n }),
        NF::Ping => enc_out(w, &frame::Ping),
        NF::Ack { delay, ranges, ecn, .. } => {
            let f = frame::Ack {
                ack_delay: vi(*delay),
                ack_ranges: RangeList(ranges.iter().map(|&(lo, hi)| vi(lo)..=vi(hi)).collect()),
                ecn_counts: ecn.map(|e| frame::ack::EcnCounts { ect_0_count: vi(e[0]), ect_1_count: vi(e[1]), ce_count: vi(e[2]) }),
            };
            enc_out(w, &f)
        }
        NF::ResetStream { id, err, final_size } => enc_out(w, &frame::ResetStream { stream_id: vi(*id), application_error_code: vi(*err), final_size: vi(*final_size) }),
        NF::StopSending { id, err } => enc_out(w, &frame::StopSending { stream_id: vi(*id), application_error_code: vi(*err) }),
        NF::Crypto { offset, data } => enc_out(w, &frame::Crypto { offset: vi(*offset), data: &data[..] }),
        NF::NewToken { token } => enc_out(w, &frame::NewToken { token: &token[..] }),
        NF::Stream { id, offset, fin, has_len, data } => {
            enc_out(w, &frame::Stream { stream_id: vi(*id), offset: vi(*offset), is_last_frame: !*has_len, is_fin: *fin, data: &data[..] })
        }
        NF::MaxData(v) => enc_out(w, &frame::MaxData { maximum_data: vi(*v) }),
        NF::MaxStreamData { id, max } => enc_out(w, &frame::MaxStreamData { stream_id: vi(*id), maximum_stream_data: vi(*max) }),
        NF::MaxStreams { bidi, max } => enc_out(w, &frame::MaxStreams { stream_type: stype(*bidi), maximum_streams: vi(*max) }),
        NF::DataBlocked(v) => enc_out(w, &frame::DataBlocked { data_limit: vi(*v) }),
        NF::StreamDataBlocked { id, limit } => enc_out(w, &frame::StreamDataBlocked { stream_id: vi(*id), stream_data_limit: vi(*limit) }),
        NF::StreamsBlocked { bidi, limit } => enc_out(w, &frame::StreamsBlocked { stream_type: stype(*bidi), stream_limit: vi(*limit) }),
        NF::NewConnectionId { seq, retire_prior_to, cid, token } => {
            enc_out(w, &frame::NewConnectionId { sequence_number: vi(*seq), retire_prior_to: vi(*retire_prior_to), connection_id: &cid[..], stateless_reset_token: token })
        }
        NF::RetireConnectionId(v) => enc_out(w, &frame::RetireConnectionId { sequence_number: vi(*v) }),
        NF::PathChallenge(d) => enc_out(w, &frame::PathChallenge { data: d }),
        NF::PathResponse(d) => enc_out(w, &frame::PathResponse { data: d }),
        NF::ConnectionClose { code, frame_type, reason, .. } => enc_out(
            w,
            &frame::ConnectionClose { error_code: vi(*code), frame_type: frame_type.map(vi), reason: if reason.is_empty() { None } else { Some(&reason[..]) } },
        ),
        NF::HandshakeDone => enc_out(w, &frame::HandshakeDone),
        NF::Datagram { has_len, data } => enc_out(w, &frame::Datagram { is_last_frame: !*has_len, data: &data[..] }),
        NF::DcStatelessResetTokens(t) => {
            let toks: Vec<stateless_reset::Token> = t.iter().map(|x| stateless_reset::Token::from(*x)).collect();
            match frame::DcStatelessResetTokens::new(&toks) {
                Ok(f) => enc_out(w, &f),
                Err(e) => violation("enc.constructor", format!("{}: {}", w, e)),
            }
        }
        NF::MtuProbingComplete(m) => enc_out(w, &frame::MtuProbingComplete::new(*m)),
    }
}

fn stype(bidi: bool) -> StreamType {
    if bidi {
        StreamType::Bidirectional
    } else {
        StreamType::Unidirectional
    }
}

// ------------------------------------------------------------------------------------------
// frames: comparison of the real decoder with the reference on one packet payload
// ------------------------------------------------------------------------------------------

const OUT_ACCEPT: u64 = 1 << 8;
const OUT_REJECT: u64 = 2 << 8;
const OUT_LENIENT_REJECT: u64 = 3 << 8;

/// Decodes `input` as a frame sequence with the real decoder (FrameMut, frame by frame until the
/// payload is empty or an error occurs) and with the reference; returns the outcome class and the
/// frames both agreed on.
fn compare_frames(input: &[u8]) -> Result<(u64, Vec<NF>), Violation> {
    let mut buf = input.to_vec();
    let mut rest = DecoderBufferMut::new(&mut buf);
    let mut pos = 0usize;
    let mut frames: Vec<NF> = Vec::new();
    let class = |frames: &Vec<NF>| frames.first().map(|f| f.kind()).unwrap_or(0);
    loop {
        if pos == input.len() {
            ensure(rest.is_empty(), "frames.remaining", || format!("{}: decoder has {} bytes left at the end", hex(input), rest.len()))?;
            return Ok((OUT_ACCEPT | class(&frames), frames));
        }
        let before = rest.len();
        ensure(before == input.len() - pos, "frames.remaining", || format!("{}: remaining {} at offset {}", hex(input), before, pos))?;
        let real = rest.decode::<FrameMut>();
        let mut cur = Cur::new(&input[pos..]);
        let want = ref_frame(&mut cur);
        match (want, real) {
            (Err(_), Err(_)) => return Ok((OUT_REJECT | class(&frames), frames)),
            (Err(e), Ok((f, _))) => {
                let nf = to_neutral(f);
                return violation("frames.accepts_invalid", format!("{} at offset {}: decoder returned {:?}, reference rejects: {:?}", hex(input), pos, nf, e));
            }
            (Ok(w), Err(e)) => {
                if w.lenient.is_some() {
                    return Ok((OUT_LENIENT_REJECT | class(&frames), frames));
                }
                return violation("frames.rejects_valid", format!("{} at offset {}: decoder error '{}', reference parses {:?}", hex(input), pos, e, w.nf));
            }
            (Ok(w), Ok((f, r))) => {
                let consumed = before - r.len();
                let nf = to_neutral(f);
                // "no endless loop": every successful decode makes progress
                ensure(consumed >= 1, "frames.no_progress", || format!("{} at offset {}: decoded {:?} consuming 0 bytes", hex(input), pos, nf))?;
                if let NF::Padding(n) = nf {
                    // the decoder may report a run of PADDING frames (§19.1: each is the single byte
                    // 0x00) as one value; the reference confirms n consecutive PADDING frames
                    ensure(n == consumed && n >= 1, "frames.consumed", || format!("{} at offset {}: Padding({}) consumed {}", hex(input), pos, n, consumed))?;
                    let mut c2 = Cur::new(&input[pos..]);
                    for k in 0..n {
                        let ok = matches!(ref_frame(&mut c2), Ok(RefFrame { nf: NF::Padding(1), lenient: None }));
                        ensure(ok && c2.pos == k + 1, "frames.value", || format!("{} at offset {}: Padding({}) but byte {} is not a PADDING frame", hex(input), pos, n, k))?;
                    }
                } else {
                    ensure(nf == w.nf, "frames.value", || format!("{} at offset {}: decoder {:?}, reference {:?}", hex(input), pos, nf, w.nf))?;
                    ensure(consumed == cur.pos, "frames.consumed", || format!("{} at offset {}: decoder consumed {}, reference {}", hex(input), pos, consumed, cur.pos))?;
                }
                frames.push(nf);
                pos += consumed;
                rest = r;
            }
        }
    }
}

/// the same payload through FrameRef (immutable data view): must give the same frames
fn decode_all_ref(input: &[u8]) -> Result<Vec<NF>, String> {
    let mut buf = input.to_vec();
    let mut rest = DecoderBufferMut::new(&mut buf);
    let mut out = Vec::new();
    while !rest.is_empty() {
        let (f, r) = rest.decode::<FrameRef>().map_err(|e| e.to_string())?;
        out.push(to_neutral(f));
        rest = r;
    }
    Ok(out)
}

// ------------------------------------------------------------------------------------------
// frames: E3 grid of field tuples
// ------------------------------------------------------------------------------------------

#[derive(Clone)]
struct Spec {
    nf: NF,
    /// false: a value the encoder will emit but that §19 forbids on the wire (negative case: the
    /// decoder must reject it, or may reject it when the RFC leaves the layer open)
    valid: bool,
}

fn data(len: usize, salt: u64) -> Vec<u8> {
    prf_vec(KEY ^ salt, 0, len)
}

fn frame_specs() -> Vec<Spec> {
    let mut out: Vec<Spec> = Vec::new();
    let mut ok = |nf: NF| out.push(Spec { nf, valid: true });
    for n in [1usize, 2, 5] {
        ok(NF::Padding(n));
    }
    ok(NF::Ping);
    ok(NF::HandshakeDone);
    // ACK: largest x delay x first range x {0,1,2 further ranges} x ECN
    let ecns: [Option<[u64; 3]>; 4] = [None, Some([0, 0, 0]), Some([63, 64, 16_384]), Some([VMAX, VMAX, VMAX])];
    for &largest in &V8 {
        for &delay in &[0u64, 16_384, VMAX] {
            let mut firsts = vec![0u64, 1, 64, largest];
            firsts.retain(|f| *f <= largest);
            firsts.dedup();
            firsts.sort();
            firsts.dedup();
            for &first in &firsts {
                let base = (largest - first, largest);
                let mut shapes: Vec<Vec<(u64, u64)>> = vec![vec![]];
                for g in [0u64, 1, 63, 64] {
                    for l in [0u64, 1, 64] {
                        shapes.push(vec![(g, l)]);
                    }
                }
                for a in [(0u64, 0u64), (1, 1), (64, 64), (0, 64)] {
                    for b in [(0u64, 0u64), (1, 1), (64, 64), (0, 64)] {
                        shapes.push(vec![a, b]);
                    }
                }
                for shape in &shapes {
                    let mut ranges = vec![base];
                    let mut smallest = base.0;
                    let mut fits = true;
                    for &(g, l) in shape {
                        match smallest.checked_sub(g + 2).and_then(|hi| hi.checked_sub(l).map(|lo| (lo, hi))) {
                            Some((lo, hi)) => {
                                ranges.push((lo, hi));
                                smallest = lo;
                            }
                            None => fits = false,
                        }
                    }
                    if !fits {
                        continue;
                    }
                    for ecn in &ecns {
                        ok(NF::Ack { largest, delay, ranges: ranges.clone(), ecn: *ecn });
                    }
                }
            }
        }
    }
    for &a in &V8 {
        ok(NF::MaxData(a));
        ok(NF::DataBlocked(a));
        ok(NF::RetireConnectionId(a));
        for &b in &V8 {
            ok(NF::StopSending { id: a, err: b });
            ok(NF::MaxStreamData { id: a, max: b });
            ok(NF::StreamDataBlocked { id: a, limit: b });
            for &c in &V8 {
                ok(NF::ResetStream { id: a, err: b, final_size: c });
            }
        }
    }
    let lens = [0usize, 1, 5, 64];
    for &offset in &V8 {
        for &l in &lens {
            ok(NF::Crypto { offset, data: data(l, offset) });
        }
    }
    for l in [1usize, 5, 64] {
        ok(NF::NewToken { token: data(l, 7) });
    }
    for &id in &V8 {
        for &offset in &V8 {
            for fin in [false, true] {
                for has_len in [true, false] {
                    for &l in &lens {
                        ok(NF::Stream { id, offset, fin, has_len, data: data(l, id ^ offset) });
                    }
                }
            }
        }
    }
    for bidi in [true, false] {
        for v in [0u64, 63, 64, 16_383, 16_384, (1 << 30) - 1, 1 << 30, (1 << 60) - 1, 1 << 60] {
            ok(NF::MaxStreams { bidi, max: v });
            ok(NF::StreamsBlocked { bidi, limit: v });
        }
    }
    let token16: [u8; 16] = data(16, 3).try_into().unwrap();
    for &seq in &V8 {
        for &rpt in &V8 {
            if rpt <= seq {
                for l in [1usize, 8, 20] {
                    ok(NF::NewConnectionId { seq, retire_prior_to: rpt, cid: data(l, 11), token: token16 });
                }
            }
        }
    }
    for pat in [[0u8; 8], [0xff; 8], data(8, 5).try_into().unwrap()] {
        ok(NF::PathChallenge(pat));
        ok(NF::PathResponse(pat));
    }
    for &code in &V8 {
        for &l in &lens {
            ok(NF::ConnectionClose { app: true, code, frame_type: None, reason: data(l, 9) });
            for &ft in &V8 {
                ok(NF::ConnectionClose { app: false, code, frame_type: Some(ft), reason: data(l, 9) });
            }
        }
    }
    for has_len in [true, false] {
        for &l in &lens {
            ok(NF::Datagram { has_len, data: data(l, 13) });
        }
    }
    for n in [1usize, 2, 3] {
        ok(NF::DcStatelessResetTokens((0..n).map(|k| data(16, 20 + k as u64).try_into().unwrap()).collect()));
    }
    for m in [0u16, 1, 0x0100, 1200, 0xffff] {
        ok(NF::MtuProbingComplete(m));
    }
    // negative cases: encodable, but forbidden on the wire by §19
    let mut bad = |nf: NF| out.push(Spec { nf, valid: false });
    for bidi in [true, false] {
        for v in [(1u64 << 60) + 1, VMAX] {
            bad(NF::MaxStreams { bidi, max: v });
            bad(NF::StreamsBlocked { bidi, limit: v });
        }
    }
    bad(NF::NewToken { token: vec![] });
    bad(NF::NewConnectionId { seq: 1, retire_prior_to: 1, cid: vec![], token: token16 });
    bad(NF::NewConnectionId { seq: 1, retire_prior_to: 1, cid: data(21, 11), token: token16 });
    bad(NF::NewConnectionId { seq: 1, retire_prior_to: 2, cid: data(8, 11), token: token16 });
    bad(NF::NewConnectionId { seq: 63, retire_prior_to: 64, cid: data(8, 11), token: token16 });
    out
}

fn check_frame_spec(spec: &Spec) -> Result<u64, Violation> {
    let enc = encode_spec(&spec.nf)?;
    let bytes = &enc.bytes;
    // reference view of what the encoder emitted
    let mut cur = Cur::new(bytes);
    let mut want: Vec<NF> = Vec::new();
    let mut strict_ok = true;
    while cur.rem() > 0 {
        match ref_frame(&mut cur) {
            Ok(f) => {
                strict_ok &= f.lenient.is_none();
                want.push(f.nf);
            }
            Err(e) => {
                if spec.valid {
                    return violation("frames.emitted_layout", format!("{} encoded as {}: reference cannot parse it ({:?})", brief(&spec.nf), hex(bytes), e));
                }
                strict_ok = false;
                break;
            }
        }
    }
    // merge PADDING runs on the reference side
    let mut merged: Vec<NF> = Vec::new();
    for f in want {
        match (merged.last_mut(), &f) {
            (Some(NF::Padding(n)), NF::Padding(1)) => *n += 1,
            _ => merged.push(f),
        }
    }
    let (class, got) = compare_frames(bytes)?;
    if spec.valid {
        // offset + length beyond 2^62-1 is emitted as asked; whether it is accepted is left open (lenient)
        ensure(merged == vec![spec.nf.clone()], "frames.emitted_layout", || {
            format!("{} encoded as {}: per §19 these bytes mean {:?}", brief(&spec.nf), hex(bytes), merged)
        })?;
        // shortest form: every variable-length integer the encoder emitted
        ensure(cur.nonmin == 0, "frames.shortest_form", || format!("{} encoded as {}: {} integers not in shortest form", brief(&spec.nf), hex(bytes), cur.nonmin))?;
        if strict_ok {
            ensure((class & !0xff) == OUT_ACCEPT && got == vec![spec.nf.clone()], "frames.roundtrip", || {
                format!("{} encoded as {} decodes to {:?}", brief(&spec.nf), hex(bytes), got)
            })?;
            // the decoded value (enum `Frame`, ACK ranges read back lazily from the buffer, data as a
            // buffer view) re-encodes to the identical bytes through the enum's own encoder
            let mut copy = bytes.clone();
            if let Ok((f, _)) = DecoderBufferMut::new(&mut copy).decode::<FrameMut>() {
                let re = enc_out("decoded Frame", &f)?;
                ensure(re.bytes == *bytes, "frames.reencode", || format!("{}: decoded frame re-encodes as {}", hex(bytes), hex(&re.bytes)))?;
            }
            let via_ref = decode_all_ref(bytes);
            ensure(via_ref.as_ref().ok() == Some(&got), "frames.ref_view_differs", || format!("{}: FrameRef gives {:?}, FrameMut {:?}", hex(bytes), via_ref, got))?;
        }
    } else {
        ensure((class & !0xff) != OUT_ACCEPT || !strict_ok, "frames.accepts_invalid", || format!("{} ({}) accepted", brief(&spec.nf), hex(bytes)))?;
    }
    Ok(class)
}

/// E3b: the message embedded in a sequence
fn seq_variant(bytes: &[u8], variant: u64) -> Vec<u8> {
    let mut v = Vec::new();
    match variant {
        0 => {
            v.extend_from_slice(bytes);
            v.push(0x01); // PING after
        }
        1 => {
            v.push(0x00); // PADDING before
            v.extend_from_slice(bytes);
        }
        2 => {
            v.extend_from_slice(bytes);
            v.extend_from_slice(bytes);
        }
        _ => {
            v.extend_from_slice(bytes);
            v.extend_from_slice(&[0x00, 0x00, 0x1e]); // PADDING x2, HANDSHAKE_DONE
        }
    }
    v
}

struct FrameMsgs {
    specs: Vec<Spec>,
    /// encoded form (None when the encoder itself misbehaved; E3 reports that)
    bytes: Vec<Option<Vec<u8>>>,
}

fn frame_msgs() -> std::sync::Arc<FrameMsgs> {
    let specs = frame_specs();
    let bytes = specs.iter().map(|s| guarded("setup", || encode_spec(&s.nf)).ok().map(|e| e.bytes)).collect();
    std::sync::Arc::new(FrameMsgs { specs, bytes })
}

fn frames_sections(tier: Tier) -> Vec<Section> {
    let mut s = Vec::new();
    let only_class = |r: Result<(u64, Vec<NF>), Violation>| r.map(|(c, _)| c);
    // E1: all byte strings up to length 3 (both tiers)
    let n1 = tier.pick(3, 3);
    s.push(Section::new("e1", count_upto(256, n1), 300.0, move |i| only_class(compare_frames(&nth_bytes(i))), |i| input_json(&nth_bytes(i))));
    // E2: every first byte that is a frame type (all of 0x00..=0x3f, valid or not) or starts a
    // multi-byte type (0x40, 0x7f, 0x80, 0xbf, 0xc0, 0xff), followed by every Σ_b string
    let firsts: Vec<u8> = (0u8..0x40).chain([0x40, 0x7f, 0x80, 0xbf, 0xc0, 0xff]).collect();
    let n2 = tier.pick(6, 7);
    let ntail = count_upto(9, n2);
    let mk = move |i: u64| {
        let mut b = vec![firsts[(i / ntail) as usize]];
        b.extend(nth_sigma(i % ntail));
        b
    };
    let mk2 = mk.clone();
    s.push(Section::new("e2", 70 * ntail, tier.pick(300.0, 1200.0), move |i| only_class(compare_frames(&mk(i))), move |i| input_json(&mk2(i))));
    // E2x: the extension types need 4 bytes of type; Σ_b tails after the two known ones, their
    // neighbours and the 8-byte (non-shortest) spelling
    let heads: Vec<Vec<u8>> = vec![
        vec![0x80, 0xdc, 0x00, 0x00],
        vec![0x80, 0xdc, 0x00, 0x02],
        vec![0x80, 0xdc, 0x00, 0x01],
        vec![0x80, 0xdc, 0x00, 0x03],
        vec![0xc0, 0, 0, 0, 0, 0xdc, 0x00, 0x00],
        vec![0xc0, 0, 0, 0, 0, 0xdc, 0x00, 0x02],
        vec![0x40, 0x01],
        vec![0x40, 0x06],
        vec![0x80, 0x00, 0x00, 0x08],
    ];
    let nh = heads.len() as u64;
    let nt3 = count_upto(9, tier.pick(4, 5));
    let mk = move |i: u64| {
        let mut b = heads[(i / nt3) as usize].clone();
        b.extend(nth_sigma(i % nt3));
        b
    };
    let mk2 = mk.clone();
    s.push(Section::new("e2x", nh * nt3, 120.0, move |i| only_class(compare_frames(&mk(i))), move |i| input_json(&mk2(i))));
    // E3: field tuples through the real encoders
    let msgs = frame_msgs();
    let (m1, m2) = (msgs.clone(), msgs.clone());
    s.push(Section::new(
        "e3",
        msgs.specs.len() as u64,
        120.0,
        move |i| check_frame_spec(&m1.specs[i as usize]),
        move |i| Json::obj().set("frame", brief(&m2.specs[i as usize].nf)),
    ));
    // E3b: each message inside a sequence
    let (m1, m2) = (msgs.clone(), msgs.clone());
    s.push(Section::new(
        "e3seq",
        msgs.specs.len() as u64 * 4,
        120.0,
        move |i| match &m1.bytes[(i / 4) as usize] {
            Some(b) => only_class(compare_frames(&seq_variant(b, i % 4))),
            None => Ok(0),
        },
        move |i| Json::obj().set("frame", brief(&m2.specs[(i / 4) as usize].nf)).set("variant", i % 4),
    ));
    // E4: every single-byte substitution of every E3 message
    let mut prefix = vec![0u64];
    for b in &msgs.bytes {
        let l = b.as_ref().map(|b| b.len() as u64).unwrap_or(0);
        prefix.push(prefix.last().unwrap() + l * 256);
    }
    let prefix = std::sync::Arc::new(prefix);
    let total = *prefix.last().unwrap();
    let mutate = {
        let (msgs, prefix) = (msgs.clone(), prefix.clone());
        move |i: u64| {
            let (k, off) = locate(&prefix, i);
            let mut b = msgs.bytes[k].clone().unwrap();
            b[(off / 256) as usize] = (off % 256) as u8;
            (k, b)
        }
    };
    let (mu1, mu2, m2) = (mutate.clone(), mutate, msgs.clone());
    s.push(Section::new("e4", total, 400.0, move |i| only_class(compare_frames(&mu1(i).1)), move |i| {
        let (k, b) = mu2(i);
        input_json(&b).set("base", brief(&m2.specs[k].nf))
    }));
    // E4x2 (thorough): every substitution of two bytes by Σ_b symbols
    if tier == Tier::Thorough {
        let mut prefix = vec![0u64];
        for b in &msgs.bytes {
            let l = b.as_ref().map(|b| b.len() as u64).unwrap_or(0);
            prefix.push(prefix.last().unwrap() + l * l.saturating_sub(1) / 2 * 81);
        }
        let total = *prefix.last().unwrap();
        let prefix = std::sync::Arc::new(prefix);
        let mutate = {
            let msgs = msgs.clone();
            move |i: u64| {
                let (k, off) = locate(&prefix, i);
                let mut b = msgs.bytes[k].clone().unwrap();
                let (mut pair, sym) = (off / 81, off % 81);
                // pair index -> positions p < q
                let mut p = 0usize;
                let l = b.len() as u64;
                while pair >= l - 1 - p as u64 {
                    pair -= l - 1 - p as u64;
                    p += 1;
                }
                let q = p + 1 + pair as usize;
                b[p] = SIGMA[(sym / 9) as usize];
                b[q] = SIGMA[(sym % 9) as usize];
                (k, b)
            }
        };
        let (mu1, mu2, m2) = (mutate.clone(), mutate, msgs.clone());
        s.push(Section::new("e4x2", total, 1200.0, move |i| only_class(compare_frames(&mu1(i).1)), move |i| {
            let (k, b) = mu2(i);
            input_json(&b).set("base", brief(&m2.specs[k].nf))
        }));
    }
    s
}

// ------------------------------------------------------------------------------------------
// packets: neutral header value + reference parser (RFC 9000 §17, RFC 8999 §5-6)
// ------------------------------------------------------------------------------------------

#[derive(Debug, Clone, Copy, PartialEq, Eq)]
enum PKind {
    Short = 1,
    VersionNegotiation,
    Initial,
    ZeroRtt,
    Handshake,
    Retry,
}

#[derive(Debug, Clone, PartialEq, Eq)]
struct NP {
    kind: PKind,
    /// first byte as far as the decoder exposes it unprotected: Short -> spin bit only, VN/Retry -> whole byte
    first: u8,
    version: Option<u32>,
    dcid: Vec<u8>,
    scid: Option<Vec<u8>>,
    /// Initial: token; Retry: retry token
    token: Option<Vec<u8>>,
    /// VN: supported versions; Retry: integrity tag
    extra: Vec<u8>,
    /// offset of the (protected) packet number field
    header_len: Option<usize>,
    /// bytes of the datagram that belong to this packet
    packet_len: usize,
    /// bytes of the datagram left for the next coalesced packet
    remaining: usize,
}

enum Verdict {
    Accept(NP),
    /// accept with this value or reject
    Lenient(NP, #[allow(dead_code)] &'static str),
    Reject(&'static str),
    /// the RFCs do not constrain this input: anything but a panic; if accepted, the RFC 8999
    /// invariant fields (version, DCID, SCID) must still be these
    Any(Option<(u32, Vec<u8>, Vec<u8>)>, #[allow(dead_code)] &'static str),
}

/// `short_dcid_len`: the connection ID length this endpoint issued (§5.1: short headers carry no
/// length, the receiver knows it)
fn ref_packet(b: &[u8], short_dcid_len: usize) -> Verdict {
    let mut c = Cur::new(b);
    let first = match c.u8() {
        Ok(f) => f,
        Err(_) => return Verdict::Reject("empty datagram"),
    };
    if first & 0x80 == 0 {
        // §17.3.1 1-RTT { Header Form (1) = 0, Fixed Bit (1) = 1, Spin Bit (1), Reserved (2), Key Phase (1),
        //                 Packet Number Length (2), Destination Connection ID (0..160), ... }
        // "Fixed Bit: ... Packets containing a zero value for this bit are not valid packets in this
        // version and MUST be discarded."
        if first & 0x40 == 0 {
            return Verdict::Reject("short header without fixed bit (§17.3.1)");
        }
        let dcid = match c.take(short_dcid_len as u64) {
            Ok(d) => d.to_vec(),
            Err(_) => return Verdict::Reject("short header shorter than the connection ID"),
        };
        let np = NP {
            kind: PKind::Short,
            first: first & 0x20,
            version: None,
            dcid,
            scid: None,
            token: None,
            extra: vec![],
            header_len: Some(c.pos),
            // a short header packet always extends to the end of the datagram (§12.2)
            packet_len: b.len(),
            remaining: 0,
        };
        if short_dcid_len > 20 {
            // not a wire question: a v1 endpoint cannot have issued such an ID (§17.2 / §5.1)
            return Verdict::Lenient(np, "locally configured connection ID length above 20");
        }
        return Verdict::Accept(np);
    }
    // RFC 8999 §5.1 Long Header { Header Form (1) = 1, Version-Specific Bits (7), Version (32),
    //   Destination Connection ID Length (8), Destination Connection ID (0..2040),
    //   Source Connection ID Length (8), Source Connection ID (0..2040), Version-Specific Data (..) }
    let inv = (|| -> Result<(u32, Vec<u8>, Vec<u8>), RefErr> {
        let version = c.be(4)? as u32;
        let dl = c.u8()?;
        let dcid = c.take(dl as u64)?.to_vec();
        let sl = c.u8()?;
        let scid = c.take(sl as u64)?.to_vec();
        Ok((version, dcid, scid))
    })();
    let (version, dcid, scid) = match inv {
        Ok(x) => x,
        Err(_) => return Verdict::Reject("truncated inside the RFC 8999 invariant fields"),
    };
    let long_cid = dcid.len() > 20 || scid.len() > 20;
    if version == 0 {
        // RFC 8999 §6 / RFC 9000 §17.2.1 Version Negotiation { Header Form (1) = 1, Unused (7),
        //   Version (32) = 0, DCID Len (8), DCID (0..2040), SCID Len (8), SCID (0..2040), Supported Version (32) ... }
        let versions = c.rest().to_vec();
        // RFC 8999 §6: "An endpoint MUST ignore a packet that contains no Supported Version fields or
        // contains a truncated Supported Version value."
        if versions.is_empty() || versions.len() % 4 != 0 {
            return Verdict::Reject("VN without versions or with a truncated version (RFC 8999 §6)");
        }
        let np = NP {
            kind: PKind::VersionNegotiation,
            first,
            version: None,
            dcid,
            scid: Some(scid),
            token: None,
            extra: versions,
            header_len: None,
            packet_len: b.len(),
            remaining: 0,
        };
        if long_cid {
            // §17.2.1 allows 0..2040 bits here, but the IDs echo what this (v1-only) client sent
            // (≤ 20 bytes, §17.2), so such a packet can never be matched: dropping it early is allowed
            return Verdict::Lenient(np, "VN with a connection ID above 20 bytes");
        }
        return Verdict::Accept(np);
    }
    // From here on the layout is version specific.  RFC 9000 defines it for version 1 only; for any
    // other version nothing beyond the invariants is specified, so the verdict is `Any` unless the
    // v1 layout happens to parse (then: if accepted, it must be with the v1-layout values).
    let v1 = version == 1;
    let r = (|| -> Result<(NP, Option<&'static str>), &'static str> {
        // §17.2: "Fixed Bit: ... Packets containing a zero value for this bit are not valid packets in
        // this version and MUST be discarded."
        if first & 0x40 == 0 {
            return Err("long header without fixed bit (§17.2)");
        }
        // §17.2 Table 5: 0x00 Initial, 0x01 0-RTT, 0x02 Handshake, 0x03 Retry
        let kind = [PKind::Initial, PKind::ZeroRtt, PKind::Handshake, PKind::Retry][((first >> 4) & 3) as usize];
        let mut lenient = None;
        if long_cid {
            // §17.2: "In QUIC version 1, this value MUST NOT exceed 20 bytes. Endpoints that receive a
            // version 1 long header with a value larger than 20 MUST drop the packet. In order to
            // properly form a Version Negotiation packet, servers SHOULD be able to read longer
            // connection IDs from other QUIC versions."
            // For Initial packets the drop may therefore happen after version negotiation.
            if kind == PKind::Initial {
                lenient = Some("Initial with connection ID above 20 bytes (§17.2: drop, possibly after version negotiation)");
            } else {
                return Err("version 1 long header with connection ID above 20 bytes (§17.2)");
            }
        }
        let mut np = NP { kind, first: 0, version: Some(version), dcid: dcid.clone(), scid: Some(scid.clone()), token: None, extra: vec![], header_len: None, packet_len: 0, remaining: 0 };
        if kind == PKind::Retry {
            // §17.2.5 Retry { ..., Retry Token (..), Retry Integrity Tag (128) }: no Length, the packet
            // is the rest of the datagram
            let rest = c.rest();
            if rest.len() < 16 {
                return Err("Retry shorter than its integrity tag (§17.2.5)");
            }
            // §17.2.5.2: "A client MUST discard a Retry packet with a zero-length Retry Token field."
            if rest.len() == 16 {
                return Err("Retry with empty token (§17.2.5.2)");
            }
            np.first = first;
            np.token = Some(rest[..rest.len() - 16].to_vec());
            np.extra = rest[rest.len() - 16..].to_vec();
            np.packet_len = b.len();
            return Ok((np, lenient));
        }
        if kind == PKind::Initial {
            // §17.2.2 Initial { ..., Token Length (i), Token (..), Length (i), Packet Number (8..32), Packet Payload }
            let tl = c.varint().map_err(|_| "truncated token length")?;
            np.token = Some(c.take(tl).map_err(|_| "truncated token")?.to_vec());
        }
        // §17.2: "Length: ... the length of the remainder of the packet (that is, the Packet Number and
        // Payload fields) in bytes"
        let len = c.varint().map_err(|_| "truncated Length")?;
        np.header_len = Some(c.pos);
        c.take(len).map_err(|_| "Length exceeds the datagram (§12.2)")?;
        np.packet_len = c.pos;
        np.remaining = c.rem();
        Ok((np, lenient))
    })();
    match (r, v1) {
        (Ok((np, None)), true) => Verdict::Accept(np),
        (Ok((np, Some(why))), true) => Verdict::Lenient(np, why),
        (Err(why), true) => Verdict::Reject(why),
        (Ok((np, _)), false) => Verdict::Lenient(np, "version other than 1: only the RFC 8999 invariants are specified"),
        (Err(_), false) => Verdict::Any(Some((version, dcid, scid)), "version other than 1 and not parseable with the v1 layout"),
    }
}

fn dbg_header_len(p: &s2n_quic_core::crypto::ProtectedPayload) -> Option<usize> {
    // `header_len` is crate-private; the Debug rendering prints it
    let s = format!("{:?}", p);
    let i = s.find("header_len: ")? + "header_len: ".len();
    let digits: String = s[i..].chars().take_while(|c| c.is_ascii_digit()).collect();
    digits.parse().ok()
}

fn real_packet(b: &[u8], short_dcid_len: usize) -> Result<NP, String> {
    use packet::ProtectedPacket as P;
    let mut buf = b.to_vec();
    let addr = inet::SocketAddress::default();
    let info = connection::id::ConnectionInfo::new(&addr);
    let (p, rest) = P::decode(DecoderBufferMut::new(&mut buf), &info, &short_dcid_len).map_err(|e| e.to_string())?;
    let remaining = rest.len();
    let tail_ok = rest.into_less_safe_slice() == &b[b.len() - remaining..];
    if !tail_ok {
        return Err("PANIC-EQUIVALENT: remaining buffer is not the tail of the datagram".into());
    }
    // accessor cross-check
    let (d1, s1, v1) = (p.destination_connection_id().to_vec(), p.source_connection_id().map(|s| s.to_vec()), p.version());
    let np = match p {
        P::Short(s) => NP {
            kind: PKind::Short,
            first: if s.spin_bit == packet::short::SpinBit::One { 0x20 } else { 0 },
            version: None,
            dcid: s.destination_connection_id().to_vec(),
            scid: None,
            token: None,
            extra: vec![],
            header_len: dbg_header_len(&s.payload),
            packet_len: s.payload.len(),
            remaining,
        },
        P::VersionNegotiation(v) => {
            let list: Vec<u8> = v.iter().flat_map(|x| x.to_be_bytes()).collect();
            if v.supported_versions.len() % 4 == 0 && list != v.supported_versions {
                return Err("PANIC-EQUIVALENT: VN iterator disagrees with supported_versions bytes".into());
            }
            NP { kind: PKind::VersionNegotiation, first: v.tag, version: None, dcid: v.destination_connection_id.to_vec(), scid: Some(v.source_connection_id.to_vec()), token: None, extra: v.supported_versions.to_vec(), header_len: None, packet_len: b.len() - remaining, remaining }
        }
        P::Initial(i) => NP {
            kind: PKind::Initial,
            first: 0,
            version: Some(i.version),
            dcid: i.destination_connection_id().to_vec(),
            scid: Some(i.source_connection_id().to_vec()),
            token: Some(i.token().to_vec()),
            extra: vec![],
            header_len: dbg_header_len(&i.payload),
            packet_len: i.payload.len(),
            remaining,
        },
        P::ZeroRtt(i) => NP { kind: PKind::ZeroRtt, first: 0, version: Some(i.version), dcid: i.destination_connection_id().to_vec(), scid: Some(i.source_connection_id().to_vec()), token: None, extra: vec![], header_len: dbg_header_len(&i.payload), packet_len: i.payload.len(), remaining },
        P::Handshake(i) => NP { kind: PKind::Handshake, first: 0, version: Some(i.version), dcid: i.destination_connection_id().to_vec(), scid: Some(i.source_connection_id().to_vec()), token: None, extra: vec![], header_len: dbg_header_len(&i.payload), packet_len: i.payload.len(), remaining },
        P::Retry(r) => NP { kind: PKind::Retry, first: r.tag, version: Some(r.version), dcid: r.destination_connection_id.to_vec(), scid: Some(r.source_connection_id.to_vec()), token: Some(r.retry_token.to_vec()), extra: r.retry_integrity_tag.to_vec(), header_len: None, packet_len: b.len() - remaining, remaining },
    };
    if d1 != np.dcid || s1 != np.scid || (v1 != np.version) {
        return Err("PANIC-EQUIVALENT: ProtectedPacket accessors disagree with the variant's fields".into());
    }
    Ok(np)
}

fn compare_packet(b: &[u8], short_dcid_len: usize) -> Result<u64, Violation> {
    let want = ref_packet(b, short_dcid_len);
    let got = real_packet(b, short_dcid_len);
    if let Err(e) = &got {
        if e.starts_with("PANIC-EQUIVALENT") {
            return violation("packets.inconsistent", format!("{} (cid len {}): {}", hex(b), short_dcid_len, e));
        }
    }
    let ctx = || format!("{} (cid len {})", hex(b), short_dcid_len);
    match (want, got) {
        (Verdict::Accept(w), Ok(g)) | (Verdict::Lenient(w, _), Ok(g)) => {
            ensure(g == w, "packets.value", || format!("{}: decoder {:?}, reference {:?}", ctx(), g, w))?;
            ensure(g.packet_len + g.remaining == b.len() && g.packet_len >= 1, "packets.split", || format!("{}: packet_len {} + remaining {} != {}", ctx(), g.packet_len, g.remaining, b.len()))?;
            Ok(g.kind as u64)
        }
        (Verdict::Accept(w), Err(e)) => violation("packets.rejects_valid", format!("{}: decoder error '{}', reference {:?}", ctx(), e, w)),
        (Verdict::Lenient(..), Err(_)) => Ok(20),
        (Verdict::Reject(_), Err(_)) => Ok(21),
        (Verdict::Reject(why), Ok(g)) => violation("packets.accepts_invalid", format!("{}: decoder {:?}, reference rejects: {}", ctx(), g, why)),
        (Verdict::Any(_, _), Err(_)) => Ok(22),
        (Verdict::Any(inv, _), Ok(g)) => {
            if let Some((v, d, s)) = inv {
                ensure(g.version == Some(v) && g.dcid == d && g.scid == Some(s), "packets.invariants", || format!("{}: decoder {:?} contradicts the RFC 8999 invariant fields", ctx(), g))?;
            }
            ensure(g.packet_len + g.remaining == b.len(), "packets.split", || format!("{}: split {}+{}", ctx(), g.packet_len, g.remaining))?;
            Ok(23)
        }
    }
}

// ------------------------------------------------------------------------------------------
// packets: grammar-generated datagrams
// ------------------------------------------------------------------------------------------

#[derive(Clone)]
struct GenPkt {
    desc: String,
    bytes: Vec<u8>,
    short_len: usize,
}

fn push_varint_w(out: &mut Vec<u8>, v: u64, width: usize) {
    // deliberate width (1, 2, 4, 8) - receivers must accept non-shortest Length / Token Length (§16)
    let mut bytes = v.to_be_bytes()[8 - width..].to_vec();
    bytes[0] |= (width.trailing_zeros() as u8) << 6;
    out.extend(bytes);
}

fn gen_packets() -> Vec<GenPkt> {
    let mut out = Vec::new();
    let cid_lens = [0usize, 1, 8, 20, 21];
    let versions = [1u32, 0xff00_001d, 0x6b33_43cf];
    // long headers with a Length field / Retry
    for &version in &versions {
        for ty in 0u8..4 {
            for &fixed in &[0x40u8, 0x00] {
                for &low in &[0x00u8, 0x0f] {
                    if fixed == 0 && low != 0 {
                        continue;
                    }
                    for &dl in &cid_lens {
                        for &sl in &cid_lens {
                            let token_lens: &[usize] = if ty == 0 || ty == 3 { &[0, 1, 40] } else { &[0] };
                            for &tl in token_lens {
                                // (declared length delta, trailing bytes, width of the Length varint)
                                let modes: &[(i64, usize, usize)] = if ty == 3 { &[(0, 0, 1)] } else { &[(0, 0, 1), (0, 5, 1), (1, 0, 1), (0, 0, 2), (0, 3, 8), (-6, 0, 1)] };
                                for &(delta, trailing, width) in modes {
                                    // thin the cross product for the unusual variants
                                    if (version != 1 || fixed == 0 || low != 0) && (width != 1 || trailing != 0 || delta != 0) {
                                        continue;
                                    }
                                    let mut b = vec![0x80 | fixed | (ty << 4) | low];
                                    b.extend(version.to_be_bytes());
                                    b.push(dl as u8);
                                    b.extend(data(dl, 31));
                                    b.push(sl as u8);
                                    b.extend(data(sl, 32));
                                    if ty == 3 {
                                        b.extend(data(tl, 33));
                                        b.extend(data(16, 34));
                                    } else {
                                        if ty == 0 {
                                            push_varint_w(&mut b, tl as u64, if width == 8 { 2 } else { 1 });
                                            b.extend(data(tl, 33));
                                        }
                                        let payload = 6usize;
                                        push_varint_w(&mut b, (payload as i64 + delta) as u64, width);
                                        b.extend(data(payload, 35));
                                        b.extend(data(trailing, 36));
                                    }
                                    out.push(GenPkt {
                                        desc: format!("long v={:#x} type={} fixed={} low={:#x} dcid={} scid={} token={} len_delta={} trailing={} len_width={}", version, ty, fixed != 0, low, dl, sl, tl, delta, trailing, width),
                                        bytes: b,
                                        short_len: 8,
                                    });
                                }
                            }
                        }
                    }
                }
            }
        }
    }
    // version negotiation
    for &first in &[0x80u8, 0xc0, 0xff, 0xa5] {
        for &dl in &cid_lens {
            for &sl in &cid_lens {
                for &vbytes in &[0usize, 3, 4, 8, 9] {
                    let mut b = vec![first, 0, 0, 0, 0, dl as u8];
                    b.extend(data(dl, 41));
                    b.push(sl as u8);
                    b.extend(data(sl, 42));
                    b.extend(data(vbytes, 43));
                    out.push(GenPkt { desc: format!("vn first={:#x} dcid={} scid={} versions_bytes={}", first, dl, sl, vbytes), bytes: b, short_len: 8 });
                }
            }
        }
    }
    // short headers
    for &first in &[0x40u8, 0x60, 0x7f, 0x5b, 0x00, 0x3f] {
        for &cl in &[0usize, 1, 8, 20, 21] {
            for extra in [-1i64, 0, 1, 20] {
                let n = cl as i64 + extra;
                if n < 0 {
                    continue;
                }
                let mut b = vec![first];
                b.extend(data(n as usize, 51));
                out.push(GenPkt { desc: format!("short first={:#x} cid={} bytes_after_first={}", first, cl, n), bytes: b, short_len: cl });
            }
        }
    }
    out
}

// ------------------------------------------------------------------------------------------
// packets: public encoders (Version Negotiation, Retry, stateless reset)
// ------------------------------------------------------------------------------------------

fn check_packet_encoder(i: u64) -> Result<u64, Violation> {
    let cid_lens = [0usize, 1, 8, 20];
    let (which, rest) = (i % 3, i / 3);
    let dl = cid_lens[(rest % 4) as usize];
    let sl = cid_lens[((rest / 4) % 4) as usize];
    let k = (rest / 16) as usize; // 0..6
    let dcid = data(dl, 61);
    let scid = data(sl, 62);
    match which {
        0 => {
            // Version Negotiation: RFC 8999 §6 layout, decodes back to the same fields
            let nver = [1usize, 2, 5, 1, 2, 5][k % 6];
            let tag = [0u8, 0x3f, 0x15, 0x40, 0x7f, 0x2a][k % 6];
            let versions = data(nver * 4, 63);
            let p = packet::version_negotiation::VersionNegotiation { tag, destination_connection_id: &dcid[..], source_connection_id: &scid[..], supported_versions: &versions[..] };
            let enc = enc_out("VersionNegotiation", &p)?;
            let mut want = vec![tag | 0xc0, 0, 0, 0, 0, dl as u8];
            want.extend(&dcid);
            want.push(sl as u8);
            want.extend(&scid);
            want.extend(&versions);
            ensure(enc.bytes == want, "packets.vn_layout", || format!("VN emitted {} expected {} (RFC 8999 §6)", hex(&enc.bytes), hex(&want)))?;
            let got = real_packet(&enc.bytes, 8).map_err(|e| Violation::new("packets.vn_roundtrip", format!("{}: {}", hex(&enc.bytes), e)))?;
            ensure(got.kind == PKind::VersionNegotiation && got.dcid == dcid && got.scid.as_deref() == Some(&scid[..]) && got.extra == versions && got.first == tag | 0xc0, "packets.vn_roundtrip", || {
                format!("{} decodes to {:?}", hex(&enc.bytes), got)
            })?;
            compare_packet(&enc.bytes, 8)
        }
        1 => {
            // Retry: §17.2.5 layout
            let tl = [1usize, 2, 40, 1, 2, 40][k % 6];
            let tag = [0xf0u8, 0xff, 0xf5, 0xf0, 0xff, 0xfa][k % 6];
            let version = [1u32, 1, 1, 0xff00_001d, 0x6b33_43cf, 1][k % 6];
            let token = data(tl, 64);
            let itag: [u8; 16] = data(16, 65).try_into().unwrap();
            let p = packet::retry::Retry { tag, version, destination_connection_id: &dcid[..], source_connection_id: &scid[..], retry_token: &token[..], retry_integrity_tag: &itag };
            let enc = enc_out("Retry", &p)?;
            let mut want = vec![tag];
            want.extend(version.to_be_bytes());
            want.push(dl as u8);
            want.extend(&dcid);
            want.push(sl as u8);
            want.extend(&scid);
            want.extend(&token);
            want.extend(itag);
            ensure(enc.bytes == want, "packets.retry_layout", || format!("Retry emitted {} expected {} (§17.2.5)", hex(&enc.bytes), hex(&want)))?;
            let got = real_packet(&enc.bytes, 8).map_err(|e| Violation::new("packets.retry_roundtrip", format!("{}: {}", hex(&enc.bytes), e)))?;
            ensure(
                got.kind == PKind::Retry && got.first == tag && got.version == Some(version) && got.dcid == dcid && got.scid.as_deref() == Some(&scid[..]) && got.token.as_deref() == Some(&token[..]) && got.extra == itag,
                "packets.retry_roundtrip",
                || format!("{} decodes to {:?}", hex(&enc.bytes), got),
            )?;
            compare_packet(&enc.bytes, 8)
        }
        _ => {
            // stateless reset, §10.3: Stateless Reset { Fixed Bits (2) = 1, Unpredictable Bits (38..),
            // Stateless Reset Token (128) }; §10.3.3: smaller than the packet that triggered it
            let max_tag_len = 16usize;
            let min_len = packet::stateless_reset::min_indistinguishable_packet_len(max_tag_len);
            let trig = [0usize, min_len - 1, min_len, min_len + 1, min_len + 2, 100, 1200, 1500, 43, 44, 45, 64, 21, 22, 1, 2][(rest % 16) as usize];
            let buflen = [1200usize, 64, 50, 42, 41, 1500][k % 6];
            let token: [u8; 16] = data(16, 66).try_into().unwrap();
            let mut gen = random::testing::Generator((dl * 7 + sl) as u8);
            let mut buf = vec![0u8; buflen];
            let r = packet::stateless_reset::encode_packet(stateless_reset::Token::from(token), max_tag_len, trig, &mut gen, &mut buf);
            match r {
                // refusing to send a reset is always permitted (§10.3: "an endpoint MAY send")
                None => Ok(30),
                Some(n) => {
                    ensure(n < trig && n <= buflen && n >= 21, "packets.reset_len", || format!("reset of {} bytes for trigger {} buffer {}", n, trig, buflen))?;
                    ensure(buf[0] & 0xc0 == 0x40, "packets.reset_fixed_bits", || format!("first byte {:#x}", buf[0]))?;
                    ensure(buf[n - 16..n] == token, "packets.reset_token", || format!("trailing bytes {} are not the token", hex(&buf[n - 16..n])))?;
                    // must look like (and decode as) a short header packet
                    let got = real_packet(&buf[..n], 20).map_err(|e| Violation::new("packets.reset_decode", e))?;
                    ensure(got.kind == PKind::Short, "packets.reset_decode", || format!("{:?}", got))?;
                    compare_packet(&buf[..n], 20)
                }
            }
        }
    }
}

fn packets_sections(tier: Tier) -> Vec<Section> {
    let mut s = Vec::new();
    // E1: all short strings, short-header connection ID length 0..=3
    let n1 = tier.pick(2, 3);
    let c1 = count_upto(256, n1);
    s.push(Section::new("e1", c1 * 4, 300.0, move |i| compare_packet(&nth_bytes(i % c1), (i / c1) as usize), move |i| input_json(&nth_bytes(i % c1)).set("cid_len", i / c1)));
    // E2: each of the 256 first bytes followed by every Σ_b string
    let n2 = tier.pick(5, 7);
    let nt = count_upto(9, n2);
    let mk = move |i: u64| {
        let mut b = vec![(i / nt) as u8];
        b.extend(nth_sigma(i % nt));
        b
    };
    s.push(Section::new("e2", 256 * nt, tier.pick(400.0, 1500.0), move |i| compare_packet(&mk(i), 2), move |i| input_json(&mk(i)).set("cid_len", 2)));
    if tier == Tier::Quick {
        // a long header needs 7 bytes before anything version specific: in the quick tier the
        // 6-symbol tails are run for 32 representative first bytes (every high nibble x low nibble 0 / f)
        let n6 = 9u64.pow(6);
        let mk = move |i: u64| {
            let f = i / n6;
            let mut b = vec![((f / 2) as u8) << 4 | if f % 2 == 1 { 0x0f } else { 0 }];
            b.extend(nth_string(n6_offset() + i % n6, 9, |d| SIGMA[d as usize]));
            b
        };
        s.push(Section::new("e2len6", 32 * n6, 400.0, move |i| compare_packet(&mk(i), 2), move |i| input_json(&mk(i)).set("cid_len", 2)));
    }
    // E2v1: first byte, version 1, then every Σ_b string (the v1 layout is the strict part)
    let n3 = tier.pick(5, 6);
    let nt = count_upto(9, n3);
    let mk = move |i: u64| {
        let mut b = vec![(i / nt) as u8, 0, 0, 0, 1];
        b.extend(nth_sigma(i % nt));
        b
    };
    s.push(Section::new("e2v1", 256 * nt, tier.pick(400.0, 900.0), move |i| compare_packet(&mk(i), 2), move |i| input_json(&mk(i)).set("cid_len", 2)));
    // E2vn: version 0 (Version Negotiation) for 16 first bytes with the long-header bit (every high
    // nibble, low nibble 0 or f alternating), then every Σ_b string (DCID len, SCID len, versions...)
    let nt = count_upto(9, tier.pick(6, 7));
    let mk = move |i: u64| {
        let f = (i / nt) as u8;
        let mut b = vec![0x80 | (f / 2) << 4 | if f % 2 == 1 { 0x0f } else { 0 }, 0, 0, 0, 0];
        b.extend(nth_sigma(i % nt));
        b
    };
    s.push(Section::new("e2vn", 16 * nt, 400.0, move |i| compare_packet(&mk(i), 2), move |i| input_json(&mk(i)).set("cid_len", 2)));
    // generated datagrams and all their single-byte substitutions
    let pk = std::sync::Arc::new(gen_packets());
    let (p1, p2) = (pk.clone(), pk.clone());
    s.push(Section::new(
        "gen",
        pk.len() as u64,
        60.0,
        move |i| compare_packet(&p1[i as usize].bytes, p1[i as usize].short_len),
        move |i| input_json(&p2[i as usize].bytes).set("cid_len", p2[i as usize].short_len).set("desc", p2[i as usize].desc.as_str()),
    ));
    let mut prefix = vec![0u64];
    for p in pk.iter() {
        prefix.push(prefix.last().unwrap() + p.bytes.len() as u64 * 256);
    }
    let total = *prefix.last().unwrap();
    let prefix = std::sync::Arc::new(prefix);
    let mutate = {
        let pk = pk.clone();
        move |i: u64| {
            let (k, off) = locate(&prefix, i);
            let mut b = pk[k].bytes.clone();
            b[(off / 256) as usize] = (off % 256) as u8;
            (k, b)
        }
    };
    let (m1, m2, p1, p2) = (mutate.clone(), mutate, pk.clone(), pk.clone());
    s.push(Section::new(
        "mut1",
        total,
        400.0,
        move |i| {
            let (k, b) = m1(i);
            compare_packet(&b, p1[k].short_len)
        },
        move |i| {
            let (k, b) = m2(i);
            input_json(&b).set("cid_len", p2[k].short_len).set("base", p2[k].desc.as_str())
        },
    ));
    let specs = std::sync::Arc::new(pkt_specs());
    let sp2 = specs.clone();
    s.push(Section::new("pktenc", specs.len() as u64, 60.0, move |i| check_packet_full_encoder(&specs[i as usize]), move |i| Json::obj().set("packet", format!("{:?}", sp2[i as usize]))));
    s.push(Section::new("enc", 3 * 16 * 6, 30.0, check_packet_encoder, |i| Json::obj().set("encoder", ["version_negotiation", "retry", "stateless_reset"][(i % 3) as usize]).set("param", i / 3)));
    s
}

// ------------------------------------------------------------------------------------------
// pnum: packet number length bits <-> 1..4 bytes (§17.1 / §17.2 "Packet Number Length")
// ------------------------------------------------------------------------------------------

fn check_pnum(tag: u8, space: PacketNumberSpace, b: &[u8]) -> Result<u64, Violation> {
    // §17.2: "Packet Number Length: ... the length of the Packet Number field as an unsigned two-bit
    // integer that is one less than the length of the Packet Number field in bytes"
    let want_len = (tag & 0x03) as usize + 1;
    let pnl = space.new_packet_number_len(tag);
    ensure(pnl.bytesize() == want_len && pnl.bitsize() == want_len * 8, "pnum.len", || format!("tag {:#x}: bytesize {} expected {}", tag, pnl.bytesize(), want_len))?;
    ensure(pnl.into_packet_tag_mask() == tag & 0x03, "pnum.mask", || format!("tag {:#x}: mask {:#x}", tag, pnl.into_packet_tag_mask()))?;
    ensure(pnl.space() == space, "pnum.space", || "space".to_string())?;
    match pnl.decode_truncated_packet_number(DecoderBuffer::new(b)) {
        Err(_) => {
            ensure(b.len() < want_len, "pnum.rejects_valid", || format!("tag {:#x}: {} rejected", tag, hex(b)))?;
            Ok(0)
        }
        Ok((t, rest)) => {
            ensure(b.len() >= want_len, "pnum.accepts_truncated", || format!("tag {:#x}: {} accepted", tag, hex(b)))?;
            ensure(rest.into_less_safe_slice() == &b[want_len..], "pnum.consumed", || format!("tag {:#x}: {} left {}", tag, hex(b), rest.len()))?;
            ensure(t.len() == pnl && t.space() == space, "pnum.len", || format!("decoded {:?} with {:?}", t, pnl))?;
            // the field is the value in network byte order: re-encoding gives the same bytes
            let enc = enc_out("TruncatedPacketNumber", &t)?;
            ensure(enc.bytes == b[..want_len], "pnum.roundtrip", || format!("tag {:#x}: {} re-encodes as {}", tag, hex(&b[..want_len]), hex(&enc.bytes)))?;
            // and its numeric value is what expansion relative to "nothing acknowledged yet" sees for
            // values below half the window (RFC 9000 A.3 with largest_pn = 0 ... expected 1)
            Ok(want_len as u64)
        }
    }
}

fn pnum_sections(tier: Tier) -> Vec<Section> {
    let spaces = [PacketNumberSpace::Initial, PacketNumberSpace::Handshake, PacketNumberSpace::ApplicationData];
    let nt = count_upto(9, tier.pick(5, 6));
    // all 256 tags x 3 spaces x a few buffers, then 4 tags x 3 spaces x all Σ_b strings
    let fixed: Vec<Vec<u8>> = (0..=6).map(|l| data(l, 71)).collect();
    let nf = fixed.len() as u64;
    let case = move |i: u64| -> (u8, PacketNumberSpace, Vec<u8>) {
        if i < 256 * 3 * nf {
            ((i % 256) as u8, spaces[((i / 256) % 3) as usize], fixed[(i / 768) as usize].clone())
        } else {
            let j = i - 256 * 3 * nf;
            // spread the two length bits over otherwise varying tag bits
            let tag = [0x00u8, 0xc1, 0x42, 0xff][(j % 4) as usize];
            (tag, spaces[((j / 4) % 3) as usize], nth_sigma(j / 12))
        }
    };
    let c2 = case.clone();
    let mut s = Vec::new();
    s.push(Section::new(
        "tagbits",
        256 * 3 * nf + 12 * nt,
        60.0,
        move |i| {
            let (t, sp, b) = case(i);
            check_pnum(t, sp, &b)
        },
        move |i| {
            let (t, sp, b) = c2(i);
            input_json(&b).set("tag", t).set("space", format!("{:?}", sp))
        },
    ));
    ensure_const();
    s
}

fn ensure_const() {
    // §17.1: packet numbers are encoded in 1 to 4 bytes
    assert_eq!(packet::number::PacketNumberLen::MAX_LEN, 4);
}

// ------------------------------------------------------------------------------------------
// tparams: totality + round trip + emitted layout (§18).  Acceptance rules are C14's business.
// ------------------------------------------------------------------------------------------

/// §18: Transport Parameter { Transport Parameter ID (i), Transport Parameter Length (i),
/// Transport Parameter Value (..) }.  Checks what an *encoder emitted*: well-formed sequence, no
/// duplicate IDs (§7.4), IDs / lengths in shortest form, and integer-valued parameters (§18.2
/// "integers use a variable-length integer encoding") as one shortest-form integer filling the value.
fn ref_tparams_emitted(b: &[u8]) -> Result<Vec<(u64, Vec<u8>)>, String> {
    let mut c = Cur::new(b);
    let mut out: Vec<(u64, Vec<u8>)> = Vec::new();
    while c.rem() > 0 {
        let id = c.varint().map_err(|_| "truncated id".to_string())?;
        let len = c.varint().map_err(|_| "truncated length".to_string())?;
        let v = c.take(len).map_err(|_| format!("parameter {:#x}: value truncated", id))?.to_vec();
        if out.iter().any(|(i, _)| *i == id) {
            return Err(format!("parameter {:#x} emitted twice (§7.4)", id));
        }
        // §18.2 integer-valued parameters
        if matches!(id, 0x01 | 0x03 | 0x04 | 0x05 | 0x06 | 0x07 | 0x08 | 0x09 | 0x0a | 0x0b | 0x0e | 0x20) {
            match ref_varint(&v) {
                Some((x, n)) if n == v.len() && n == ref_varint_size(x) => {}
                _ => return Err(format!("parameter {:#x}: value {} is not one shortest-form integer", id, hex(&v))),
            }
        }
        out.push((id, v));
    }
    if c.nonmin != 0 {
        return Err(format!("{} ids/lengths not in shortest form", c.nonmin));
    }
    Ok(out)
}

fn tp_roundtrip<T>(x: &T, what: &str) -> Result<Vec<u8>, Violation>
where
    T: EncoderValue + PartialEq + std::fmt::Debug + for<'a> s2n_codec::DecoderValue<'a>,
{
    let enc = enc_out(what, x)?;
    if let Err(e) = ref_tparams_emitted(&enc.bytes) {
        return violation("tparams.emitted_layout", format!("{:?} encoded as {}: {}", x, hex(&enc.bytes), e));
    }
    match DecoderBuffer::new(&enc.bytes).decode::<T>() {
        Err(e) => violation("tparams.roundtrip", format!("{:?} encoded as {} is rejected: {}", x, hex(&enc.bytes), e)),
        Ok((y, rest)) => {
            ensure(rest.is_empty(), "tparams.roundtrip", || format!("{} bytes left after decoding own output", rest.len()))?;
            ensure(&y == x, "tparams.roundtrip", || format!("{:?} encoded as {} decodes to {:?}", x, hex(&enc.bytes), y))?;
            Ok(enc.bytes)
        }
    }
}

/// decode arbitrary bytes as both parameter sets: no panic; whatever is accepted survives a round trip
fn check_tparams_bytes(b: &[u8]) -> Result<u64, Violation> {
    let mut class = 0u64;
    if let Ok((x, rest)) = DecoderBuffer::new(b).decode::<tp::ClientTransportParameters>() {
        ensure(rest.is_empty(), "tparams.remaining", || format!("{}: client decode left {} bytes", hex(b), rest.len()))?;
        tp_roundtrip(&x, "client")?;
        class |= 1;
    }
    if let Ok((x, rest)) = DecoderBuffer::new(b).decode::<tp::ServerTransportParameters>() {
        ensure(rest.is_empty(), "tparams.remaining", || format!("{}: server decode left {} bytes", hex(b), rest.len()))?;
        tp_roundtrip(&x, "server")?;
        class |= 2;
    }
    // the mutable-buffer entry point must agree on accept / reject
    let mut copy = b.to_vec();
    let m = DecoderBufferMut::new(&mut copy).decode::<tp::ClientTransportParameters>().is_ok();
    ensure(m == (class & 1 == 1), "tparams.mut_differs", || format!("{}: DecoderBufferMut accept={} DecoderBuffer accept={}", hex(b), m, class & 1 == 1))?;
    Ok(class)
}

const TP_PARAMS: usize = 20;

/// number of boundary values of parameter p (index 0 = leave at default)
fn tp_values(p: usize) -> usize {
    [8, 6, 8, 8, 8, 8, 6, 6, 4, 5, 7, 2, 5, 4, 4, 2, /* server only */ 3, 2, 4, 3][p]
}

fn tp_fill<A, B, C, D>(
    t: &mut tp::TransportParameters<A, B, C, D>,
    sel: &dyn Fn(usize) -> Option<usize>,
) {
    macro_rules! pick {
        ($p:expr, $field:ident, $ty:ident, $vals:expr) => {
            if let Some(k) = sel($p) {
                let vals = $vals;
                if let Some(v) = tp::$ty::new(vals[k % vals.len()]) {
                    t.$field = v;
                }
            }
        };
    }
    pick!(0, max_idle_timeout, MaxIdleTimeout, [0u64, 1, 63, 64, 16_383, 16_384, 1 << 30, VMAX]);
    pick!(1, max_udp_payload_size, MaxUdpPayloadSize, [1200u64, 1201, 16_383, 16_384, 65_526, 65_527]);
    pick!(2, initial_max_data, InitialMaxData, V8);
    pick!(3, initial_max_stream_data_bidi_local, InitialMaxStreamDataBidiLocal, V8);
    pick!(4, initial_max_stream_data_bidi_remote, InitialMaxStreamDataBidiRemote, V8);
    pick!(5, initial_max_stream_data_uni, InitialMaxStreamDataUni, V8);
    pick!(6, initial_max_streams_bidi, InitialMaxStreamsBidi, [0u64, 63, 64, 16_384, 1 << 30, 1 << 60]);
    pick!(7, initial_max_streams_uni, InitialMaxStreamsUni, [0u64, 63, 64, 16_384, 1 << 30, 1 << 60]);
    pick!(8, max_datagram_frame_size, MaxDatagramFrameSize, [0u64, 1, 65_535, VMAX]);
    pick!(9, ack_delay_exponent, AckDelayExponent, [0u8, 1, 3, 19, 20]);
    pick!(10, max_ack_delay, MaxAckDelay, [0u64, 1, 25, 63, 64, 16_383, 16_384]);
    if let Some(k) = sel(11) {
        t.migration_support = [tp::MigrationSupport::Enabled, tp::MigrationSupport::Disabled][k % 2];
    }
    pick!(12, active_connection_id_limit, ActiveConnectionIdLimit, [2u64, 3, 63, 64, VMAX]);
    if let Some(k) = sel(13) {
        t.initial_source_connection_id = match k % 4 {
            0 => None,
            1 => tp::InitialSourceConnectionId::try_from(&[][..]).ok(),
            2 => tp::InitialSourceConnectionId::try_from(&data(1, 81)[..]).ok(),
            _ => tp::InitialSourceConnectionId::try_from(&data(20, 81)[..]).ok(),
        };
    }
    if let Some(k) = sel(14) {
        t.dc_supported_versions = match k % 4 {
            0 => tp::DcSupportedVersions::default(),
            1 => tp::DcSupportedVersions::for_client([1u32]),
            2 => tp::DcSupportedVersions::for_client([1u32, 2, 3, 4]),
            _ => tp::DcSupportedVersions::for_client([u32::MAX, 64, 16_384]),
        };
    }
    if let Some(k) = sel(15) {
        t.mtu_probing_complete_support = [tp::MtuProbingCompleteSupport::Disabled, tp::MtuProbingCompleteSupport::Enabled][k % 2];
    }
}

fn tp_client(sel: &dyn Fn(usize) -> Option<usize>) -> tp::ClientTransportParameters {
    let mut t = tp::ClientTransportParameters::default();
    tp_fill(&mut t, sel);
    t
}

fn tp_server(sel: &dyn Fn(usize) -> Option<usize>) -> tp::ServerTransportParameters {
    let mut t = tp::ServerTransportParameters::default();
    tp_fill(&mut t, sel);
    if let Some(k) = sel(16) {
        t.original_destination_connection_id = match k % 3 {
            0 => None,
            1 => tp::OriginalDestinationConnectionId::try_from(&data(8, 82)[..]).ok(),
            _ => tp::OriginalDestinationConnectionId::try_from(&data(20, 82)[..]).ok(),
        };
    }
    if let Some(k) = sel(17) {
        t.stateless_reset_token = [None, Some(stateless_reset::Token::from(<[u8; 16]>::try_from(data(16, 83)).unwrap()))][k % 2];
    }
    if let Some(k) = sel(18) {
        let v4: inet::SocketAddressV4 = (std::net::Ipv4Addr::new(192, 0, 2, 1), 443u16).into();
        let v6: inet::SocketAddressV6 = (std::net::Ipv6Addr::new(0x2001, 0xdb8, 0, 0, 0, 0, 0, 1), 4433u16).into();
        let mk = |a: Option<inet::SocketAddressV4>, b: Option<inet::SocketAddressV6>, l: usize| {
            Some(tp::PreferredAddress {
                ipv4_address: a,
                ipv6_address: b,
                connection_id: connection::UnboundedId::try_from_bytes(&data(l, 84)).unwrap(),
                stateless_reset_token: stateless_reset::Token::from(<[u8; 16]>::try_from(data(16, 85)).unwrap()),
            })
        };
        t.preferred_address = match k % 4 {
            0 => None,
            1 => mk(Some(v4), None, 1),
            2 => mk(None, Some(v6), 20),
            _ => mk(Some(v4), Some(v6), 8),
        };
    }
    if let Some(k) = sel(19) {
        t.retry_source_connection_id = match k % 3 {
            0 => None,
            1 => tp::RetrySourceConnectionId::try_from(&data(4, 86)[..]).ok(),
            _ => tp::RetrySourceConnectionId::try_from(&data(20, 86)[..]).ok(),
        };
    }
    t
}

/// grid case -> selection function: first the one-parameter-at-a-time cases, then "every parameter
/// at its k-th boundary value" for k in 0..60, then all ordered pairs at (k, k+1)
fn tp_selection(i: u64) -> Box<dyn Fn(usize) -> Option<usize>> {
    let mut one: Vec<(usize, usize)> = Vec::new();
    for p in 0..TP_PARAMS {
        for k in 0..tp_values(p) {
            one.push((p, k));
        }
    }
    let n1 = one.len() as u64;
    if i < n1 {
        let (p, k) = one[i as usize];
        Box::new(move |q| if q == p { Some(k) } else { None })
    } else if i < n1 + 60 {
        let k = (i - n1) as usize;
        Box::new(move |_| Some(k))
    } else {
        let j = (i - n1 - 60) as usize;
        let (p, q, k) = (j % TP_PARAMS, (j / TP_PARAMS) % TP_PARAMS, j / (TP_PARAMS * TP_PARAMS));
        Box::new(move |r| if r == p { Some(k) } else if r == q { Some(k + 1) } else { None })
    }
}

fn tp_grid_size() -> u64 {
    let n1: usize = (0..TP_PARAMS).map(tp_values).sum();
    (n1 + 60 + TP_PARAMS * TP_PARAMS * 8) as u64
}

fn check_tparams_grid(i: u64) -> Result<u64, Violation> {
    let sel = tp_selection(i / 2);
    if i % 2 == 0 {
        let x = tp_client(&*sel);
        tp_roundtrip(&x, "client").map(|b| 1 + (b.len() as u64).min(40))
    } else {
        let x = tp_server(&*sel);
        tp_roundtrip(&x, "server").map(|b| 100 + (b.len() as u64).min(40))
    }
}

fn tparams_sections(tier: Tier) -> Vec<Section> {
    let mut s = Vec::new();
    s.push(Section::new("e1", count_upto(256, 3), 300.0, |i| check_tparams_bytes(&nth_bytes(i)), |i| input_json(&nth_bytes(i))));
    // a known parameter id / an unknown one, then every Σ_b string
    let heads: Vec<Vec<u8>> = (0u8..=0x11).map(|x| vec![x]).chain([vec![0x20], vec![0x3f], vec![0x80, 0xdc, 0, 0], vec![0x80, 0xdc, 0, 2], vec![]]).collect();
    let nh = heads.len() as u64;
    let nt = count_upto(9, tier.pick(6, 7));
    let mk = move |i: u64| {
        let mut b = heads[(i / nt) as usize].clone();
        b.extend(nth_sigma(i % nt));
        b
    };
    let mk2 = mk.clone();
    s.push(Section::new("e2", nh * nt, 300.0, move |i| check_tparams_bytes(&mk(i)), move |i| input_json(&mk2(i))));
    s.push(Section::new("grid", tp_grid_size() * 2, 120.0, check_tparams_grid, |i| {
        let sel = tp_selection(i / 2);
        let picks: Vec<String> = (0..TP_PARAMS).filter_map(|p| sel(p).map(|k| format!("{}:{}", p, k))).collect();
        Json::obj().set("side", if i % 2 == 0 { "client" } else { "server" }).set("picks", picks.join(","))
    }));
    let cases = std::sync::Arc::new(int_width_cases());
    let c2 = cases.clone();
    s.push(Section::new(
        "intwidth",
        cases.len() as u64,
        30.0,
        move |i| {
            let (k, v, w) = cases[i as usize];
            check_int_width(k, v, w)
        },
        move |i| {
            let (k, v, w) = c2[i as usize];
            input_json(&int_width_block(int_params()[k].id, v, w)).set("parameter", int_params()[k].name).set("value", v).set("width", w)
        },
    ));
    // single-byte substitutions of four valid blocks
    let blocks: Vec<Vec<u8>> = (0..4usize)
        .filter_map(|k| {
            guarded("setup", || {
                let sel = move |_p: usize| Some(k + 1);
                if k % 2 == 0 {
                    enc_out("client", &tp_client(&sel)).map(|e| e.bytes)
                } else {
                    enc_out("server", &tp_server(&sel)).map(|e| e.bytes)
                }
            })
            .ok()
        })
        .collect();
    let mut prefix = vec![0u64];
    for b in &blocks {
        prefix.push(prefix.last().unwrap() + b.len() as u64 * 256);
    }
    let total = *prefix.last().unwrap();
    let mutate = move |i: u64| {
        let (k, off) = locate(&prefix, i);
        let mut b = blocks[k].clone();
        b[(off / 256) as usize] = (off % 256) as u8;
        b
    };
    let m2 = mutate.clone();
    s.push(Section::new("mut1", total, 120.0, move |i| check_tparams_bytes(&mutate(i)), move |i| input_json(&m2(i))));
    s
}

// ------------------------------------------------------------------------------------------
// codec: s2n-codec decoder / encoder primitives against slice arithmetic
// ------------------------------------------------------------------------------------------

fn be(b: &[u8]) -> u128 {
    b.iter().fold(0u128, |a, &x| (a << 8) | x as u128)
}

macro_rules! dec_int {
    ($buf:expr, $b:expr, $ty:ty, $size:expr, $conv:expr) => {{
        let r = $buf.decode::<$ty>();
        match r {
            Ok((v, rest)) => {
                ensure($b.len() >= $size, "codec.accepts_short", || format!("{}: decode::<{}> succeeded on {} bytes", hex($b), stringify!($ty), $b.len()))?;
                let got: u128 = $conv(v);
                ensure(got == be(&$b[..$size]), "codec.int_value", || format!("{}: decode::<{}> = {:#x}", hex($b), stringify!($ty), got))?;
                ensure(rest.len() == $b.len() - $size, "codec.remaining", || format!("{}: decode::<{}> left {}", hex($b), stringify!($ty), rest.len()))?;
            }
            Err(_) => ensure($b.len() < $size, "codec.rejects_valid", || format!("{}: decode::<{}> failed with {} bytes available", hex($b), stringify!($ty), $b.len()))?,
        }
    }};
}

fn check_codec(b: &[u8], n: usize) -> Result<u64, Violation> {
    let len = b.len();
    let buf = DecoderBuffer::new(b);
    ensure(buf.len() == len && buf.is_empty() == (len == 0), "codec.len", || format!("{}: len() = {}", hex(b), buf.len()))?;
    ensure(buf.ensure_empty().is_ok() == (len == 0), "codec.ensure_empty", || hex(b))?;
    // error exactly when fewer bytes remain than requested; remaining length arithmetic exact
    let fits = n <= len;
    ensure(buf.ensure_len(n).is_ok() == fits, "codec.ensure_len", || format!("{}: ensure_len({})", hex(b), n))?;
    match buf.decode_slice(n) {
        Ok((s, rest)) => {
            ensure(fits, "codec.accepts_short", || format!("{}: decode_slice({}) succeeded", hex(b), n))?;
            ensure(s.into_less_safe_slice() == &b[..n] && rest.into_less_safe_slice() == &b[n..], "codec.slice", || format!("{}: decode_slice({}) split wrong", hex(b), n))?;
        }
        Err(_) => ensure(!fits, "codec.rejects_valid", || format!("{}: decode_slice({}) failed", hex(b), n))?,
    }
    match buf.skip(n) {
        Ok(rest) => ensure(fits && rest.into_less_safe_slice() == &b[n..], "codec.skip", || format!("{}: skip({})", hex(b), n))?,
        Err(_) => ensure(!fits, "codec.rejects_valid", || format!("{}: skip({}) failed", hex(b), n))?,
    }
    match buf.peek_byte(n) {
        Ok(v) => ensure(n < len && v == b[n], "codec.peek_byte", || format!("{}: peek_byte({}) = {}", hex(b), n, v))?,
        Err(_) => ensure(n >= len, "codec.rejects_valid", || format!("{}: peek_byte({}) failed", hex(b), n))?,
    }
    for start in 0..=n {
        match buf.peek_range(start..n) {
            Ok(s) => ensure(fits && s.into_less_safe_slice() == &b[start..n], "codec.peek_range", || format!("{}: peek_range({}..{})", hex(b), start, n))?,
            Err(_) => ensure(!fits, "codec.rejects_valid", || format!("{}: peek_range({}..{}) failed", hex(b), start, n))?,
        }
    }
    ensure(buf.peek().into_less_safe_slice() == b, "codec.peek", || hex(b))?;
    // fixed-width big-endian integers
    dec_int!(buf, b, u8, 1, |v: u8| v as u128);
    dec_int!(buf, b, u16, 2, |v: u16| v as u128);
    dec_int!(buf, b, u24, 3, |v: u24| u32::from(v) as u128);
    dec_int!(buf, b, u32, 4, |v: u32| v as u128);
    dec_int!(buf, b, u48, 6, |v: u48| u64::from(v) as u128);
    dec_int!(buf, b, u64, 8, |v: u64| v as u128);
    dec_int!(buf, b, u128, 16, |v: u128| v);
    dec_int!(buf, b, i8, 1, |v: i8| v as u8 as u128);
    dec_int!(buf, b, i16, 2, |v: i16| v as u16 as u128);
    dec_int!(buf, b, i32, 4, |v: i32| v as u32 as u128);
    // length-prefixed slices: prefix types u8, u16 and the QUIC varint
    let expect_prefixed = |plen: Option<(u64, usize)>| -> Option<(usize, usize)> {
        let (l, hdr) = plen?;
        if l <= (len - hdr) as u64 {
            Some((hdr, l as usize))
        } else {
            None
        }
    };
    let p8 = expect_prefixed(b.first().map(|&x| (x as u64, 1)));
    let p16 = expect_prefixed(if len >= 2 { Some((be(&b[..2]) as u64, 2)) } else { None });
    let pv = expect_prefixed(ref_varint(b).map(|(v, n)| (v, n)));
    macro_rules! prefixed {
        ($ty:ty, $want:expr, $name:expr) => {{
            match buf.decode_slice_with_len_prefix::<$ty>() {
                Ok((s, rest)) => {
                    let ok = matches!($want, Some((h, l)) if s.into_less_safe_slice() == &b[h..h + l] && rest.into_less_safe_slice() == &b[h + l..]);
                    ensure(ok, "codec.len_prefix", || format!("{}: decode_slice_with_len_prefix::<{}> wrong split", hex(b), $name))?;
                }
                Err(_) => ensure($want.is_none(), "codec.rejects_valid", || format!("{}: decode_slice_with_len_prefix::<{}> failed", hex(b), $name))?,
            }
            match buf.skip_with_len_prefix::<$ty>() {
                Ok(rest) => ensure(matches!($want, Some((h, l)) if rest.into_less_safe_slice() == &b[h + l..]), "codec.len_prefix", || format!("{}: skip_with_len_prefix::<{}>", hex(b), $name))?,
                Err(_) => ensure($want.is_none(), "codec.rejects_valid", || format!("{}: skip_with_len_prefix::<{}> failed", hex(b), $name))?,
            }
        }};
    }
    prefixed!(u8, p8, "u8");
    prefixed!(u16, p16, "u16");
    prefixed!(VarInt, pv, "VarInt");
    // decode_with_len_prefix::<u8, u16>: the value must fill the sub-slice exactly
    match buf.decode_with_len_prefix::<u8, u16>() {
        Ok((v, rest)) => ensure(matches!(p8, Some((1, 2))) && v as u128 == be(&b[1..3]) && rest.len() == len - 3, "codec.len_prefix_value", || format!("{}: decode_with_len_prefix::<u8,u16> = {}", hex(b), v))?,
        Err(_) => ensure(!matches!(p8, Some((1, 2))), "codec.rejects_valid", || format!("{}: decode_with_len_prefix::<u8,u16> failed", hex(b)))?,
    }
    // decode_exact
    ensure(buf.decode_exact::<u16>().is_ok() == (len == 2), "codec.decode_exact", || hex(b))?;
    // checked ranges
    {
        let mut copy = b.to_vec();
        let orig = DecoderBufferMut::new(&mut copy);
        let peek = orig.peek();
        // skip one byte first when possible so that the range does not start at 0
        let (peek, base) = match peek.skip(1) {
            Ok(p) if n % 2 == 1 => (p, 1usize),
            _ => (orig.peek(), 0usize),
        };
        match peek.skip_into_range(n, &orig) {
            Ok((range, rest)) => {
                ensure(base + n <= len, "codec.accepts_short", || format!("{}: skip_into_range({}) succeeded", hex(b), n))?;
                ensure(range.len() == n && range.is_empty() == (n == 0) && rest.len() == len - base - n, "codec.range", || format!("{}: range {:?}", hex(b), range))?;
                ensure(orig.get_checked_range(&range).into_less_safe_slice() == &b[base..base + n], "codec.range", || format!("{}: range {:?} content", hex(b), range))?;
                ensure(range.get(b) == &b[base..base + n], "codec.range", || format!("{}: CheckedRange::get", hex(b)))?;
            }
            Err(_) => ensure(base + n > len, "codec.rejects_valid", || format!("{}: skip_into_range({}) failed", hex(b), n))?,
        }
        match orig.peek().skip_into_range_with_len_prefix::<u8>(&orig) {
            Ok((range, rest)) => ensure(matches!(p8, Some((1, l)) if range.len() == l && rest.len() == len - 1 - l && orig.get_checked_range(&range).into_less_safe_slice() == &b[1..1 + l]), "codec.range", || format!("{}: prefixed range {:?}", hex(b), range))?,
            Err(_) => ensure(p8.is_none(), "codec.rejects_valid", || format!("{}: skip_into_range_with_len_prefix failed", hex(b)))?,
        }
        // the mutable buffer offers the same operations
        match orig.decode_slice(n) {
            Ok((s, rest)) => ensure(fits && s.into_less_safe_slice() == &b[..n] && rest.freeze().into_less_safe_slice() == &b[n..], "codec.mut_slice", || format!("{}: DecoderBufferMut::decode_slice({})", hex(b), n))?,
            Err(_) => ensure(!fits, "codec.rejects_valid", || format!("{}: DecoderBufferMut::decode_slice({}) failed", hex(b), n))?,
        }
    }
    // encoder side: n bytes of b written with each primitive into an exactly sized / larger buffer
    if fits {
        for slack in [0usize, 3] {
            let mut out = vec![0xEEu8; n + 1 + slack];
            let mut e = EncoderBuffer::new(&mut out);
            ensure(e.capacity() == n + 1 + slack && e.remaining_capacity() == n + 1 + slack && e.is_empty(), "codec.enc_capacity", || "fresh encoder".to_string())?;
            e.write_slice(&b[..n]);
            ensure(e.len() == n && e.remaining_capacity() == 1 + slack, "codec.enc_len", || format!("write_slice({}) -> len {}", n, e.len()))?;
            e.write_repeated(1, 0x5a);
            ensure(e.len() == n + 1, "codec.enc_len", || "write_repeated".to_string())?;
            let (used, free) = e.split_off();
            ensure(used[..n] == b[..n] && used[n] == 0x5a && free.len() == slack && free.iter().all(|&x| x == 0xEE), "codec.enc_bytes", || format!("wrote {} expected {}5a", hex(used), hex(&b[..n])))?;
        }
        // length-prefixed encode: announced == estimator == written, and it decodes back
        let s: &[u8] = &b[..n];
        let mut est = EncoderLenEstimator::new(usize::MAX);
        est.encode_with_len_prefix::<VarInt, _>(&s);
        let want = ref_varint_size(n as u64) + n;
        ensure(est.len() == want && !est.overflowed(), "codec.enc_len_prefix", || format!("estimator {} expected {}", est.len(), want))?;
        let mut out = vec![0u8; want];
        let mut e = EncoderBuffer::new(&mut out);
        e.encode_with_len_prefix::<VarInt, _>(&s);
        ensure(e.len() == want, "codec.enc_len_prefix", || format!("wrote {} expected {}", e.len(), want))?;
        let mut expect = ref_varint_encode(n as u64);
        expect.extend_from_slice(s);
        ensure(out == expect, "codec.enc_len_prefix", || format!("wrote {} expected {}", hex(&out), hex(&expect)))?;
        // integers
        if n == 3 {
            let v = u24::new_truncated(be(s) as u32);
            ensure(enc_out("u24", &v)?.bytes == s && v.to_be_bytes() == s, "codec.enc_int", || format!("u24 {}", hex(s)))?;
        }
        if n == 6 {
            let v = u48::new_truncated(be(s) as u64);
            ensure(enc_out("u48", &v)?.bytes == s, "codec.enc_int", || format!("u48 {}", hex(s)))?;
        }
        if n == 2 {
            ensure(enc_out("u16", &(be(s) as u16))?.bytes == s, "codec.enc_int", || format!("u16 {}", hex(s)))?;
        }
        if n == 4 {
            ensure(enc_out("u32", &(be(s) as u32))?.bytes == s, "codec.enc_int", || format!("u32 {}", hex(s)))?;
        }
        if n == 8 {
            ensure(enc_out("u64", &(be(s) as u64))?.bytes == s, "codec.enc_int", || format!("u64 {}", hex(s)))?;
        }
    }
    Ok(((fits as u64) << 4) | (p8.is_some() as u64) << 1 | pv.is_some() as u64)
}

fn codec_sections(tier: Tier) -> Vec<Section> {
    // buffers: every string of length <= 2, every Σ_b string of length <= 6 (quick 5), a 9-byte and
    // a 17-byte pattern; requested length 0..=8
    let n2 = count_upto(256, 2);
    let ns = count_upto(9, tier.pick(5, 6));
    let nb = n2 + ns + 2;
    let buf = move |i: u64| -> Vec<u8> {
        if i < n2 {
            nth_bytes(i)
        } else if i < n2 + ns {
            nth_sigma(i - n2)
        } else if i == n2 + ns {
            data(9, 91)
        } else {
            data(17, 92)
        }
    };
    vec![Section::new(
        "primitives",
        nb * 9,
        120.0,
        move |i| check_codec(&buf(i / 9), (i % 9) as usize),
        move |i| input_json(&buf(i / 9)).set("n", i % 9),
    )]
}

// ------------------------------------------------------------------------------------------
// packets: the full packet encoders (PacketEncoder::encode_packet) with the crate's null test keys
// (tag length 0, all-zero header protection mask), so that the emitted bytes are the clear header
// layout of §17.2 / §17.3 and can be parsed by the reference
// ------------------------------------------------------------------------------------------

#[derive(Clone, Debug)]
struct PktSpec {
    kind: PKind,
    dl: usize,
    sl: usize,
    tl: usize,
    /// (packet number, largest acknowledged)
    pn: (u64, u64),
    payload: usize,
    capacity: usize,
}

fn pkt_specs() -> Vec<PktSpec> {
    let mut out = Vec::new();
    for kind in [PKind::Initial, PKind::ZeroRtt, PKind::Handshake, PKind::Short] {
        for dl in [0usize, 8, 20] {
            for sl in [0usize, 8, 20] {
                if kind == PKind::Short && sl != 0 {
                    continue;
                }
                let tls: &[usize] = if kind == PKind::Initial { &[0, 1, 40] } else { &[0] };
                for &tl in tls {
                    // gaps that need 1, 2, 3 and 4 packet number bytes
                    for pn in [(0u64, 0u64), (1, 0), (0x1234, 0x1200), (0x20_0000, 0x1f_ff00), (0x1234_5678, 0x1200_0000), (VMAX, VMAX - 5), (0xabcd_ef01_23, 0xabcd_0000_00)] {
                        for payload in [30usize, 62, 63, 64, 300] {
                            for capacity in [1200usize, 70_000, 0] {
                                // capacity 0 = exactly what the packet needs (computed in the check)
                                out.push(PktSpec { kind, dl, sl, tl, pn, payload, capacity });
                            }
                        }
                    }
                }
            }
        }
    }
    out
}

fn check_packet_full_encoder(sp: &PktSpec) -> Result<u64, Violation> {
    use packet::encoding::PacketEncoder;
    use s2n_quic_core::crypto::testing::{HeaderKey, Key};
    let version = 1u32;
    let dcid = data(sp.dl, 101);
    let scid = data(sp.sl, 102);
    let token = data(sp.tl, 103);
    let payload = data(sp.payload, 104);
    let space = match sp.kind {
        PKind::Initial => PacketNumberSpace::Initial,
        PKind::Handshake => PacketNumberSpace::Handshake,
        _ => PacketNumberSpace::ApplicationData,
    };
    let pn = space.new_packet_number(vi(sp.pn.0));
    let largest = space.new_packet_number(vi(sp.pn.1));
    // an upper bound of the size: first byte, version, 2 length bytes + IDs, token length + token,
    // Length (<= 8), packet number (<= 4), payload
    let bound = 1 + 4 + 2 + sp.dl + sp.sl + 8 + sp.tl + 8 + 4 + sp.payload;
    let cap = if sp.capacity == 0 { bound } else { sp.capacity };
    let mut buf = vec![0u8; cap];
    let (mut key, hkey) = (Key::default(), HeaderKey::default());
    let eb = EncoderBuffer::new(&mut buf);
    let r = match sp.kind {
        PKind::Initial => packet::initial::Initial { version, destination_connection_id: &dcid[..], source_connection_id: &scid[..], token: &token[..], packet_number: pn, payload: &payload[..] }
            .encode_packet(&mut key, &hkey, largest, None, eb)
            .map(|(p, _)| p.len()),
        PKind::ZeroRtt => packet::zero_rtt::ZeroRtt { version, destination_connection_id: &dcid[..], source_connection_id: &scid[..], packet_number: pn, payload: &payload[..] }
            .encode_packet(&mut key, &hkey, largest, None, eb)
            .map(|(p, _)| p.len()),
        PKind::Handshake => packet::handshake::Handshake { version, destination_connection_id: &dcid[..], source_connection_id: &scid[..], packet_number: pn, payload: &payload[..] }
            .encode_packet(&mut key, &hkey, largest, None, eb)
            .map(|(p, _)| p.len()),
        _ => packet::short::Short { spin_bit: packet::short::SpinBit::One, key_phase: packet::KeyPhase::One, destination_connection_id: &dcid[..], packet_number: pn, payload: &payload[..] }
            .encode_packet(&mut key, &hkey, largest, None, eb)
            .map(|(p, _)| p.len()),
    };
    let n = match r {
        Ok(n) => n,
        Err(e) => {
            let name = format!("{:?}", e);
            return violation("pktenc.refused", format!("{:?}: encode_packet failed: {}", sp, name.split('(').next().unwrap_or("")));
        }
    };
    let bytes = &buf[..n];
    // decodes back to the same header fields, and the reference (v1 layout) agrees
    let class = compare_packet(bytes, sp.dl)?;
    let got = real_packet(bytes, sp.dl).map_err(|e| Violation::new("pktenc.roundtrip", format!("{:?}: {} rejected: {}", sp, hex(bytes), e)))?;
    let fields_ok = got.kind == sp.kind
        && got.dcid == dcid
        && got.remaining == 0
        && got.packet_len == n
        && (sp.kind == PKind::Short || (got.version == Some(version) && got.scid.as_deref() == Some(&scid[..])))
        && (sp.kind != PKind::Initial || got.token.as_deref() == Some(&token[..]));
    ensure(fields_ok, "pktenc.roundtrip", || format!("{:?}: {} decodes to {:?}", sp, hex(&bytes[..bytes.len().min(80)]), got))?;
    // clear layout: §17.2 Long Header Packet { Header Form (1) = 1, Fixed Bit (1) = 1, Long Packet Type (2),
    //   Reserved Bits (2), Packet Number Length (2), Version (32), DCID Len (8), DCID, SCID Len (8), SCID, ... }
    //   §17.3.1 1-RTT { Header Form (1) = 0, Fixed Bit (1) = 1, Spin Bit (1), Reserved (2), Key Phase (1), PN Length (2), DCID, PN, Payload }
    let first = bytes[0];
    let pn_len = (first & 0x03) as usize + 1;
    let mut c = Cur::new(bytes);
    c.pos = 1;
    let mut length_field: Option<(u64, usize)> = None;
    if sp.kind == PKind::Short {
        ensure(first & 0xc0 == 0x40 && first & 0x20 != 0 && first & 0x18 == 0 && first & 0x04 != 0, "pktenc.first_byte", || format!("{:?}: short first byte {:#x}", sp, first))?;
        c.pos += sp.dl;
    } else {
        let ty = match sp.kind {
            PKind::Initial => 0u8,
            PKind::ZeroRtt => 1,
            _ => 2,
        };
        ensure(first & 0xc0 == 0xc0 && (first >> 4) & 3 == ty && first & 0x0c == 0, "pktenc.first_byte", || format!("{:?}: long first byte {:#x}", sp, first))?;
        c.pos += 4 + 1 + sp.dl + 1 + sp.sl;
        if sp.kind == PKind::Initial {
            let before = c.nonmin;
            let tl = c.varint().map_err(|_| Violation::new("pktenc.layout", "token length"))?;
            ensure(tl == sp.tl as u64 && c.nonmin == before, "pktenc.token_length", || format!("{:?}: token length field {} (shortest form: {})", sp, tl, c.nonmin == before))?;
            c.pos += sp.tl;
        }
        let at = c.pos;
        let l = c.varint().map_err(|_| Violation::new("pktenc.layout", "Length"))?;
        length_field = Some((l, c.pos - at));
        // §17.2: Length = length of Packet Number + Payload (null key: no tag)
        ensure(l as usize == pn_len + sp.payload && c.pos + l as usize == n, "pktenc.length_value", || format!("{:?}: Length {} but pn {} + payload {}", sp, l, pn_len, sp.payload))?;
    }
    ensure(got.header_len == Some(c.pos), "pktenc.header_len", || format!("{:?}: header_len {:?}, layout says {}", sp, got.header_len, c.pos))?;
    // §17.1: the packet number field holds the least significant bytes of the packet number
    let want_pn = &sp.pn.0.to_be_bytes()[8 - pn_len..];
    ensure(&bytes[c.pos..c.pos + pn_len] == want_pn, "pktenc.packet_number", || format!("{:?}: pn bytes {} expected {}", sp, hex(&bytes[c.pos..c.pos + pn_len]), hex(want_pn)))?;
    ensure(bytes[c.pos + pn_len..] == payload[..], "pktenc.payload", || format!("{:?}: payload differs", sp))?;
    // "integers are emitted in their shortest form": the Length field
    if let Some((l, width)) = length_field {
        if width != ref_varint_size(l) {
            let mut v = Violation::new(
                "pktenc.length_not_shortest",
                format!("{:?}: Length {} emitted in {} bytes (shortest form is {}); first such case, bytes {}", sp, l, width, ref_varint_size(l), hex(&bytes[..c.pos])),
            );
            // one finding, not one per grid point
            v.fingerprint = "seqmc|c05.packets|pktenc.length_not_shortest".to_string();
            return Err(v);
        }
    }
    Ok(class << 4 | pn_len as u64)
}

// ------------------------------------------------------------------------------------------
// tparams: §18.2 "integers use a variable-length integer encoding" - a sender may use any of the
// §16 widths that hold the value, so the decoder has to accept all of them with the same value
// ------------------------------------------------------------------------------------------

struct IntParam {
    id: u8,
    name: &'static str,
    /// values that are valid for this parameter per §18.2
    values: &'static [u64],
    get: fn(&tp::ClientTransportParameters) -> u64,
}

fn int_params() -> Vec<IntParam> {
    vec![
        IntParam { id: 0x01, name: "max_idle_timeout", values: &[0, 1, 63, 64, 30_000], get: |t| t.max_idle_timeout.as_u64() },
        IntParam { id: 0x03, name: "max_udp_payload_size", values: &[1200, 1472, 65_527], get: |t| t.max_udp_payload_size.as_u64() },
        IntParam { id: 0x04, name: "initial_max_data", values: &[0, 1, 63, 64, 16_384], get: |t| t.initial_max_data.as_u64() },
        IntParam { id: 0x05, name: "initial_max_stream_data_bidi_local", values: &[0, 1, 63, 64], get: |t| t.initial_max_stream_data_bidi_local.as_u64() },
        IntParam { id: 0x06, name: "initial_max_stream_data_bidi_remote", values: &[0, 1, 63, 64], get: |t| t.initial_max_stream_data_bidi_remote.as_u64() },
        IntParam { id: 0x07, name: "initial_max_stream_data_uni", values: &[0, 1, 63, 64], get: |t| t.initial_max_stream_data_uni.as_u64() },
        IntParam { id: 0x08, name: "initial_max_streams_bidi", values: &[0, 1, 63, 64, 100], get: |t| t.initial_max_streams_bidi.as_u64() },
        IntParam { id: 0x09, name: "initial_max_streams_uni", values: &[0, 1, 63, 64, 100], get: |t| t.initial_max_streams_uni.as_u64() },
        IntParam { id: 0x0a, name: "ack_delay_exponent", values: &[0, 1, 3, 10, 20], get: |t| t.ack_delay_exponent.as_u8() as u64 },
        IntParam { id: 0x0b, name: "max_ack_delay", values: &[0, 1, 25, 63, 64, 16_383], get: |t| t.max_ack_delay.as_duration().as_millis() as u64 },
        IntParam { id: 0x0e, name: "active_connection_id_limit", values: &[2, 3, 63, 64], get: |t| t.active_connection_id_limit.as_u64() },
        IntParam { id: 0x20, name: "max_datagram_frame_size", values: &[0, 1, 1200, 65_535], get: |t| t.max_datagram_frame_size.as_u64() },
    ]
}

fn int_width_cases() -> Vec<(usize, u64, usize)> {
    let mut out = Vec::new();
    for (k, p) in int_params().iter().enumerate() {
        for &v in p.values {
            for w in [1usize, 2, 4, 8] {
                if w >= ref_varint_size(v) {
                    out.push((k, v, w));
                }
            }
        }
    }
    out
}

fn int_width_block(id: u8, v: u64, w: usize) -> Vec<u8> {
    let mut b = vec![id, w as u8];
    push_varint_w(&mut b, v, w);
    b
}

fn check_int_width(k: usize, v: u64, w: usize) -> Result<u64, Violation> {
    let params = int_params();
    let p = &params[k];
    let block = int_width_block(p.id, v, w);
    let fail = |msg: String| -> Result<u64, Violation> {
        let mut viol = Violation::new("tparams.int_width", msg);
        if w != ref_varint_size(v) {
            // one finding per parameter, not one per value x width
            viol.fingerprint = format!("seqmc|c05.tparams|tparams.int_width|{}", p.name);
        }
        Err(viol)
    };
    match DecoderBuffer::new(&block).decode::<tp::ClientTransportParameters>() {
        Ok((t, _)) => {
            let got = (p.get)(&t);
            if got != v {
                return fail(format!("{} = {} sent as a {}-byte integer ({}) decodes to {}", p.name, v, w, hex(&block), got));
            }
            Ok(w as u64)
        }
        Err(e) => fail(format!("{} = {} sent as a {}-byte integer ({}) is rejected: {} (§18.2: integer parameters are variable-length integers, §16 allows any width that holds the value)", p.name, v, w, hex(&block), e)),
    }
}

/// compact rendering for messages: long byte arrays are abbreviated
fn brief(nf: &NF) -> String {
    let s = format!("{:?}", nf);
    let mut out = String::new();
    let mut rest = s.as_str();
    // replace "[a, b, c, ... ]" lists with more than 12 elements by "[<n bytes>]"
    while let Some(i) = rest.find('[') {
        let Some(j) = rest[i..].find(']') else { break };
        let inner = &rest[i + 1..i + j];
        let n = inner.split(", ").count();
        out.push_str(&rest[..i]);
        if n > 12 && !inner.contains('(') {
            out.push_str(&format!("[<{} bytes>]", n));
        } else {
            out.push_str(&rest[i..i + j + 1]);
        }
        rest = &rest[i + j + 1..];
    }
    out.push_str(rest);
    out
}

// ------------------------------------------------------------------------------------------
// family registry
// ------------------------------------------------------------------------------------------

pub const FAMILIES: &[&str] = &["varint", "frames", "packets", "pnum", "tparams", "codec"];

fn sections(family: &str, tier: Tier) -> Vec<Section> {
    match family {
        "varint" => varint_sections(tier),
        "frames" => frames_sections(tier),
        "packets" => packets_sections(tier),
        "pnum" => pnum_sections(tier),
        "tparams" => tparams_sections(tier),
        "codec" => codec_sections(tier),
        _ => panic!("unknown c05 family {}", family),
    }
}

pub fn run(family: &str, tier: Tier, out: &mut Output) {
    let full = format!("c05.{}", family);
    for s in sections(family, tier) {
        let name = s.name.clone();
        let cfg = |i: u64| Json::obj().set("section", name.as_str()).set("index", i).set("tier", tier_name(tier));
        let describe = |i: u64| {
            let mut j = (s.describe)(i);
            j.put("section", name.as_str());
            j
        };
        let mut rep = enumerate("seqmc", &full, s.n, s.wall, &*s.check, &describe);
        // A finding with its own (case independent) fingerprint is reported once; which of the
        // failing cases the parallel enumeration recorded depends on scheduling, so replace it by the
        // lowest failing index (sequential rescan; such sections are small).
        for v in rep.violations.iter_mut() {
            if v.fingerprint.contains('{') || s.n > 1_000_000 {
                continue;
            }
            for i in 0..s.n {
                if let Err(mut v2) = guarded("case", || (s.check)(i)) {
                    if v2.fingerprint == v.fingerprint {
                        v2.replay = Json::obj()
                            .set("engine", "seqmc")
                            .set("family", full.as_str())
                            .set("clause", v2.clause.as_str())
                            .set("detail", v2.detail.as_str())
                            .set("case_index", i)
                            .set("case", describe(i));
                        *v = v2;
                        break;
                    }
                }
            }
        }
        // make every violation replayable through `replay(family, config, _)`
        for v in rep.violations.iter_mut() {
            if let Some(i) = v.replay.get("case_index").and_then(|x| x.as_i128()) {
                v.replay.put("config", cfg(i as u64));
            }
        }
        rep.extra.push(("config".into(), Json::obj().set("section", name.as_str()).set("tier", tier_name(tier)).set("cases", s.n)));
        out.push(rep);
    }
}

/// `cfg` = {"section": name, "index": i, "tier": "quick"|"thorough"}; `hist` is not used
/// (enumeration cases are independent, there is no history).
pub fn replay(family: &str, cfg: &Json, _hist: &[u16]) -> Result<Vec<String>, (Vec<String>, Violation)> {
    let tier = match cfg.get("tier").and_then(|t| t.as_str()) {
        Some("thorough") => Tier::Thorough,
        _ => Tier::Quick,
    };
    let name = cfg.get("section").and_then(|s| s.as_str()).unwrap_or("").to_string();
    let index = cfg.get("index").and_then(|i| i.as_i128()).unwrap_or(0) as u64;
    let secs = sections(family, tier);
    let Some(s) = secs.iter().find(|s| s.name == name) else {
        return Err((vec![], Violation::new("machinery.replay", format!("no section '{}' in c05.{}", name, family))));
    };
    if index >= s.n {
        return Err((vec![], Violation::new("machinery.replay", format!("index {} out of range {}", index, s.n))));
    }
    let trace = vec![format!("c05.{} section {} case {}: {}", family, name, index, (s.describe)(index).to_string())];
    match guarded("case", || (s.check)(index)) {
        Ok(class) => {
            let mut t = trace;
            t.push(format!("outcome class {}", class));
            Ok(t)
        }
        Err(v) => Err((trace, v)),
    }
}

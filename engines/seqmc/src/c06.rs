// C06 (component part) — only authentic packets are accepted by packet protection.
//
// Families (both `enumerate`):
//
// `c06.aead`  For TLS_AES_128_GCM_SHA256, TLS_AES_256_GCM_SHA384, TLS_CHACHA20_POLY1305_SHA256
//   (1-RTT keys of s2n-quic-crypto built from fixed secrets through `OneRttKey::new_client/
//   new_server`) and the Initial keys (`InitialKey::new_client/new_server` with the RFC 9001
//   Appendix A DCID), and payload sizes {minimum that still allows header-protection sampling,
//   20, 1200}: a packet is sealed with the real `s2n_quic_core::crypto::{encrypt, protect}`;
//   case 0 of every fixture (vacuity guard) requires that (a) the sealed bytes are identical to a
//   packet sealed by this file's own transcription of RFC 9001 §5.3/§5.4 (AEAD nonce = iv XOR
//   packet number, header-protection mask applied to the low 4 / 5 bits of the first byte and the
//   packet number bytes) on top of the bare aws-lc primitives, and (b) the real
//   `ProtectedPacket::decode` + `unprotect` + `decrypt` returns the original payload. Then EVERY
//   single-bit flip, EVERY truncation, EVERY splice (prefix of A ++ suffix of B and vice versa, B
//   = same keys, same length, next packet number, different payload; all cut points) and 16
//   well-formed-header garbage datagrams must not be accepted.
//
// `c06.nonce` For the same four key sets and every packet number in 0..5000, 2^32-8..2^32+8 and
//   2^62-16..2^62-1: a packet sealed by the real key at that packet number is opened with the
//   bare AEAD primitive under nonce = iv XOR pn computed here (RFC 9001 §5.3) - this succeeds
//   iff the real nonce is that value; the nonces of the window are pairwise distinct; plus the
//   RFC 9001 Appendix A vectors (keys/iv/hp derived by this file's HKDF-Expand-Label from the
//   DCID, the client/server Initial header-protection sample -> mask) as anchors that the
//   transcription itself is right, and the same sample -> mask through the real `InitialKey`.
//
// Replay: the violation's replay object carries `config.case_index`; `replay()` re-runs exactly
// that case (history is unused).
use crate::mccore::*;
use s2n_codec::{DecoderBufferMut, Encoder, EncoderBuffer};
use s2n_quic_core::{
    connection::id::ConnectionInfo,
    crypto::{self, scatter, HeaderKey as _, InitialKey as _},
    inet::SocketAddress,
    packet::{
        number::{PacketNumber, PacketNumberSpace},
        ProtectedPacket,
    },
    varint::VarInt,
};
use s2n_quic_crypto::{
    aws_lc_aead::{self as aead, quic as hp},
    hkdf,
    initial::{InitialHeaderKey, InitialKey},
    one_rtt::{OneRttHeaderKey, OneRttKey},
    SecretPair,
};

const RFC_DCID: [u8; 8] = [0x83, 0x94, 0xc8, 0xf0, 0x3e, 0x51, 0x57, 0x08];
//= RFC 9001 §5.2: initial_salt = 0x38762cf7f55934b34d179ae6a4c80cadccbb7f0a
const INITIAL_SALT: [u8; 20] = [0x38, 0x76, 0x2c, 0xf7, 0xf5, 0x59, 0x34, 0xb3, 0x4d, 0x17, 0x9a, 0xe6, 0xa4, 0xc8, 0x0c, 0xad, 0xcc, 0xbb, 0x7f, 0x0a];

#[derive(Clone, Copy, Debug, PartialEq)]
enum Suite {
    Aes128,
    Aes256,
    ChaCha,
    Initial,
}

const SUITES: [Suite; 4] = [Suite::Aes128, Suite::Aes256, Suite::ChaCha, Suite::Initial];

impl Suite {
    fn name(self) -> &'static str {
        match self {
            Suite::Aes128 => "TLS_AES_128_GCM_SHA256",
            Suite::Aes256 => "TLS_AES_256_GCM_SHA384",
            Suite::ChaCha => "TLS_CHACHA20_POLY1305_SHA256",
            Suite::Initial => "Initial(TLS_AES_128_GCM_SHA256, RFC 9001 A.1 DCID)",
        }
    }
    fn hash(self) -> hkdf::Algorithm {
        match self {
            Suite::Aes256 => hkdf::HKDF_SHA384,
            _ => hkdf::HKDF_SHA256,
        }
    }
    fn secret_len(self) -> usize {
        match self {
            Suite::Aes256 => 48,
            _ => 32,
        }
    }
    fn key_len(self) -> usize {
        match self {
            Suite::Aes256 | Suite::ChaCha => 32,
            _ => 16,
        }
    }
    fn aead(self) -> &'static aead::Algorithm {
        match self {
            Suite::Aes128 | Suite::Initial => &aead::AES_128_GCM,
            Suite::Aes256 => &aead::AES_256_GCM,
            Suite::ChaCha => &aead::CHACHA20_POLY1305,
        }
    }
    fn hp(self) -> &'static hp::Algorithm {
        match self {
            Suite::Aes128 | Suite::Initial => &hp::AES_128,
            Suite::Aes256 => &hp::AES_256,
            Suite::ChaCha => &hp::CHACHA20,
        }
    }
    fn space(self) -> PacketNumberSpace {
        match self {
            Suite::Initial => PacketNumberSpace::Initial,
            _ => PacketNumberSpace::ApplicationData,
        }
    }
    /// the traffic secret the *sender* (client) seals with
    fn client_secret(self) -> Vec<u8> {
        match self {
            Suite::Initial => {
                //= RFC 9001 §5.2: initial_secret = HKDF-Extract(initial_salt, client_dst_connection_id)
                //=                client_initial_secret = HKDF-Expand-Label(initial_secret, "client in", "", 32)
                let initial = hkdf::Salt::new(hkdf::HKDF_SHA256, &INITIAL_SALT).extract(&RFC_DCID);
                expand_label_prk(&initial, b"client in", 32)
            }
            s => prf_vec(0xC06_0000 + s.secret_len() as u64 + s.key_len() as u64 * 256, 0, s.secret_len()),
        }
    }
    fn server_secret(self) -> Vec<u8> {
        match self {
            Suite::Initial => {
                let initial = hkdf::Salt::new(hkdf::HKDF_SHA256, &INITIAL_SALT).extract(&RFC_DCID);
                expand_label_prk(&initial, b"server in", 32)
            }
            s => prf_vec(0xC06_5e00 + s.secret_len() as u64 + s.key_len() as u64 * 256, 0, s.secret_len()),
        }
    }
}

// ------------------------------------------------------------------------------------------
// own transcription of the RFC 9001 / RFC 8446 key schedule and packet protection
// ------------------------------------------------------------------------------------------

struct Len(usize);
impl hkdf::KeyType for Len {
    fn len(&self) -> usize {
        self.0
    }
}

//= RFC 8446 §7.1: HkdfLabel { uint16 length; opaque label<7..255> = "tls13 " + Label; opaque context<0..255> = Context }
fn hkdf_label(label: &[u8], len: usize) -> Vec<u8> {
    let mut info = Vec::new();
    info.extend_from_slice(&(len as u16).to_be_bytes());
    info.push((6 + label.len()) as u8);
    info.extend_from_slice(b"tls13 ");
    info.extend_from_slice(label);
    info.push(0);
    info
}

fn expand_label_prk(prk: &hkdf::Prk, label: &[u8], len: usize) -> Vec<u8> {
    let info = hkdf_label(label, len);
    let mut out = vec![0u8; len];
    prk.expand(&[&info], Len(len)).expect("hkdf expand").fill(&mut out).expect("hkdf fill");
    out
}

fn expand_label(hash: hkdf::Algorithm, secret: &[u8], label: &[u8], len: usize) -> Vec<u8> {
    expand_label_prk(&hkdf::Prk::new_less_safe(hash, secret), label, len)
}

struct RefKeys {
    suite: Suite,
    key: Vec<u8>,
    iv: Vec<u8>,
    hp: Vec<u8>,
}

impl RefKeys {
    //= RFC 9001 §5.1: key = HKDF-Expand-Label(secret, "quic key"), iv = "quic iv", hp = "quic hp"
    fn new(suite: Suite, secret: &[u8]) -> RefKeys {
        RefKeys {
            suite,
            key: expand_label(suite.hash(), secret, b"quic key", suite.key_len()),
            iv: expand_label(suite.hash(), secret, b"quic iv", 12),
            hp: expand_label(suite.hash(), secret, b"quic hp", suite.key_len()),
        }
    }

    //= RFC 9001 §5.3: "The 62 bits of the reconstructed QUIC packet number in network byte order
    //= are left-padded with zeros to the size of the IV. The exclusive OR of the padded packet
    //= number and the IV forms the AEAD nonce."
    fn nonce(&self, pn: u64) -> [u8; 12] {
        let mut n = [0u8; 12];
        n[4..].copy_from_slice(&pn.to_be_bytes());
        for (a, b) in n.iter_mut().zip(self.iv.iter()) {
            *a ^= *b;
        }
        n
    }

    fn aead_key(&self) -> aead::LessSafeKey {
        aead::LessSafeKey::new(aead::UnboundKey::new(self.suite.aead(), &self.key).expect("aead key"))
    }

    //= RFC 9001 §5.4.1 pseudocode:
    //=   mask = header_protection(hp_key, sample)
    //=   pn_length = (packet[0] & 0x03) + 1
    //=   if (packet[0] & 0x80) == 0x80: packet[0] ^= mask[0] & 0x0f   # long header: 4 bits
    //=   else:                          packet[0] ^= mask[0] & 0x1f   # short header: 5 bits
    //=   packet[pn_offset:pn_offset+pn_length] ^= mask[1:1+pn_length]
    //= §5.4.2: sample_offset = pn_offset + 4, 16 bytes
    fn mask(&self, sample: &[u8]) -> [u8; 5] {
        hp::HeaderProtectionKey::new(self.suite.hp(), &self.hp).expect("hp key").new_mask(sample).expect("hp mask")
    }

    fn seal(&self, header_with_pn: &[u8], pn_len: usize, pn: u64, payload: &[u8]) -> Vec<u8> {
        let mut body = payload.to_vec();
        self.aead_key().seal_in_place_append_tag(aead::Nonce::assume_unique_for_key(self.nonce(pn)), aead::Aad::from(header_with_pn), &mut body).expect("seal");
        let mut packet = header_with_pn.to_vec();
        packet.extend_from_slice(&body);
        let pn_offset = header_with_pn.len() - pn_len;
        let mask = self.mask(&packet[pn_offset + 4..pn_offset + 20]);
        if packet[0] & 0x80 == 0x80 {
            packet[0] ^= mask[0] & 0x0f;
        } else {
            packet[0] ^= mask[0] & 0x1f;
        }
        for i in 0..pn_len {
            packet[pn_offset + i] ^= mask[1 + i];
        }
        packet
    }

    /// opens `header ++ ciphertext` (header protection already removed) with the bare primitive
    fn open(&self, header_with_pn: &[u8], pn: u64, ciphertext: &[u8]) -> Option<Vec<u8>> {
        let mut buf = ciphertext.to_vec();
        let n = self.aead_key().open_in_place(aead::Nonce::assume_unique_for_key(self.nonce(pn)), aead::Aad::from(header_with_pn), &mut buf).ok()?.len();
        buf.truncate(n);
        Some(buf)
    }
}

// ------------------------------------------------------------------------------------------
// the real keys
// ------------------------------------------------------------------------------------------

enum RealKeys {
    OneRtt(OneRttKey, OneRttHeaderKey),
    Initial(InitialKey, InitialHeaderKey),
}

fn secret_pair(suite: Suite) -> SecretPair {
    SecretPair { client: hkdf::Prk::new_less_safe(suite.hash(), &suite.client_secret()), server: hkdf::Prk::new_less_safe(suite.hash(), &suite.server_secret()) }
}

impl RealKeys {
    fn client(suite: Suite) -> RealKeys {
        match suite {
            Suite::Initial => {
                let (k, h) = InitialKey::new_client(&RFC_DCID);
                RealKeys::Initial(k, h)
            }
            s => {
                let (k, h) = OneRttKey::new_client(s.aead(), secret_pair(s)).expect("known algorithm");
                RealKeys::OneRtt(k, h)
            }
        }
    }
    fn server(suite: Suite) -> RealKeys {
        match suite {
            Suite::Initial => {
                let (k, h) = InitialKey::new_server(&RFC_DCID);
                RealKeys::Initial(k, h)
            }
            s => {
                let (k, h) = OneRttKey::new_server(s.aead(), secret_pair(s)).expect("known algorithm");
                RealKeys::OneRtt(k, h)
            }
        }
    }

    /// the real sealing path: crypto::encrypt + crypto::protect on a cleartext packet
    fn seal(&mut self, cleartext: &[u8], header_len: usize, pn: PacketNumber, largest_acked: PacketNumber) -> Vec<u8> {
        let truncated = pn.truncate(largest_acked).expect("truncatable");
        let pn_len = truncated.len();
        let mut buf = vec![0u8; cleartext.len() + 16];
        buf[..cleartext.len()].copy_from_slice(cleartext);
        let total = {
            let mut enc = EncoderBuffer::new(&mut buf);
            enc.set_position(cleartext.len());
            let payload = scatter::Buffer::new(enc);
            match self {
                RealKeys::OneRtt(k, h) => {
                    let (encrypted, _) = crypto::encrypt(k, pn, pn_len, header_len, payload).expect("encrypt");
                    crypto::protect(h, encrypted).expect("protect").len()
                }
                RealKeys::Initial(k, h) => {
                    let (encrypted, _) = crypto::encrypt(k, pn, pn_len, header_len, payload).expect("encrypt");
                    crypto::protect(h, encrypted).expect("protect").len()
                }
            }
        };
        buf.truncate(total);
        buf
    }
}

#[derive(Debug, PartialEq)]
enum Opened {
    DecodeError,
    WrongType,
    UnprotectError,
    DecryptError,
    Accepted(Vec<u8>),
}

impl Opened {
    fn class(&self) -> u64 {
        match self {
            Opened::DecodeError => 1,
            Opened::WrongType => 2,
            Opened::UnprotectError => 3,
            Opened::DecryptError => 4,
            Opened::Accepted(_) => 5,
        }
    }
}

/// the real receive path of a datagram for the peer holding the keys
fn open_real(keys: &RealKeys, datagram: &[u8], largest_acked: PacketNumber) -> Opened {
    let mut buf = datagram.to_vec();
    let addr = SocketAddress::default();
    let info = ConnectionInfo::new(&addr);
    let Ok((packet, _rest)) = ProtectedPacket::decode(DecoderBufferMut::new(&mut buf), &info, &RFC_DCID.len()) else {
        return Opened::DecodeError;
    };
    match (packet, keys) {
        (ProtectedPacket::Short(p), RealKeys::OneRtt(k, h)) => {
            let Ok(p) = p.unprotect(h, largest_acked) else { return Opened::UnprotectError };
            match p.decrypt(k) {
                Ok(clear) => Opened::Accepted(clear.payload.into_less_safe_slice().to_vec()),
                Err(_) => Opened::DecryptError,
            }
        }
        (ProtectedPacket::Initial(p), RealKeys::Initial(k, h)) => {
            let Ok(p) = p.unprotect(h, largest_acked) else { return Opened::UnprotectError };
            match p.decrypt(k) {
                Ok(clear) => Opened::Accepted(clear.payload.into_less_safe_slice().to_vec()),
                Err(_) => Opened::DecryptError,
            }
        }
        _ => Opened::WrongType,
    }
}

// ------------------------------------------------------------------------------------------
// fixtures
// ------------------------------------------------------------------------------------------

const SIZES: [usize; 3] = [0, 20, 1200]; // 0 = minimum for the packet-number length in use

struct Fixture {
    suite: Suite,
    size_class: usize,
    largest_acked: u64,
    pn_a: u64,
    header_len: usize,
    pn_len: usize,
    payload_a: Vec<u8>,
    payload_b: Vec<u8>,
    clear_a: Vec<u8>,
    clear_b: Vec<u8>,
    packet_a: Vec<u8>,
    packet_b: Vec<u8>,
}

fn pnum(space: PacketNumberSpace, v: u64) -> PacketNumber {
    space.new_packet_number(VarInt::new(v).unwrap())
}

/// header (without packet number) for a packet with the given pn length and protected length
fn header(suite: Suite, pn_len: usize, rest_len: usize) -> Vec<u8> {
    let mut h = Vec::new();
    match suite {
        Suite::Initial => {
            //= RFC 9000 §17.2.2: Initial packet: 1 1 00 RR PP, Version, DCID Len, DCID, SCID Len, SCID,
            //= Token Length, Token, Length, Packet Number
            h.push(0xc0 | (pn_len as u8 - 1));
            h.extend_from_slice(&1u32.to_be_bytes());
            h.push(RFC_DCID.len() as u8);
            h.extend_from_slice(&RFC_DCID);
            h.push(0);
            h.push(0);
            let mut tmp = [0u8; 8];
            let mut e = EncoderBuffer::new(&mut tmp);
            e.encode(&VarInt::new(rest_len as u64).unwrap());
            let n = e.len();
            h.extend_from_slice(&tmp[..n]);
        }
        _ => {
            //= RFC 9000 §17.3.1: 1-RTT packet: 0 1 S RR K PP, Destination Connection ID
            h.push(0x40 | (pn_len as u8 - 1));
            h.extend_from_slice(&RFC_DCID);
        }
    }
    h
}

fn fixture(suite: Suite, size_class: usize) -> Fixture {
    // packet-number encodings of 1, 2 and 4 bytes for the three size classes
    let (largest_acked, pn_a): (u64, u64) = match size_class {
        0 => (0x51, 0x52),
        1 => (0x1_0000, 0x1_0300),
        _ => (0x1_0000_0000, 0x1_3000_0007),
    };
    let space = suite.space();
    let pn_len = pnum(space, pn_a).truncate(pnum(space, largest_acked)).expect("truncate").len().bytesize();
    //= RFC 9001 §5.4.2: the sample starts 4 bytes after the start of the packet number field and
    //= is 16 bytes long => pn_len + payload + 16 (tag) >= 4 + 16
    let size = if SIZES[size_class] == 0 { 4 - pn_len.min(3) } else { SIZES[size_class] };
    let payload_a = prf_vec(0xA000 + size_class as u64, suite as u64 * 7919, size);
    let payload_b = prf_vec(0xB000 + size_class as u64, suite as u64 * 7919, size);
    let hdr = header(suite, pn_len, pn_len + size + 16);
    let header_len = hdr.len();
    let mk_clear = |pn: u64, payload: &[u8]| {
        let mut c = hdr.clone();
        let t = pnum(space, pn).truncate(pnum(space, largest_acked)).unwrap();
        let mut tmp = [0u8; 4];
        let mut e = EncoderBuffer::new(&mut tmp);
        e.encode(&t);
        let n = e.len();
        assert_eq!(n, pn_len);
        c.extend_from_slice(&tmp[..n]);
        c.extend_from_slice(payload);
        c
    };
    let clear_a = mk_clear(pn_a, &payload_a);
    let clear_b = mk_clear(pn_a + 1, &payload_b);
    let mut sealer = RealKeys::client(suite);
    let packet_a = sealer.seal(&clear_a, header_len, pnum(space, pn_a), pnum(space, largest_acked));
    let packet_b = sealer.seal(&clear_b, header_len, pnum(space, pn_a + 1), pnum(space, largest_acked));
    Fixture { suite, size_class, largest_acked, pn_a, header_len, pn_len, payload_a, payload_b, clear_a, clear_b, packet_a, packet_b }
}

#[derive(Debug)]
enum Mutation {
    Identity,
    Flip(usize),
    Truncate(usize),
    SpliceAB(usize),
    SpliceBA(usize),
    Garbage(u64),
}

impl Fixture {
    fn len(&self) -> usize {
        self.packet_a.len()
    }
    fn cases(&self) -> u64 {
        let l = self.len() as u64;
        1 + 8 * l + l + 2 * (l - 1) + 16
    }
    fn mutation(&self, mut i: u64) -> Mutation {
        let l = self.len() as u64;
        if i == 0 {
            return Mutation::Identity;
        }
        i -= 1;
        if i < 8 * l {
            return Mutation::Flip(i as usize);
        }
        i -= 8 * l;
        if i < l {
            return Mutation::Truncate(i as usize);
        }
        i -= l;
        if i < l - 1 {
            return Mutation::SpliceAB(i as usize + 1);
        }
        i -= l - 1;
        if i < l - 1 {
            return Mutation::SpliceBA(i as usize + 1);
        }
        i -= l - 1;
        Mutation::Garbage(i)
    }
    fn apply(&self, m: &Mutation) -> Vec<u8> {
        match *m {
            Mutation::Identity => self.packet_a.clone(),
            Mutation::Flip(bit) => {
                let mut p = self.packet_a.clone();
                p[bit / 8] ^= 0x80 >> (bit % 8);
                p
            }
            Mutation::Truncate(n) => self.packet_a[..n].to_vec(),
            Mutation::SpliceAB(k) => [&self.packet_a[..k], &self.packet_b[k..]].concat(),
            Mutation::SpliceBA(k) => [&self.packet_b[..k], &self.packet_a[k..]].concat(),
            Mutation::Garbage(j) => {
                // a datagram of the right length whose routing fields are intact (so that it reaches
                // these keys) and whose protected part is arbitrary: all-zero, all-one, PRF bytes
                let mut p = match j {
                    0 => vec![0u8; self.len()],
                    1 => vec![0xffu8; self.len()],
                    _ => prf_vec(0x6a7b_0000 + j, self.suite as u64, self.len()),
                };
                let keep = self.header_len;
                p[..keep].copy_from_slice(&self.packet_a[..keep]);
                if j % 2 == 1 {
                    // also keep the protected packet number bytes
                    let k2 = keep + self.pn_len;
                    p[keep..k2].copy_from_slice(&self.packet_a[keep..k2]);
                }
                p
            }
        }
    }

    fn check(&self, i: u64) -> Result<u64, Violation> {
        let m = self.mutation(i);
        let space = self.suite.space();
        let largest = pnum(space, self.largest_acked);
        let opener = RealKeys::server(self.suite);
        if let Mutation::Identity = m {
            // (a) byte-identical to the RFC transcription
            let reference = RefKeys::new(self.suite, &self.suite.client_secret());
            for (clear, payload, pn, real) in [(&self.clear_a, &self.payload_a, self.pn_a, &self.packet_a), (&self.clear_b, &self.payload_b, self.pn_a + 1, &self.packet_b)] {
                let hdr = &clear[..self.header_len + self.pn_len];
                let want = reference.seal(hdr, self.pn_len, pn, payload);
                ensure(*real == want, "aead.sealed_bytes", || {
                    let first = real.iter().zip(want.iter()).position(|(a, b)| a != b);
                    format!(
                        "{} pn {:#x}: real encrypt+protect differs from the RFC 9001 §5.3/§5.4 reference at byte {:?} (real {} / reference {})",
                        self.suite.name(),
                        pn,
                        first,
                        hex(&real[..real.len().min(40)]),
                        hex(&want[..want.len().min(40)])
                    )
                })?;
            }
            // (b) the genuine packets are accepted with the original payload
            for (packet, payload) in [(&self.packet_a, &self.payload_a), (&self.packet_b, &self.payload_b)] {
                let got = open_real(&opener, packet, largest);
                ensure(got == Opened::Accepted(payload.clone()), "aead.genuine_rejected", || format!("{}: genuine packet not accepted: {:?}", self.suite.name(), got.class()))?;
            }
            return Ok(5);
        }
        let datagram = self.apply(&m);
        if datagram == self.packet_a || datagram == self.packet_b {
            // cannot happen for flips/truncations; a splice of two packets that agree on one side of
            // the cut would reproduce a genuine packet, which is no forgery
            return Ok(6);
        }
        let got = open_real(&opener, &datagram, largest);
        if let Opened::Accepted(payload) = &got {
            return violation(
                "aead.forgery_accepted",
                format!("{} payload class {}: {:?} of a genuine packet was accepted (payload {} bytes: {})", self.suite.name(), self.size_class, m, payload.len(), hex(&payload[..payload.len().min(24)])),
            );
        }
        Ok(got.class())
    }
}

fn fixtures() -> Vec<Fixture> {
    let mut v = Vec::new();
    for s in SUITES {
        for z in 0..SIZES.len() {
            v.push(fixture(s, z));
        }
    }
    v
}

fn locate(fx: &[Fixture], mut i: u64) -> (usize, u64) {
    for (k, f) in fx.iter().enumerate() {
        if i < f.cases() {
            return (k, i);
        }
        i -= f.cases();
    }
    panic!("case index out of range");
}

// ------------------------------------------------------------------------------------------
// nonce family
// ------------------------------------------------------------------------------------------

fn nonce_window() -> Vec<u64> {
    let mut w: Vec<u64> = (0..5000).collect();
    w.extend((1u64 << 32) - 8..(1u64 << 32) + 8);
    w.extend((1u64 << 62) - 16..=(1u64 << 62) - 1);
    w
}

fn unhex_vec(s: &str) -> Vec<u8> {
    unhex(s)
}

/// RFC 9001 Appendix A anchors; `k` selects the vector
fn rfc_vector(k: u64) -> Result<u64, Violation> {
    let chk = |what: &str, got: &[u8], want_hex: &str| ensure(got == &unhex_vec(want_hex)[..], "nonce.rfc_vector", || format!("{}: got {}, RFC 9001 Appendix A says {}", what, hex(got), want_hex));
    let initial = hkdf::Salt::new(hkdf::HKDF_SHA256, &INITIAL_SALT).extract(&RFC_DCID);
    match k {
        0 => {
            //= RFC 9001 A.1
            let secret = expand_label_prk(&initial, b"client in", 32);
            chk("client_initial_secret", &secret, "c00cf151ca5be075ed0ebfb5c80323c42d6b7db67881289af4008f1f6c357aea")?;
            let r = RefKeys::new(Suite::Initial, &secret);
            chk("client key", &r.key, "1f369613dd76d5467730efcbe3b1a22d")?;
            chk("client iv", &r.iv, "fa044b2f42a3fd3b46fb255c")?;
            chk("client hp", &r.hp, "9f50449e04a0e810283a1e9933adedd2")?;
            Ok(10)
        }
        1 => {
            let secret = expand_label_prk(&initial, b"server in", 32);
            chk("server_initial_secret", &secret, "3c199828fd139efd216c155ad844cc81fb82fa8d7446fa7d78be803acdda951b")?;
            let r = RefKeys::new(Suite::Initial, &secret);
            chk("server key", &r.key, "cf3a5331653c364c88f0f379b6067e37")?;
            chk("server iv", &r.iv, "0ac1493ca1905853b0bba03e")?;
            chk("server hp", &r.hp, "c206b8d9b9f0f37644430b490eeaa314")?;
            Ok(11)
        }
        2 => {
            //= RFC 9001 A.2: sample = d1b1c98dd7689fb8ec11d242b123dc9b, mask = 437b9aec36,
            //= header c300000001088394c8f03e5157080000449e00000002 -> c000000001088394c8f03e5157080000449e7b9aec34
            let sample = unhex_vec("d1b1c98dd7689fb8ec11d242b123dc9b");
            let r = RefKeys::new(Suite::Initial, &Suite::Initial.client_secret());
            chk("reference client mask", &r.mask(&sample), "437b9aec36")?;
            let (_, real) = InitialKey::new_client(&RFC_DCID);
            chk("InitialKey::new_client sealing mask", &real.sealing_header_protection_mask(&sample), "437b9aec36")?;
            let (_, real) = InitialKey::new_server(&RFC_DCID);
            chk("InitialKey::new_server opening mask", &real.opening_header_protection_mask(&sample), "437b9aec36")?;
            let mut h = unhex_vec("c300000001088394c8f03e5157080000449e00000002");
            let mask = r.mask(&sample);
            h[0] ^= mask[0] & 0x0f;
            for i in 0..4 {
                h[18 + i] ^= mask[1 + i];
            }
            chk("protected client header", &h, "c000000001088394c8f03e5157080000449e7b9aec34")?;
            Ok(12)
        }
        _ => {
            //= RFC 9001 A.3: sample = 2cd0991cd25b0aac406a5816b6394100, mask = 2ec0d8356a,
            //= header c1000000010008f067a5502a4262b50040750001 -> cf000000010008f067a5502a4262b5004075c0d9
            let sample = unhex_vec("2cd0991cd25b0aac406a5816b6394100");
            let r = RefKeys::new(Suite::Initial, &Suite::Initial.server_secret());
            chk("reference server mask", &r.mask(&sample), "2ec0d8356a")?;
            let (_, real) = InitialKey::new_server(&RFC_DCID);
            chk("InitialKey::new_server sealing mask", &real.sealing_header_protection_mask(&sample), "2ec0d8356a")?;
            let (_, real) = InitialKey::new_client(&RFC_DCID);
            chk("InitialKey::new_client opening mask", &real.opening_header_protection_mask(&sample), "2ec0d8356a")?;
            let mut h = unhex_vec("c1000000010008f067a5502a4262b50040750001");
            let mask = r.mask(&sample);
            h[0] ^= mask[0] & 0x0f;
            for i in 0..2 {
                h[18 + i] ^= mask[1 + i];
            }
            chk("protected server header", &h, "cf000000010008f067a5502a4262b5004075c0d9")?;
            Ok(13)
        }
    }
}

/// seal one packet at `pn` with the real key and open it with the bare primitive + own nonce
fn nonce_case(suite: Suite, pn: u64) -> Result<u64, Violation> {
    let space = suite.space();
    // 4-byte packet number encoding, 24-byte payload
    let largest = pn.saturating_sub(0x40_0000);
    let p = pnum(space, pn);
    let l = pnum(space, largest);
    let pn_len = p.truncate(l).expect("truncate").len().bytesize();
    let payload = prf_vec(0x4e0, pn, 24);
    let hdr = header(suite, pn_len, pn_len + payload.len() + 16);
    let header_len = hdr.len();
    let mut clear = hdr.clone();
    {
        let t = p.truncate(l).unwrap();
        let mut tmp = [0u8; 4];
        let mut e = EncoderBuffer::new(&mut tmp);
        e.encode(&t);
        let n = e.len();
        clear.extend_from_slice(&tmp[..n]);
    }
    clear.extend_from_slice(&payload);
    let sealed = RealKeys::client(suite).seal(&clear, header_len, p, l);
    let reference = RefKeys::new(suite, &suite.client_secret());
    // undo header protection with the reference (§5.4.1) - only the AEAD part is of interest here
    let hp_len = header_len + pn_len;
    let mask = reference.mask(&sealed[header_len + 4..header_len + 20]);
    let mut unprotected = sealed.clone();
    unprotected[0] ^= mask[0] & if sealed[0] & 0x80 == 0x80 { 0x0f } else { 0x1f };
    for i in 0..pn_len {
        unprotected[header_len + i] ^= mask[1 + i];
    }
    ensure(unprotected[..hp_len] == clear[..hp_len], "nonce.header", || format!("{} pn {:#x}: header after removing protection with the reference mask differs from the cleartext header", suite.name(), pn))?;
    let opened = reference.open(&unprotected[..hp_len], pn, &unprotected[hp_len..]);
    ensure(opened.as_deref() == Some(&payload[..]), "nonce.value", || {
        format!("{} pn {:#x}: packet sealed by the real key does not open under nonce = iv XOR pn = {} (RFC 9001 §5.3)", suite.name(), pn, hex(&reference.nonce(pn)))
    })?;
    // and a neighbouring nonce must not open it (the primitive really depends on the nonce)
    let other = reference.open(&unprotected[..hp_len], pn ^ 1, &unprotected[hp_len..]);
    ensure(other.is_none(), "nonce.machinery", || "AEAD opened under a different nonce".to_string())?;
    Ok(suite as u64)
}

fn nonce_cases() -> u64 {
    SUITES.len() as u64 * nonce_window().len() as u64 + SUITES.len() as u64 + 4
}

fn nonce_check(i: u64) -> Result<u64, Violation> {
    let w = nonce_window();
    let per = w.len() as u64;
    let n_pn = SUITES.len() as u64 * per;
    if i < n_pn {
        return nonce_case(SUITES[(i / per) as usize], w[(i % per) as usize]);
    }
    let i = i - n_pn;
    if i < SUITES.len() as u64 {
        // pairwise distinct nonces over the whole window
        let suite = SUITES[i as usize];
        let r = RefKeys::new(suite, &suite.client_secret());
        let set: std::collections::BTreeSet<[u8; 12]> = w.iter().map(|&pn| r.nonce(pn)).collect();
        ensure(set.len() == w.len(), "nonce.distinct", || format!("{}: {} distinct nonces for {} packet numbers", suite.name(), set.len(), w.len()))?;
        return Ok(20);
    }
    rfc_vector(i - SUITES.len() as u64)
}

fn nonce_describe(i: u64) -> Json {
    let w = nonce_window();
    let per = w.len() as u64;
    let n_pn = SUITES.len() as u64 * per;
    if i < n_pn {
        Json::obj().set("case_index", i).set("suite", SUITES[(i / per) as usize].name()).set("packet_number", w[(i % per) as usize])
    } else if i - n_pn < SUITES.len() as u64 {
        Json::obj().set("case_index", i).set("suite", SUITES[(i - n_pn) as usize].name()).set("check", "pairwise distinct")
    } else {
        Json::obj().set("case_index", i).set("rfc9001_appendix_a_vector", i - n_pn - SUITES.len() as u64)
    }
}

// ------------------------------------------------------------------------------------------
// registry
// ------------------------------------------------------------------------------------------

pub const FAMILIES: &[&str] = &["aead", "nonce"];

/// make an `enumerate` violation replayable through `replay(family, config, history)`
fn with_replay_config(mut rep: Report) -> Report {
    for v in rep.violations.iter_mut() {
        let idx = v.replay.get("case_index").and_then(|c| c.as_i128()).unwrap_or(0);
        v.replay.put("config", Json::obj().set("case_index", idx));
        v.replay.put("history", Json::Arr(vec![]));
    }
    rep
}

pub fn run(family: &str, _tier: Tier, out: &mut Output) {
    match family {
        "aead" => {
            let fx = fixtures();
            let n: u64 = fx.iter().map(|f| f.cases()).sum();
            let rep = enumerate(
                "seqmc",
                "c06.aead",
                n,
                120.0,
                &|i| {
                    let (k, j) = locate(&fx, i);
                    fx[k].check(j)
                },
                &|i| {
                    let (k, j) = locate(&fx, i);
                    Json::obj().set("case_index", i).set("suite", fx[k].suite.name()).set("payload_len", fx[k].payload_a.len()).set("packet_len", fx[k].len()).set("mutation", format!("{:?}", fx[k].mutation(j)))
                },
            );
            out.push(with_replay_config(rep));
        }
        "nonce" => {
            let rep = enumerate("seqmc", "c06.nonce", nonce_cases(), 120.0, &nonce_check, &nonce_describe);
            out.push(with_replay_config(rep));
        }
        _ => panic!("unknown c06 family {}", family),
    }
}

pub fn replay(family: &str, cfg: &Json, _hist: &[u16]) -> Result<Vec<String>, (Vec<String>, Violation)> {
    let i = cfg.get("case_index").and_then(|v| v.as_i128()).unwrap_or(0) as u64;
    let (desc, res) = match family {
        "aead" => {
            let fx = fixtures();
            let (k, j) = locate(&fx, i);
            (format!("{} payload {} bytes: {:?}", fx[k].suite.name(), fx[k].payload_a.len(), fx[k].mutation(j)), guarded("case", || fx[k].check(j)))
        }
        "nonce" => (nonce_describe(i).to_string(), guarded("case", || nonce_check(i))),
        _ => panic!("unknown c06 family {}", family),
    };
    match res {
        Ok(_) => Ok(vec![desc]),
        Err(v) => Err((vec![desc], v)),
    }
}

// C08 (packet-number part) — truncation / reconstruction of packet numbers against RFC 9000
// §17.1, Appendix A.2 and A.3 (bounded-exhaustive enumeration of (largest_acked, pn, receiver
// largest) triples and of (truncated value, receiver largest) pairs).
//
// Family `c08.pnum`, one `enumerate` over two sections:
//
//  * section "roundtrip": every (L, d) of the grid, pn = L + d, all three packet-number spaces.
//    Sender: `PacketNumber::truncate(pn, L)`.
//      - RFC 9000 §17.1 (normative): "the sender MUST use a packet number size able to represent
//        more than twice as large a range as the difference between the largest acknowledged packet
//        number and the packet number being sent"  =>  required bytes = least n in 1..=4 with
//        2^(8n) > 2*d; when no such n exists (2*d >= 2^32) the number cannot be represented and
//        `truncate` has to refuse (None). A longer encoding than required is fine, shorter is not.
//        (The *sample* A.2 pseudocode gives ceil((log2(d)+1)/8), i.e. 2^(8n) >= 2*d: one byte
//        less exactly at 2*d = 2^(8n). The normative text is what is enforced; the harness
//        self-checks A.2 <= §17.1.)
//      - the wire bytes are the n low-order bytes of pn (big endian), the 2-bit length tag is n-1.
//    Receiver: the bytes are decoded again (`PacketNumberLen::decode_truncated_packet_number`) and
//    `expand`ed with the receiver's largest number R for every R of: L, L+1, floor((L+pn)/2),
//    pn-1 (loss-free ordering: L <= R < pn), pn, pn+1 (duplicate / reordering), the two edges of
//    the window A.3 guarantees (expected-hwin < pn <= expected+hwin with expected = R+1) and
//    the first R outside either edge. Inside the window the result must be exactly pn; outside
//    the result must be what the A.3 pseudocode returns.
//
//  * section "differential": every (length n, truncated value t from boundary patterns, R from a
//    grid around every power of two and the top of the number space): `expand` == transcription
//    of A.3. Where A.3 itself returns a value >= 2^62 (only possible when R+1 = 2^62 or the
//    candidate is computed from expected_pn = 2^62: not a packet number, the RFC leaves the
//    behaviour open) nothing is demanded except "no panic".
//
// Not driven: mixing numbers of different spaces (a `debug_assert` fires: API misuse, see notes).
use crate::mccore::*;
use s2n_codec::{DecoderBuffer, EncoderValue};
use s2n_quic_core::{
    packet::number::{PacketNumber, PacketNumberSpace},
    varint::VarInt,
};
use std::collections::BTreeSet;

pub const FAMILIES: &[&str] = &["pnum"];

const PN_LIMIT: u64 = 1 << 62;
const SPACES: [PacketNumberSpace; 3] = [PacketNumberSpace::Initial, PacketNumberSpace::Handshake, PacketNumberSpace::ApplicationData];

fn mk(space: PacketNumberSpace, v: u64) -> PacketNumber {
    space.new_packet_number(VarInt::new(v).expect("packet number below 2^62"))
}

// ------------------------------------------------------------------------------------------
// RFC transcriptions (the oracle)
// ------------------------------------------------------------------------------------------

/// RFC 9000 §17.1: least number of bytes whose range 2^(8n) is *more than twice* the distance
fn rfc_17_1_min_bytes(d: u64) -> Option<usize> {
    (1..=4usize).find(|&n| (1u128 << (8 * n)) > 2 * d as u128)
}

/// RFC 9000 A.2: num_unacked = full_pn - largest_acked; min_bits = log(num_unacked, 2) + 1;
/// num_bytes = ceil(min_bits / 8). With real-valued log2: 8n >= log2(d)+1 <=> 2^(8n-1) >= d.
fn rfc_a2_bytes(d: u64) -> usize {
    (1..=9usize).find(|&n| (1u128 << (8 * n - 1)) >= d as u128).unwrap()
}

/// RFC 9000 A.3 DecodePacketNumber, line by line, on mathematical integers
fn rfc_a3_decode(largest_pn: u64, truncated_pn: u64, pn_nbits: u32) -> i128 {
    let expected_pn = largest_pn as i128 + 1;
    let pn_win = 1i128 << pn_nbits;
    let pn_hwin = pn_win / 2;
    let pn_mask = pn_win - 1;
    let candidate_pn = (expected_pn & !pn_mask) | truncated_pn as i128;
    if candidate_pn <= expected_pn - pn_hwin && candidate_pn < (1i128 << 62) - pn_win {
        return candidate_pn + pn_win;
    }
    if candidate_pn > expected_pn + pn_hwin && candidate_pn >= pn_win {
        return candidate_pn - pn_win;
    }
    candidate_pn
}

// ------------------------------------------------------------------------------------------
// grids
// ------------------------------------------------------------------------------------------

pub struct Grid {
    ls: Vec<u64>,
    ds: Vec<u64>,
    // differential section
    pats: Vec<(usize, u64)>, // (bytes, truncated value)
    rs: Vec<u64>,
}

impl Grid {
    pub fn new(tier: Tier) -> Grid {
        let mut ls: BTreeSet<u64> = BTreeSet::new();
        ls.insert(0);
        ls.insert(1);
        let l_off: i64 = tier.pick(3, 9);
        for k in 2..=61u32 {
            for off in -l_off..=l_off {
                let v = (1i128 << k) + off as i128;
                if v >= 0 && (v as u64) < PN_LIMIT {
                    ls.insert(v as u64);
                }
            }
        }
        ls.insert(PN_LIMIT - 300);
        if tier == Tier::Thorough {
            ls.insert(PN_LIMIT - 5000);
            ls.insert(PN_LIMIT - 70_000);
            ls.insert(0xabe8b3); // RFC A.2 example
            ls.insert(0xa82f30ea); // RFC A.3 example
        }
        let mut ds: BTreeSet<u64> = BTreeSet::new();
        for d in 1..=tier.pick(1000u64, 5000) {
            ds.insert(d);
        }
        for k in 1..=33u32 {
            for off in -1i64..=1 {
                let v = (1i64 << k) + off;
                if v >= 1 {
                    ds.insert(v as u64);
                }
            }
        }
        let mut pats = Vec::new();
        for n in 1..=4usize {
            let win: u64 = 1 << (8 * n);
            let hwin = win / 2;
            let mut ts: BTreeSet<u64> = BTreeSet::new();
            let spread: u64 = tier.pick(3, 20);
            for j in 0..=spread {
                ts.insert(j);
                ts.insert(win - 1 - j);
                ts.insert(hwin - 1 - j.min(hwin - 1));
                ts.insert((hwin + j).min(win - 1));
            }
            ts.insert(0x10);
            ts.insert(0x5555_5555 & (win - 1));
            ts.insert(0xaaaa_aaaa & (win - 1));
            for t in ts {
                pats.push((n, t));
            }
        }
        let mut rs: BTreeSet<u64> = BTreeSet::new();
        let r_off: i128 = tier.pick(8, 130);
        for k in 0..=62u32 {
            for off in -r_off..=r_off {
                let v = (1i128 << k) + off;
                if v >= 0 && v < PN_LIMIT as i128 {
                    rs.insert(v as u64);
                }
            }
        }
        for j in 0..=tier.pick(300u64, 700) {
            rs.insert(PN_LIMIT - 1 - j);
            rs.insert(j);
        }
        rs.insert(0xa82f30ea);
        Grid { ls: ls.into_iter().collect(), ds: ds.into_iter().collect(), pats, rs: rs.into_iter().collect() }
    }
    fn n_roundtrip(&self) -> u64 {
        (self.ls.len() * self.ds.len()) as u64
    }
    fn n_diff(&self) -> u64 {
        (self.pats.len() * self.rs.len()) as u64
    }
    pub fn n(&self) -> u64 {
        self.n_roundtrip() + self.n_diff()
    }
    fn case(&self, i: u64) -> Case {
        if i < self.n_roundtrip() {
            let nd = self.ds.len() as u64;
            Case::Roundtrip { l: self.ls[(i / nd) as usize], d: self.ds[(i % nd) as usize] }
        } else {
            let j = i - self.n_roundtrip();
            let nr = self.rs.len() as u64;
            let (n, t) = self.pats[(j / nr) as usize];
            Case::Diff { n, t, r: self.rs[(j % nr) as usize] }
        }
    }
}

#[derive(Clone, Copy, Debug)]
pub enum Case {
    Roundtrip { l: u64, d: u64 },
    Diff { n: usize, t: u64, r: u64 },
}

impl Case {
    fn to_json(self) -> Json {
        match self {
            Case::Roundtrip { l, d } => Json::obj().set("section", "roundtrip").set("largest_acked", l).set("distance", d).set("pn", l as u128 + d as u128),
            Case::Diff { n, t, r } => Json::obj().set("section", "differential").set("bytes", n).set("truncated", t).set("receiver_largest", r),
        }
    }
    fn from_json(j: &Json) -> Option<Case> {
        let g = |k: &str| j.get(k).and_then(|v| v.as_i128()).map(|v| v as u64);
        match j.get("section").and_then(|s| s.as_str())? {
            "roundtrip" => Some(Case::Roundtrip { l: g("largest_acked")?, d: g("distance")? }),
            "differential" => Some(Case::Diff { n: g("bytes")? as usize, t: g("truncated")?, r: g("receiver_largest")? }),
            _ => None,
        }
    }
}

// ------------------------------------------------------------------------------------------
// checks
// ------------------------------------------------------------------------------------------

fn low_bytes(v: u64, n: usize) -> Vec<u8> {
    v.to_be_bytes()[8 - n..].to_vec()
}

/// `expand` of the n-byte wire value `bytes` at a receiver whose largest number is `r`
fn real_expand(space: PacketNumberSpace, bytes: &[u8], r: u64) -> Result<u64, Violation> {
    let n = bytes.len();
    let plen = space.new_packet_number_len((n - 1) as u8);
    ensure(plen.bytesize() == n, "pnum.tag", || format!("length tag {} gives PacketNumberLen of {} bytes", n - 1, plen.bytesize()))?;
    let (t, rest) = match plen.decode_truncated_packet_number(DecoderBuffer::new(bytes)) {
        Ok(x) => x,
        Err(e) => return violation("pnum.wire_decode", format!("decoding {} as a {}-byte packet number failed: {:?}", hex(bytes), n, e)),
    };
    ensure(rest.is_empty(), "pnum.wire_decode", || format!("{} bytes left after decoding a {}-byte packet number", rest.len(), n))?;
    ensure(t.len().bytesize() == n && t.space() == space, "pnum.wire_decode", || format!("decoded {:?} from {} in space {:?}", t, hex(bytes), space))?;
    let again = t.encode_to_vec();
    ensure(again == bytes, "pnum.wire_bytes", || format!("re-encoding {:?} gives {}, read from {}", t, hex(&again), hex(bytes)))?;
    let got = t.expand(mk(space, r));
    ensure(got.space() == space, "pnum.space", || format!("expand in {:?} returned a number of space {:?}", space, got.space()))?;
    Ok(got.as_u64())
}

pub fn check_case(case: Case) -> Result<u64, Violation> {
    match case {
        Case::Roundtrip { l, d } => {
            let pn = match l.checked_add(d) {
                Some(p) if p < PN_LIMIT => p,
                _ => return Ok(0), // not a packet number: skipped
            };
            let need = rfc_17_1_min_bytes(d);
            // harness self-check: the sample algorithm never asks for more than the normative text
            if let Some(n) = need {
                ensure(rfc_a2_bytes(d) <= n && rfc_a2_bytes(d) + 1 >= n, "machinery.oracle", || format!("A.2 gives {} bytes, §17.1 {} for d={}", rfc_a2_bytes(d), n, d))?;
            }
            let mut class = 0u64;
            for space in SPACES {
                let full = mk(space, pn);
                // strictly increasing successor inside the space
                match full.next() {
                    Some(nx) => ensure(nx.as_u64() == pn + 1 && nx.space() == space && nx > full, "pnum.next", || format!("next({}) = {:?}", pn, nx))?,
                    None => ensure(pn == PN_LIMIT - 1, "pnum.next", || format!("next({}) = None", pn))?,
                }
                let t = full.truncate(mk(space, l));
                let (t, need) = match (t, need) {
                    (None, None) => {
                        class = 1;
                        continue;
                    }
                    (None, Some(n)) => return violation("pnum.truncate_none", format!("truncate(pn={}, largest_acked={}) = None although {} bytes suffice (RFC 9000 §17.1)", pn, l, n)),
                    (Some(t), None) => {
                        return violation(
                            "pnum.truncate_unrepresentable",
                            format!("truncate(pn={}, largest_acked={}) = {:?}: distance {} needs more than 4 bytes (2*d >= 2^32), RFC 9000 §17.1", pn, l, t, d),
                        )
                    }
                    (Some(t), Some(n)) => (t, n),
                };
                let len = t.len().bytesize();
                ensure(len >= need, "pnum.len_too_short", || {
                    format!("truncate(pn={}, largest_acked={}) uses {} byte(s); RFC 9000 §17.1 requires at least {} (2^(8n) > 2*{})", pn, l, len, need, d)
                })?;
                ensure(len <= 4, "pnum.len_too_long", || format!("truncate(pn={}, largest_acked={}) uses {} bytes", pn, l, len))?;
                ensure(t.len().bitsize() == 8 * len, "pnum.bitsize", || format!("bitsize {} for {} bytes", t.len().bitsize(), len))?;
                ensure(t.space() == space && t.len().space() == space, "pnum.space", || format!("truncate in {:?} returned space {:?}", space, t.space()))?;
                let tag = t.len().into_packet_tag_mask();
                ensure(tag as usize == len - 1, "pnum.tag", || format!("packet tag bits {:#b} for a {}-byte packet number (RFC 9000 §17.2: length - 1)", tag, len))?;
                let wire = t.encode_to_vec();
                let want_wire = low_bytes(pn, len);
                ensure(wire == want_wire, "pnum.wire_bytes", || format!("truncate(pn={:#x}, largest_acked={:#x}) writes {}, the low-order {} bytes are {}", pn, l, hex(&wire), len, hex(&want_wire)))?;

                let bits = 8 * len as u32;
                let hwin: i128 = 1i128 << (bits - 1);
                let pni = pn as i128;
                let mut rs: Vec<i128> = vec![l as i128, l as i128 + 1, (l as i128 + pni) / 2, pni - 1, pni, pni + 1];
                // window edges: expected - hwin < pn <= expected + hwin, expected = R + 1
                rs.extend([pni + hwin - 2, pni + hwin - 1, pni - hwin - 1, pni - hwin - 2]);
                rs.sort();
                rs.dedup();
                for r in rs {
                    if r < 0 || r >= PN_LIMIT as i128 {
                        continue;
                    }
                    let expected = r + 1;
                    let in_window = pni > expected - hwin && pni <= expected + hwin;
                    let want = rfc_a3_decode(r as u64, pn & ((1u64 << bits) - 1), bits);
                    if in_window {
                        ensure(want == pni, "machinery.oracle", || format!("A.3 transcription gives {} for pn={} R={} bits={} inside the guaranteed window", want, pn, r, bits))?;
                    }
                    let got = real_expand(space, &wire, r as u64)?;
                    if in_window {
                        ensure(got == pn, "pnum.roundtrip", || {
                            format!(
                                "pn={} sent with largest_acked={} as {} ({} bytes); receiver with largest={} expands it to {} (RFC 9000 A.3 guarantees {} since {} < pn <= {})",
                                pn,
                                l,
                                hex(&wire),
                                len,
                                r,
                                got,
                                pn,
                                expected - hwin,
                                expected + hwin
                            )
                        })?;
                    } else if (0..PN_LIMIT as i128).contains(&want) {
                        ensure(got as i128 == want, "pnum.expand_vs_rfc", || format!("expand({}, {} bytes) with largest={} = {}, RFC 9000 A.3 returns {}", hex(&wire), len, r, got, want))?;
                    }
                }
                class = 2 + len as u64 + 8 * (len - need) as u64;
            }
            Ok(class)
        }
        Case::Diff { n, t, r } => {
            let bytes = low_bytes(t, n);
            let want = rfc_a3_decode(r, t, 8 * n as u32);
            let mut class = 100;
            for space in SPACES {
                let got = real_expand(space, &bytes, r)?;
                if (0..PN_LIMIT as i128).contains(&want) {
                    ensure(got as i128 == want, "pnum.expand_vs_rfc", || format!("expand({}, {} bytes) with largest={} = {}, RFC 9000 A.3 returns {}", hex(&bytes), n, r, got, want))?;
                    // which branch of A.3 was taken
                    let candidate = ((r as i128 + 1) & !((1i128 << (8 * n)) - 1)) | t as i128;
                    class = 101 + (want > candidate) as u64 + 2 * (want < candidate) as u64;
                } else {
                    ensure(got < PN_LIMIT, "pnum.range", || format!("expand returned {} >= 2^62", got))?;
                }
            }
            Ok(class)
        }
    }
}

pub fn run(family: &str, tier: Tier, out: &mut Output) {
    match family {
        "pnum" => {
            let grid = Grid::new(tier);
            let mut rep = enumerate("seqmc", "c08.pnum", grid.n(), tier.pick(15.0, 200.0), &|i| check_case(grid.case(i)), &|i| grid.case(i).to_json());
            rep.extra.push(("x_roundtrip_cases".into(), grid.n_roundtrip().into()));
            rep.extra.push(("x_differential_cases".into(), grid.n_diff().into()));
            rep.extra.push(("x_largest_acked_values".into(), grid.ls.len().into()));
            rep.extra.push(("x_distances".into(), grid.ds.len().into()));
            rep.extra.push(("config".into(), Json::obj().set("tier", if tier == Tier::Quick { "quick" } else { "thorough" })));
            out.push(rep);
        }
        _ => panic!("unknown c08 family {}", family),
    }
}

/// Replay: `cfg` is the `case` object of the replay file (section + numbers); `hist` is unused.
pub fn replay(family: &str, cfg: &Json, _hist: &[u16]) -> Result<Vec<String>, (Vec<String>, Violation)> {
    assert_eq!(family, "pnum", "unknown c08 family {}", family);
    let cfg = cfg.get("case").unwrap_or(cfg);
    let case = Case::from_json(cfg).expect("replay needs the `case` object written by the run (section, numbers)");
    let trace = vec![format!("{:?}", case)];
    match guarded("case", || check_case(case)) {
        Ok(_) => Ok(trace),
        Err(v) => Err((trace, v)),
    }
}

// C10 (component part) — congestion controllers stay within RFC 9002 bounds.
//
// The real `CubicCongestionController` / `BbrCongestionController` are driven through the
// `CongestionController` trait with the call protocol of
// s2n-quic-transport/src/recovery/manager.rs:
//   * `on_packet_sent` returns a `PacketInfo` that is stored with the packet and handed back in
//     `on_ack` (info of the newest acknowledged packet) / `on_packet_lost`;
//   * an RTT sample first updates the path's `RttEstimator`, then `on_rtt_update(time_sent of the
//     newest acknowledged packet, now, ..)` is called while that packet still counts as in flight;
//   * `on_packet_lost(.., persistent_congestion = true, ..)` is followed by
//     `RttEstimator::on_persistent_congestion()`;
//   * ECN-CE, MTU updates and discards are single calls.
// The harness owns the clock and a list of outstanding packets (size, send time, PacketInfo).
//
// Families `c10.cubic`, `c10.bbr`; configurations max_datagram_size in {1200, 1500, 9000}.
// Alphabet: Sent(1 | max_datagram_size bytes, app_limited Some(false)|Some(true)|None),
// Ack(oldest|newest|all, after 0 | 1 rtt), Tick(1 rtt), Rtt(100|10|1000 ms; needs a packet in
// flight), Lost(oldest|newest, persistent (only after the first RTT sample), new_loss_burst),
// EcnCe, Mtu(9000|1200, when different), Discard(oldest), Idle(10 s).  Depth 5 quick; thorough 7
// (CUBIC) / 6 (BBR).  States are de-duplicated on the controller's Debug rendering + outstanding
// list + clock + RTT estimator + oracle memory.
//
// Oracle (after every event), transcribed from RFC 9002 / the BBRv2 draft, not from the code:
//   c10.min_window        cwnd >= kMinimumWindow = 2 * max_datagram_size (RFC 9002 §7.2) for CUBIC,
//                         >= BBRMinPipeCwnd = 4 * SMSS (draft-cardwell-iccrg-bbr-02 §2.8) for BBR;
//                         max_datagram_size is the value last announced through on_mtu_update
//   c10.overflow          cwnd never saturates (u32::MAX) / collapses to 0 (float NaN), and no
//                         arithmetic overflow (overflow checks are on => panic => `step.panic`)
//   c10.bytes_in_flight   bytes_in_flight() == sum of the sizes of the outstanding packets
//   CUBIC only:
//   c10.signal_increase   on_packet_lost / on_explicit_congestion never leaves cwnd larger
//   c10.second_reduction  after a loss/ECN signal shrank the window at time T, no further loss/ECN
//                         signal shrinks it until a packet sent after T has been acknowledged
//                         (= "at most once per round trip", RFC 9002 §7.3.2: the recovery period
//                         ends when a packet sent during it is acknowledged). Persistent congestion
//                         is exempt (it is required to collapse the window, §7.6.2).
//   c10.app_limited_growth on_ack does not grow cwnd while the sender is application-limited
//                         (RFC 9002 §7.8), see `clearly_app_limited` for the exact region
//   c10.persistent_min    on_packet_lost(persistent_congestion = true) => cwnd == 2 * max_datagram_size
use crate::mccore::*;
use core::time::Duration;
use s2n_quic_core::{
    event, path,
    packet::number::PacketNumberSpace,
    random,
    recovery::{
        bbr::BbrCongestionController, congestion_controller::PathPublisher, CongestionController, CubicCongestionController, RttEstimator,
    },
    time::{Clock, NoopClock, Timestamp},
};

pub trait Ctl: CongestionController {
    const NAME: &'static str;
    /// minimum window in packets, from the specification the controller implements
    const MIN_PKTS: u32;
    const CUBIC: bool;
    fn make(mtu: u16) -> Self;
}

impl Ctl for CubicCongestionController {
    const NAME: &'static str = "cubic";
    //= RFC 9002 §7.2: "The RECOMMENDED value is 2 * max_datagram_size."
    const MIN_PKTS: u32 = 2;
    const CUBIC: bool = true;
    fn make(mtu: u16) -> Self {
        CubicCongestionController::new(mtu, Default::default())
    }
}

impl Ctl for BbrCongestionController {
    const NAME: &'static str = "bbr";
    //= draft-cardwell-iccrg-bbr-congestion-control-02 §2.8: BBRMinPipeCwnd = 4 * SMSS
    const MIN_PKTS: u32 = 4;
    const CUBIC: bool = false;
    fn make(mtu: u16) -> Self {
        BbrCongestionController::new(mtu, Default::default())
    }
}

#[derive(Clone, Copy, Debug, PartialEq)]
pub enum Which {
    Oldest,
    Newest,
    All,
}

#[derive(Clone, Debug, PartialEq)]
pub enum Op {
    /// send a congestion-controlled packet of 1 byte or of the current max_datagram_size
    Sent { full: bool, app_limited: Option<bool> },
    /// RTT sample in ms (the sample also becomes the harness's "1 rtt" unit of time)
    Rtt(u64),
    /// acknowledge; the clock first advances by 0 or 1 rtt
    Ack { which: Which, wait: bool },
    Lost { which: Which, persistent: bool, burst: bool },
    EcnCe,
    Mtu(u16),
    Discard,
    /// advance the clock by 1 rtt
    Tick,
    /// advance the clock by 10 s (idle period; reaches BBR's ProbeRTT interval)
    Idle,
}

#[derive(Clone, Copy, Debug)]
struct Pkt<I> {
    bytes: u32,
    sent: Timestamp,
    info: I,
}

/// what the harness remembers about the most recent transmission (inputs of the §7.8 rule)
#[derive(Clone, Copy, Debug, Hash)]
struct LastSend {
    app_limited: Option<bool>,
    bif_after: u64,
    cwnd: u32,
    mtu: u16,
}

pub struct Cc<C: Ctl> {
    cc: C,
    rtt: RttEstimator,
    rng: random::testing::Generator,
    now: Timestamp,
    unit: Duration,
    mtu: u16,
    initial_cwnd: u32,
    out: Vec<Pkt<C::PacketInfo>>,
    sent_any: bool,
    last_send: Option<LastSend>,
    /// time of the last observed loss/ECN-induced shrink that has not been followed by the
    /// acknowledgement of a packet sent after it
    shrunk_at: Option<Timestamp>,
    events: u64,
}

/// The region in which the oracle demands "no growth": the transmission was flagged
/// application-limited by the caller AND the window was under-utilised in the sense of RFC 9002
/// §7.8 ("bytes in flight is smaller than the congestion window"), minus two narrow allowances
/// that s2n-quic documents and the property ("while the sender is application-limited") does not
/// forbid:
///  * up to 3 datagrams of unused window still count as "utilised" (burst allowance, Chromium's
///    kMaxBurstBytes; §7.8 itself tells a paced sender not to consider itself limited when it
///    would have used the window without the pacing delay);
///  * at least half of the window in use counts as "utilised" (s2n-quic applies this in slow
///    start only; the oracle applies it always, so it needs no view of the controller's phase).
fn clearly_app_limited(app_limited: Option<bool>, bif: u64, cwnd: u32, mtu: u16) -> bool {
    app_limited == Some(true) && bif < (cwnd / 2) as u64 && (cwnd as u64).saturating_sub(bif) > 3 * mtu as u64
}

impl<C: Ctl> Cc<C> {
    pub fn new(mtu: u16) -> Self {
        let cc = C::make(mtu);
        let initial_cwnd = cc.congestion_window();
        Cc {
            cc,
            rtt: RttEstimator::default(),
            rng: random::testing::Generator(7),
            now: NoopClock.get_time(),
            unit: Duration::from_millis(100),
            mtu,
            initial_cwnd,
            out: Vec::new(),
            sent_any: false,
            last_send: None,
            shrunk_at: None,
            events: 0,
        }
    }

    fn bif(&self) -> u64 {
        self.out.iter().map(|p| p.bytes as u64).sum()
    }

    fn pick(&self, which: Which) -> usize {
        match which {
            Which::Oldest => 0,
            _ => self.out.len() - 1,
        }
    }

    fn invariants(&self) -> Result<(), Violation> {
        let cwnd = self.cc.congestion_window();
        let min = C::MIN_PKTS * self.mtu as u32;
        ensure(cwnd >= min, "c10.min_window", || format!("{}: cwnd {} < {} * max_datagram_size {} = {}", C::NAME, cwnd, C::MIN_PKTS, self.mtu, min))?;
        ensure(cwnd < u32::MAX, "c10.overflow", || format!("{}: cwnd saturated at {}", C::NAME, cwnd))?;
        let bif = self.bif();
        ensure(self.cc.bytes_in_flight() as u64 == bif, "c10.bytes_in_flight", || {
            format!("{}: bytes_in_flight() = {} but outstanding packets sum to {} ({:?})", C::NAME, self.cc.bytes_in_flight(), bif, self.out.iter().map(|p| p.bytes).collect::<Vec<_>>())
        })?;
        Ok(())
    }
}

impl<C: Ctl> Sys for Cc<C> {
    type Op = Op;

    fn ops(&self) -> Vec<Op> {
        let mut ops = Vec::new();
        for full in [true, false] {
            for app_limited in [Some(false), Some(true), None] {
                ops.push(Op::Sent { full, app_limited });
            }
        }
        let n = self.out.len();
        let whiches: &[Which] = match n {
            0 => &[],
            1 => &[Which::Oldest],
            _ => &[Which::Oldest, Which::Newest, Which::All],
        };
        for &which in whiches {
            for wait in [true, false] {
                ops.push(Op::Ack { which, wait });
            }
        }
        ops.push(Op::Tick);
        if n > 0 {
            for ms in [100u64, 10, 1000] {
                ops.push(Op::Rtt(ms));
            }
        }
        for &which in whiches.iter().filter(|w| **w != Which::All) {
            for persistent in [false, true] {
                // RFC 9002 §7.6.2: the persistent congestion period does not start before the
                // first RTT sample (manager.rs: persistent_congestion::Calculator)
                if persistent && self.rtt.first_rtt_sample().is_none() {
                    continue;
                }
                for burst in [true, false] {
                    ops.push(Op::Lost { which, persistent, burst });
                }
            }
        }
        if self.sent_any {
            ops.push(Op::EcnCe);
        }
        for m in [9000u16, 1200] {
            if m != self.mtu {
                ops.push(Op::Mtu(m));
            }
        }
        if n > 0 {
            ops.push(Op::Discard);
        }
        ops.push(Op::Idle);
        ops
    }

    fn step(&mut self, op: &Op) -> Result<(), Violation> {
        let mut publisher = event::testing::Publisher::no_snapshot();
        let mut publisher = PathPublisher::new(&mut publisher, path::Id::test_id());
        let before = self.cc.congestion_window();
        self.events += 1;
        match *op {
            Op::Sent { full, app_limited } => {
                let bytes = if full { self.mtu as usize } else { 1 };
                let info = self.cc.on_packet_sent(self.now, bytes, app_limited, &self.rtt, &mut publisher);
                self.out.push(Pkt { bytes: bytes as u32, sent: self.now, info });
                self.sent_any = true;
                self.last_send = Some(LastSend { app_limited, bif_after: self.bif(), cwnd: self.cc.congestion_window(), mtu: self.mtu });
            }
            Op::Rtt(ms) => {
                let sample = Duration::from_millis(ms);
                self.unit = sample;
                let newest = self.out[self.out.len() - 1];
                self.rtt.update_rtt(Duration::ZERO, sample, self.now, true, PacketNumberSpace::ApplicationData);
                self.cc.on_rtt_update(newest.sent, self.now, &self.rtt, &mut publisher);
            }
            Op::Ack { which, wait } => {
                if wait {
                    self.now += self.unit;
                }
                let (bytes, newest) = match which {
                    Which::All => {
                        let b: u64 = self.bif();
                        let newest = self.out[self.out.len() - 1];
                        self.out.clear();
                        (b as usize, newest)
                    }
                    w => {
                        let p = self.out.remove(self.pick(w));
                        (p.bytes as usize, p)
                    }
                };
                let bif_before = self.cc.bytes_in_flight() as u64;
                let limited = C::CUBIC
                    && self.last_send.is_some_and(|l| clearly_app_limited(l.app_limited, l.bif_after, l.cwnd, l.mtu) && clearly_app_limited(l.app_limited, bif_before, before, self.mtu));
                self.cc.on_ack(newest.sent, bytes, newest.info, &self.rtt, &mut self.rng, self.now, &mut publisher);
                let after = self.cc.congestion_window();
                if limited {
                    //= RFC 9002 §7.8: "When this occurs, the congestion window SHOULD NOT be
                    //= increased in either slow start or congestion avoidance."
                    ensure(after <= before, "c10.app_limited_growth", || {
                        format!(
                            "{}: on_ack({} bytes) grew cwnd {} -> {} although the last transmission was application-limited with {} of {} bytes in flight",
                            C::NAME,
                            bytes,
                            before,
                            after,
                            bif_before,
                            before
                        )
                    })?;
                }
                if self.shrunk_at.is_some_and(|t| newest.sent > t) {
                    // a packet sent after the reduction was acknowledged: the round trip is over
                    self.shrunk_at = None;
                }
            }
            Op::Lost { which, persistent, burst } => {
                let p = self.out.remove(self.pick(which));
                self.cc.on_packet_lost(p.bytes, p.info, persistent, burst, &mut self.rng, self.now, &mut publisher);
                if persistent {
                    // manager.rs: remove_lost_packets()
                    self.rtt.on_persistent_congestion();
                }
                let after = self.cc.congestion_window();
                if C::CUBIC {
                    ensure(after <= before, "c10.signal_increase", || format!("cubic: on_packet_lost raised cwnd {} -> {}", before, after))?;
                    if persistent {
                        //= RFC 9002 §7.6.2: "When persistent congestion is declared, the sender's
                        //= congestion window MUST be reduced to the minimum congestion window"
                        let min = 2 * self.mtu as u32;
                        ensure(after == min, "c10.persistent_min", || format!("cubic: cwnd {} after persistent congestion, kMinimumWindow = {}", after, min))?;
                        //= RFC 9002 §B.8: congestion_recovery_start_time = 0
                        self.shrunk_at = None;
                    } else if after < before {
                        ensure(self.shrunk_at.is_none(), "c10.second_reduction", || {
                            format!(
                                "cubic: loss of a packet sent at {} shrank cwnd {} -> {} at {}, but the window was already reduced at {} and no packet sent since has been acknowledged",
                                p.sent,
                                before,
                                after,
                                self.now,
                                self.shrunk_at.unwrap()
                            )
                        })?;
                        self.shrunk_at = Some(self.now);
                    }
                }
            }
            Op::EcnCe => {
                self.cc.on_explicit_congestion(1, self.now, &mut publisher);
                let after = self.cc.congestion_window();
                if C::CUBIC {
                    ensure(after <= before, "c10.signal_increase", || format!("cubic: on_explicit_congestion raised cwnd {} -> {}", before, after))?;
                    if after < before {
                        ensure(self.shrunk_at.is_none(), "c10.second_reduction", || {
                            format!("cubic: ECN-CE shrank cwnd {} -> {} at {}, but the window was already reduced at {} and no packet sent since has been acknowledged", before, after, self.now, self.shrunk_at.unwrap())
                        })?;
                        self.shrunk_at = Some(self.now);
                    }
                }
            }
            Op::Mtu(m) => {
                self.cc.on_mtu_update(m, &mut publisher);
                self.mtu = m;
            }
            Op::Discard => {
                let p = self.out.remove(0);
                self.cc.on_packet_discarded(p.bytes as usize, &mut publisher);
            }
            Op::Tick => self.now += self.unit,
            Op::Idle => self.now += Duration::from_secs(10),
        }
        self.invariants()
    }

    fn key(&self) -> u128 {
        // `events` is deliberately not part of the key. Everything else that can influence the
        // future is: the controller (its Debug derives print every field, floats exactly), the
        // outstanding list incl. the PacketInfo handed back later, clock, RTT estimator, the
        // random generator's counter and the oracle's own memory.
        key128(&(
            format!("{:?}", self.cc),
            format!("{:?}", self.out),
            self.now,
            self.rtt,
            self.rng.0,
            (self.unit, self.mtu, self.sent_any),
            self.last_send,
            self.shrunk_at,
        ))
    }

    fn fork(&self) -> Option<Self> {
        Some(Cc {
            cc: self.cc.clone(),
            rtt: self.rtt,
            rng: random::testing::Generator(self.rng.0),
            now: self.now,
            unit: self.unit,
            mtu: self.mtu,
            initial_cwnd: self.initial_cwnd,
            out: self.out.clone(),
            sent_any: self.sent_any,
            last_send: self.last_send,
            shrunk_at: self.shrunk_at,
            events: self.events,
        })
    }

    fn outcome(&self) -> u64 {
        let cwnd = self.cc.congestion_window();
        let rel = match cwnd.cmp(&self.initial_cwnd) {
            core::cmp::Ordering::Less => 0u64,
            core::cmp::Ordering::Equal => 1,
            core::cmp::Ordering::Greater => 2,
        };
        let at_min = (cwnd == C::MIN_PKTS * self.mtu as u32) as u64;
        rel | at_min << 2 | (self.out.len().min(3) as u64) << 3 | (self.cc.is_congestion_limited() as u64) << 5 | (self.cc.requires_fast_retransmission() as u64) << 6 | (self.shrunk_at.is_some() as u64) << 7
    }
}

pub const FAMILIES: &[&str] = &["cubic", "bbr", "persistent"];

const MTUS: &[u16] = &[1200, 1500, 9000];

/// depth 5 quick; thorough: CUBIC 7, BBR 6 (its state has many more distinguishing fields, depth 7
/// does not complete within the budget - measured 1.6e7 states after 160 s, still at depth 6)
fn limits(tier: Tier, cubic: bool) -> Limits {
    Limits::depth(tier.pick(5, if cubic { 7 } else { 6 })).wall(tier.pick(15.0, 200.0))
}

pub fn run(family: &str, tier: Tier, out: &mut Output) {
    if family == "persistent" {
        out.push(enumerate("seqmc", "c10.persistent", pc_cases(), tier.pick(60.0, 300.0), &pc_check, &pc_describe));
        return;
    }
    for &mtu in MTUS {
        let cfg = Json::obj().set("controller", family).set("max_datagram_size", mtu);
        match family {
            "cubic" => out.push(explore("seqmc", "c10.cubic", cfg, &move || Cc::<CubicCongestionController>::new(mtu), &limits(tier, true))),
            "bbr" => out.push(explore("seqmc", "c10.bbr", cfg, &move || Cc::<BbrCongestionController>::new(mtu), &limits(tier, false))),
            _ => panic!("unknown c10 family {}", family),
        }
    }
}

pub fn replay(family: &str, cfg: &Json, hist: &[u16]) -> Result<Vec<String>, (Vec<String>, Violation)> {
    if family == "persistent" {
        let i = cfg.get("case_index").and_then(|v| v.as_i128()).unwrap_or(0) as u64;
        return match pc_check(i) {
            Ok(_) => Ok(vec![format!("{}", pc_describe(i).to_string())]),
            Err(v) => Err((vec![format!("{}", pc_describe(i).to_string())], v)),
        };
    }
    let mtu = cfg.get("max_datagram_size").and_then(|v| v.as_i128()).unwrap_or(1200) as u16;
    match family {
        "cubic" => replay_history(&move || Cc::<CubicCongestionController>::new(mtu), hist),
        "bbr" => replay_history(&move || Cc::<BbrCongestionController>::new(mtu), hist),
        _ => panic!("unknown c10 family {}", family),
    }
}


// ---------------------------------------------------------------------------------------------
// c10.persistent - the persistent congestion period calculator (RFC 9002 7.6)
// ---------------------------------------------------------------------------------------------
//
// Bounded-exhaustive: 6 packets 0..=5 sent at non-decreasing instants on a 4-point grid (84 time
// assignments), every subset of them declared lost (in packet number order, as the recovery manager
// does), every assignment of the ack-eliciting flag, and the first RTT sample absent / at each grid
// instant / one grid step later: 84 * 64 * 64 * 6 cases. Reference (RFC 9002 7.6.1/7.6.2,
// transcribed): the longest span time(j) - time(i) over pairs i <= j of lost ack-eliciting packets,
// both sent at or after the first RTT sample, with every packet number between them lost as well;
// 0 without such a pair or without an RTT sample.

use s2n_quic_core::{
    frame::ack_elicitation::AckElicitation,
    inet::ExplicitCongestionNotification,
    recovery::{persistent_congestion::Calculator, SentPacketInfo},
    transmission,
};

const PC_N: usize = 6;
const PC_STEP_MS: u64 = 10;

fn pc_time_vectors() -> &'static Vec<[u8; PC_N]> {
    static V: std::sync::OnceLock<Vec<[u8; PC_N]>> = std::sync::OnceLock::new();
    V.get_or_init(pc_time_vectors_build)
}

fn pc_time_vectors_build() -> Vec<[u8; PC_N]> {
    // all non-decreasing vectors over 0..=3
    let mut out = Vec::new();
    fn rec(k: usize, lo: u8, cur: &mut [u8; PC_N], out: &mut Vec<[u8; PC_N]>) {
        if k == PC_N {
            out.push(*cur);
            return;
        }
        for v in lo..=3 {
            cur[k] = v;
            rec(k + 1, v, cur, out);
        }
    }
    rec(0, 0, &mut [0; PC_N], &mut out);
    out
}

fn pc_cases() -> u64 {
    pc_time_vectors().len() as u64 * 64 * 64 * 6
}

struct PcCase {
    times: [u8; PC_N],
    lost: u8,
    eliciting: u8,
    /// None, or grid index 0..=4 of the first RTT sample
    first_sample: Option<u8>,
}

fn pc_case(i: u64) -> PcCase {
    let tv = pc_time_vectors();
    let n = tv.len() as u64;
    let times = tv[(i % n) as usize];
    let i = i / n;
    let lost = (i % 64) as u8;
    let i = i / 64;
    let eliciting = (i % 64) as u8;
    let i = i / 64;
    let first_sample = if i == 0 { None } else { Some((i - 1) as u8) };
    PcCase { times, lost, eliciting, first_sample }
}

fn pc_describe(i: u64) -> Json {
    let c = pc_case(i);
    Json::obj()
        .set("case_index", i)
        .set("send_times_x10ms", c.times.iter().map(|t| *t as u64).collect::<Vec<u64>>())
        .set("lost_mask", c.lost as u64)
        .set("ack_eliciting_mask", c.eliciting as u64)
        .set("first_rtt_sample_x10ms", c.first_sample.map(|v| v as i128).unwrap_or(-1))
}

fn pc_check(i: u64) -> Result<u64, Violation> {
    let c = pc_case(i);
    let t0 = s2n_quic_core::time::clock::testing::now();
    let at = |g: u8| t0 + core::time::Duration::from_millis(g as u64 * PC_STEP_MS);
    let path = unsafe { s2n_quic_core::path::Id::new(0) };
    let mut calc = Calculator::new(c.first_sample.map(at), path);
    for k in 0..PC_N {
        if c.lost & (1 << k) == 0 {
            continue;
        }
        let eliciting = c.eliciting & (1 << k) != 0;
        let info = SentPacketInfo::new(
            true,
            1200,
            at(c.times[k]),
            if eliciting { AckElicitation::Eliciting } else { AckElicitation::NonEliciting },
            path,
            ExplicitCongestionNotification::default(),
            transmission::Mode::Normal,
            (),
        );
        calc.on_lost_packet(PacketNumberSpace::ApplicationData.new_packet_number(s2n_quic_core::varint::VarInt::from_u8(k as u8)), &info);
    }
    let got = calc.persistent_congestion_duration().as_millis() as u64;
    // reference
    let mut want = 0u64;
    if let Some(fs) = c.first_sample {
        for a in 0..PC_N {
            for b in a..PC_N {
                let ok = |k: usize| c.lost & (1 << k) != 0;
                let el = |k: usize| c.eliciting & (1 << k) != 0;
                if !(a..=b).all(ok) || !el(a) || !el(b) || c.times[a] < fs || c.times[b] < fs {
                    continue;
                }
                want = want.max((c.times[b] - c.times[a]) as u64 * PC_STEP_MS);
            }
        }
    }
    ensure(got == want, "c10.persistent_period", || format!("persistent congestion period {} ms, RFC 9002 7.6 gives {} ms: {}", got, want, pc_describe(i).to_string()))?;
    Ok(want / PC_STEP_MS)
}

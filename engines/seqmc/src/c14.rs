// C14 (component part) — transport parameter blocks: the real decoders
// (`ClientTransportParameters` / `ServerTransportParameters`) against an acceptance table
// transcribed from RFC 9000 §7.4, §16, §18, §18.2 (and §4.6, §5.1.1/§19.15 where §18.2 refers to
// them), RFC 9221 §3, plus the two s2n-quic-specific parameters (own rules, see below).
//
// Family `c14.table` (one `enumerate`): every block is built as raw bytes by this file (never by
// the repo's encoder), decoded once as "sent by a client" and once as "sent by a server".
//
//   oracle 1  real decode accepts  <=>  table accepts            (tp.accept_mismatch.<param>)
//   oracle 2  for accepted blocks every decoded field == declared value, or the RFC default
//             when the parameter is absent                        (tp.value.* / tp.default.*)
//   oracle 3  the component-level conversions that apply the values give exactly the declared
//             numbers: flow_control_limits / stream_limits().max_data per stream kind,
//             ack_settings (+ decode_ack_delay scaling), datagram_limits, zero_rtt_parameters,
//             connection::Limits::load_peer (idle timeout = min of both, 0 = none)   (tp.applied.*)
//
// "Either" entries: where the RFC text does not decide, the table allows both outcomes (each is
// commented where the table returns `ValueCheck::Either` / `Verdict::Either`); nothing else is loosened.
//
// Violations are collected by this module (not by `enumerate`) keyed on (clause, class, role) with
// the lowest case index as representative, so that the reported set is deterministic and a known
// deviation that shows up in thousands of blocks cannot crowd out a new one.
use crate::mccore::*;
use core::time::Duration;
use s2n_codec::{DecoderBuffer, DecoderValue};
use s2n_quic_core::{
    connection::limits::Limits,
    endpoint,
    stream::{StreamId, StreamType},
    transport::parameters::{ClientTransportParameters, MigrationSupport, MtuProbingCompleteSupport, ServerTransportParameters},
};
use std::collections::{BTreeMap, BTreeSet};
use std::sync::atomic::{AtomicU64, Ordering};
use std::sync::Mutex;

pub const FAMILIES: &[&str] = &["table"];

const VMAX: u64 = (1 << 62) - 1;

// ------------------------------------------------------------------------------------------
// RFC 9000 §16 / A.1 variable-length integers (own reader and writer)
// ------------------------------------------------------------------------------------------

/// A.1 ReadVarint; None when the data ends early
fn read_varint(b: &[u8], pos: &mut usize) -> Option<u64> {
    let first = *b.get(*pos)?;
    let length = 1usize << (first >> 6);
    if b.len() - *pos < length {
        return None;
    }
    let mut v = (first & 0x3f) as u64;
    for i in 1..length {
        v = (v << 8) + b[*pos + i] as u64;
    }
    *pos += length;
    Some(v)
}

fn min_size(v: u64) -> usize {
    if v < 1 << 6 {
        1
    } else if v < 1 << 14 {
        2
    } else if v < 1 << 30 {
        4
    } else {
        8
    }
}

/// Table 4: 2MSB = log2(size), value in the remaining bits, network byte order
fn enc_varint(v: u64, size: usize) -> Vec<u8> {
    assert!(size >= min_size(v) && matches!(size, 1 | 2 | 4 | 8) && v <= VMAX);
    let mut out = v.to_be_bytes()[8 - size..].to_vec();
    out[0] |= (size.trailing_zeros() as u8) << 6;
    out
}

fn tlv_sized(id: u64, id_size: usize, value: &[u8], len_size: usize) -> Vec<u8> {
    let mut out = enc_varint(id, id_size);
    out.extend(enc_varint(value.len() as u64, len_size));
    out.extend_from_slice(value);
    out
}

fn tlv(id: u64, value: &[u8]) -> Vec<u8> {
    tlv_sized(id, min_size(id), value, min_size(value.len() as u64))
}

// ------------------------------------------------------------------------------------------
// the table
// ------------------------------------------------------------------------------------------

#[derive(Clone, Copy, Debug, PartialEq)]
enum Form {
    /// "integer" parameters: one §16 varint filling the value exactly; valid iff lo <= v <= hi.
    /// `soft_hi`: values above it are neither declared invalid nor clearly permitted by the RFC.
    Int { lo: u64, hi: u64, soft_hi: Option<u64>, default: u64 },
    /// zero-length value; presence is the information
    Flag,
    /// a connection ID: `lo..=hi` bytes; lengths below `either_below` are left open (see table)
    Cid { lo: usize, hi: usize, either_below: usize },
    /// 16 bytes
    Token,
    /// Figure 22
    PreferredAddress,
    /// s2n-quic specific: list of varints
    DcVersions,
}

struct Param {
    id: u64,
    name: &'static str,
    server_only: bool,
    form: Form,
}

const fn int(lo: u64, hi: u64, default: u64) -> Form {
    Form::Int { lo, hi, soft_hi: None, default }
}

const P_ODCID: usize = 0;
const P_IDLE: usize = 1;
#[allow(dead_code)]
const P_SRT: usize = 2;
const P_UDP: usize = 3;
const P_MAX_DATA: usize = 4;
const P_BIDI_LOCAL: usize = 5;
const P_BIDI_REMOTE: usize = 6;
const P_UNI: usize = 7;
const P_STREAMS_BIDI: usize = 8;
const P_STREAMS_UNI: usize = 9;
const P_ACK_EXP: usize = 10;
const P_MAX_ACK_DELAY: usize = 11;
const P_NO_MIGRATION: usize = 12;
#[allow(dead_code)]
const P_PREFERRED: usize = 13;
const P_CID_LIMIT: usize = 14;
const P_ISCID: usize = 15;
const P_RSCID: usize = 16;
const P_DATAGRAM: usize = 17;
#[allow(dead_code)]
const P_DC_VERSIONS: usize = 18;
const P_MTU_PROBING: usize = 19;
const NP: usize = 20;

const PARAMS: [Param; NP] = [
    // §18.2 "only sent by a server". The value is the DCID of the client's first Initial, which
    // §7.2 requires to be at least 8 bytes; §17.2: connection IDs are at most 20 bytes in v1. A
    // value shorter than 8 bytes can never match what a conforming client sent, so whether it is
    // refused while parsing or by the §7.3 comparison is not observable: lengths 0..7 are Either.
    Param { id: 0x00, name: "original_destination_connection_id", server_only: true, form: Form::Cid { lo: 0, hi: 20, either_below: 8 } },
    // "Idle timeout is disabled when both endpoints omit this transport parameter or specify 0"
    Param { id: 0x01, name: "max_idle_timeout", server_only: false, form: int(0, VMAX, 0) },
    // "a sequence of 16 bytes. MUST NOT be sent by a client"
    Param { id: 0x02, name: "stateless_reset_token", server_only: true, form: Form::Token },
    // "The default for this parameter is the maximum permitted UDP payload of 65527. Values below
    // 1200 are invalid." Values above 65527 exceed what the text calls the maximum permitted
    // payload but are not declared invalid: Either.
    Param { id: 0x03, name: "max_udp_payload_size", server_only: false, form: Form::Int { lo: 1200, hi: VMAX, soft_hi: Some(65527), default: 65527 } },
    Param { id: 0x04, name: "initial_max_data", server_only: false, form: int(0, VMAX, 0) },
    Param { id: 0x05, name: "initial_max_stream_data_bidi_local", server_only: false, form: int(0, VMAX, 0) },
    Param { id: 0x06, name: "initial_max_stream_data_bidi_remote", server_only: false, form: int(0, VMAX, 0) },
    Param { id: 0x07, name: "initial_max_stream_data_uni", server_only: false, form: int(0, VMAX, 0) },
    // §4.6: "a max_streams transport parameter ... with a value greater than 2^60 ... MUST be
    // closed ... TRANSPORT_PARAMETER_ERROR"
    Param { id: 0x08, name: "initial_max_streams_bidi", server_only: false, form: int(0, 1 << 60, 0) },
    Param { id: 0x09, name: "initial_max_streams_uni", server_only: false, form: int(0, 1 << 60, 0) },
    // "a default value of 3 is assumed. Values above 20 are invalid."
    Param { id: 0x0a, name: "ack_delay_exponent", server_only: false, form: int(0, 20, 3) },
    // "a default of 25 milliseconds is assumed. Values of 2^14 or greater are invalid."
    Param { id: 0x0b, name: "max_ack_delay", server_only: false, form: int(0, (1 << 14) - 1, 25) },
    // "This parameter is a zero-length value."
    Param { id: 0x0c, name: "disable_active_migration", server_only: false, form: Form::Flag },
    // "only sent by a server"; Figure 22; see `preferred_address()` below
    Param { id: 0x0d, name: "preferred_address", server_only: true, form: Form::PreferredAddress },
    // "MUST be at least 2 ... a default of 2 is assumed"
    Param { id: 0x0e, name: "active_connection_id_limit", server_only: false, form: int(2, VMAX, 2) },
    // SCID of the first Initial: any connection ID (0..=20 bytes)
    Param { id: 0x0f, name: "initial_source_connection_id", server_only: false, form: Form::Cid { lo: 0, hi: 20, either_below: 0 } },
    // SCID of a Retry packet: any connection ID (0..=20 bytes); "only sent by a server"
    Param { id: 0x10, name: "retry_source_connection_id", server_only: true, form: Form::Cid { lo: 0, hi: 20, either_below: 0 } },
    // RFC 9221 §3: varint, default 0, no invalid values
    Param { id: 0x20, name: "max_datagram_frame_size", server_only: false, form: int(0, VMAX, 0) },
    // s2n-quic specific (transport/parameters/mod.rs, `DcSupportedVersions`): a sequence of
    // varints, each at most u32::MAX; the first four are kept and everything after the fourth is
    // skipped without being looked at ("to allow for future versions"); either role; default
    // empty. Rule taken from that file's own comments - there is no RFC for it.
    Param { id: 0xdc0000, name: "dc_supported_versions", server_only: false, form: Form::DcVersions },
    // s2n-quic specific (`MtuProbingCompleteSupport`): zero-length flag, either role
    Param { id: 0xdc0002, name: "mtu_probing_complete_support", server_only: false, form: Form::Flag },
];

fn lookup(id: u64) -> Option<usize> {
    PARAMS.iter().position(|p| p.id == id)
}

#[derive(Clone, Copy, Debug, PartialEq, Eq, PartialOrd, Ord)]
pub enum Role {
    Client,
    Server,
}

impl Role {
    fn name(self) -> &'static str {
        match self {
            Role::Client => "client",
            Role::Server => "server",
        }
    }
    fn endpoint(self) -> endpoint::Type {
        match self {
            Role::Client => endpoint::Type::Client,
            Role::Server => endpoint::Type::Server,
        }
    }
}

#[derive(Clone, Debug, PartialEq)]
struct Preferred {
    v4: Option<([u8; 4], u16)>,
    v6: Option<([u8; 16], u16)>,
    cid: Vec<u8>,
    token: [u8; 16],
}

/// what an accepted block declares, field by field (defaults filled in for absent parameters)
#[derive(Clone, Debug, PartialEq)]
struct Expected {
    ints: [u64; NP],
    present: [bool; NP],
    cids: [Option<Vec<u8>>; NP],
    token: Option<[u8; 16]>,
    preferred: Option<Preferred>,
    dc_versions: Vec<u32>,
}

impl Expected {
    fn defaults() -> Expected {
        let mut ints = [0u64; NP];
        for (i, p) in PARAMS.iter().enumerate() {
            if let Form::Int { default, .. } = p.form {
                ints[i] = default;
            }
        }
        Expected { ints, present: [false; NP], cids: Default::default(), token: None, preferred: None, dc_versions: Vec::new() }
    }
}

#[derive(Clone, Debug)]
struct Reject {
    /// entries of the block that make it invalid (one, or the two occurrences of a duplicate);
    /// empty = the framing itself
    entries: Vec<usize>,
    param: &'static str,
    class: String,
    why: String,
}

#[derive(Clone, Debug)]
enum Verdict {
    Accept(Expected),
    Reject(Reject),
    /// RFC leaves it open; if the implementation accepts, the values must still be the declared ones
    Either(Expected, String),
}

/// §18: (id, length, value) tuples until the block ends; None = the framing is broken
fn parse_block(b: &[u8]) -> Option<Vec<(u64, std::ops::Range<usize>, std::ops::Range<usize>)>> {
    let mut pos = 0;
    let mut out = Vec::new();
    while pos < b.len() {
        let start = pos;
        let id = read_varint(b, &mut pos)?;
        let len = read_varint(b, &mut pos)?;
        if ((b.len() - pos) as u64) < len {
            return None;
        }
        let vstart = pos;
        pos += len as usize;
        out.push((id, start..pos, vstart..pos));
    }
    Some(out)
}

enum ValueCheck {
    Ok,
    Either(String),
    Bad(&'static str, String), // class, text
}

fn preferred_address(v: &[u8]) -> Result<(Preferred, Option<String>), (&'static str, String)> {
    // Figure 22: IPv4 Address (32), IPv4 Port (16), IPv6 Address (128), IPv6 Port (16),
    // Connection ID Length (8), Connection ID (..), Stateless Reset Token (128)
    if v.len() < 4 + 2 + 16 + 2 + 1 {
        return Err(("bad_length", format!("{} bytes are too short for Figure 22", v.len())));
    }
    let mut a4 = [0u8; 4];
    a4.copy_from_slice(&v[0..4]);
    let p4 = u16::from_be_bytes([v[4], v[5]]);
    let mut a6 = [0u8; 16];
    a6.copy_from_slice(&v[6..22]);
    let p6 = u16::from_be_bytes([v[22], v[23]]);
    let cid_len = v[24] as usize;
    if v.len() != 25 + cid_len + 16 {
        return Err(("bad_length", format!("value has {} bytes, Figure 22 with a {}-byte connection ID has {}", v.len(), cid_len, 25 + cid_len + 16)));
    }
    // "The Connection ID and Stateless Reset Token fields of a preferred address are identical in
    // syntax and semantics to the corresponding fields of a NEW_CONNECTION_ID frame (§19.15)":
    // "Values less than 1 and greater than 20 are invalid"; and §18.2 itself: "a server MUST NOT
    // include a zero-length connection ID in this transport parameter. A client MUST treat a
    // violation of these requirements as a connection error of type TRANSPORT_PARAMETER_ERROR."
    if cid_len == 0 {
        return Err(("zero_length_cid", "zero-length connection ID in preferred_address".into()));
    }
    if cid_len > 20 {
        return Err(("cid_too_long", format!("{}-byte connection ID in preferred_address", cid_len)));
    }
    let cid = v[25..25 + cid_len].to_vec();
    let mut token = [0u8; 16];
    token.copy_from_slice(&v[25 + cid_len..]);
    // "Servers MAY choose to only send a preferred address of one address family by sending an
    // all-zero address and port (0.0.0.0:0 or [::]:0) for the other family."
    let v4 = if a4 == [0; 4] && p4 == 0 { None } else { Some((a4, p4)) };
    let v6 = if a6 == [0; 16] && p6 == 0 { None } else { Some((a6, p6)) };
    // both families all-zero: the RFC neither forbids nor gives it a meaning
    let either = if v4.is_none() && v6.is_none() { Some("preferred_address with both families all-zero: RFC 9000 is silent".to_string()) } else { None };
    Ok((Preferred { v4, v6, cid, token }, either))
}

fn check_value(pi: usize, v: &[u8], exp: &mut Expected) -> ValueCheck {
    let p = &PARAMS[pi];
    match p.form {
        Form::Int { lo, hi, soft_hi, .. } => {
            let mut pos = 0;
            let Some(x) = read_varint(v, &mut pos) else {
                return ValueCheck::Bad("malformed_varint", format!("value {} is not a complete variable-length integer", hex(v)));
            };
            if pos != v.len() {
                return ValueCheck::Bad("bad_length", format!("length {} but the integer occupies {} bytes", v.len(), pos));
            }
            if x < lo {
                return ValueCheck::Bad("value_below_min", format!("{} = {} is below {}", p.name, x, lo));
            }
            if x > hi {
                return ValueCheck::Bad("value_above_max", format!("{} = {} is above {}", p.name, x, hi));
            }
            exp.ints[pi] = x;
            match soft_hi {
                Some(s) if x > s => ValueCheck::Either(format!("{} = {} above {}: not declared invalid, not clearly permitted", p.name, x, s)),
                _ => ValueCheck::Ok,
            }
        }
        Form::Flag => {
            if !v.is_empty() {
                return ValueCheck::Bad("bad_length", format!("{} must be zero-length, has {} bytes", p.name, v.len()));
            }
            ValueCheck::Ok
        }
        Form::Cid { lo, hi, either_below } => {
            if v.len() < lo || v.len() > hi {
                return ValueCheck::Bad("bad_length", format!("{}-byte connection ID", v.len()));
            }
            exp.cids[pi] = Some(v.to_vec());
            if v.len() < either_below {
                ValueCheck::Either(format!("{} of {} bytes (< {}): cannot match a conforming peer, refusal point not observable", p.name, v.len(), either_below))
            } else {
                ValueCheck::Ok
            }
        }
        Form::Token => {
            if v.len() != 16 {
                return ValueCheck::Bad("bad_length", format!("stateless_reset_token of {} bytes", v.len()));
            }
            let mut t = [0u8; 16];
            t.copy_from_slice(v);
            exp.token = Some(t);
            ValueCheck::Ok
        }
        Form::PreferredAddress => match preferred_address(v) {
            Err((class, text)) => ValueCheck::Bad(class, text),
            Ok((pa, either)) => {
                exp.preferred = Some(pa);
                match either {
                    Some(e) => ValueCheck::Either(e),
                    None => ValueCheck::Ok,
                }
            }
        },
        Form::DcVersions => {
            let mut pos = 0;
            let mut versions = Vec::new();
            while pos < v.len() && versions.len() < 4 {
                let Some(x) = read_varint(v, &mut pos) else {
                    return ValueCheck::Bad("malformed_varint", format!("version list {} ends inside an integer", hex(v)));
                };
                if x > u32::MAX as u64 {
                    return ValueCheck::Bad("value_above_max", format!("version {} above u32::MAX", x));
                }
                versions.push(x as u32);
            }
            exp.dc_versions = versions;
            ValueCheck::Ok
        }
    }
}

fn table(role: Role, block: &[u8]) -> Verdict {
    let Some(entries) = parse_block(block) else {
        return Verdict::Reject(Reject { entries: vec![], param: "framing", class: "framing".into(), why: "the (id, length, value) sequence does not fill the block exactly (§18)".into() });
    };
    let mut exp = Expected::defaults();
    let mut first_seen: BTreeMap<u64, usize> = BTreeMap::new();
    let mut either: Option<String> = None;
    for (ei, (id, _, vr)) in entries.iter().enumerate() {
        let prev = first_seen.get(id).copied();
        first_seen.entry(*id).or_insert(ei);
        let Some(pi) = lookup(*id) else {
            // §7.4.2 "An endpoint MUST ignore transport parameters that it does not support"
            // (§18.1: 31*N+27 exist to exercise exactly this). A repeated unknown parameter:
            // §7.4 forbids sending duplicates and says SHOULD reject, but an endpoint cannot know
            // more about an unknown id than to ignore it: Either.
            if prev.is_some() {
                either.get_or_insert_with(|| format!("unknown parameter {:#x} repeated", id));
            }
            continue;
        };
        let p = &PARAMS[pi];
        // §18.2 last paragraph
        if p.server_only && role == Role::Client {
            return Verdict::Reject(Reject { entries: vec![ei], param: p.name, class: "server_only_in_client_block".into(), why: format!("{} must not be sent by a client (§18.2)", p.name) });
        }
        // §7.4 "MUST NOT send a parameter more than once" (the property: repeated parameters fail)
        if let Some(first) = prev {
            return Verdict::Reject(Reject { entries: vec![first, ei], param: p.name, class: "duplicate".into(), why: format!("{} appears twice (§7.4)", p.name) });
        }
        exp.present[pi] = true;
        match check_value(pi, &block[vr.clone()], &mut exp) {
            ValueCheck::Ok => {}
            ValueCheck::Either(e) => {
                either.get_or_insert(e);
            }
            ValueCheck::Bad(class, why) => return Verdict::Reject(Reject { entries: vec![ei], param: p.name, class: class.into(), why }),
        }
    }
    match either {
        Some(e) => Verdict::Either(exp, e),
        None => Verdict::Accept(exp),
    }
}

// ------------------------------------------------------------------------------------------
// the real decoders
// ------------------------------------------------------------------------------------------

fn real_client(block: &[u8]) -> Result<ClientTransportParameters, String> {
    match ClientTransportParameters::decode(DecoderBuffer::new(block)) {
        Ok((p, rest)) if rest.is_empty() => Ok(p),
        Ok((_, rest)) => Err(format!("{} bytes left undecoded", rest.len())),
        Err(e) => Err(format!("{}", e)),
    }
}

fn real_server(block: &[u8]) -> Result<ServerTransportParameters, String> {
    match ServerTransportParameters::decode(DecoderBuffer::new(block)) {
        Ok((p, rest)) if rest.is_empty() => Ok(p),
        Ok((_, rest)) => Err(format!("{} bytes left undecoded", rest.len())),
        Err(e) => Err(format!("{}", e)),
    }
}

fn real_accepts(role: Role, block: &[u8]) -> Result<(), String> {
    match role {
        Role::Client => real_client(block).map(|_| ()),
        Role::Server => real_server(block).map(|_| ()),
    }
}

struct Fail {
    clause: String,
    class: String,
    detail: String,
}

fn fail<T>(clause: String, class: &str, detail: String) -> Result<T, Fail> {
    Err(Fail { clause, class: class.into(), detail })
}

/// RFC 9000 §10.1: "the effective value at an endpoint is computed as the minimum of the two
/// advertised values" with 0 / absent meaning that side sets no timeout
fn rfc_idle(local_ms: u64, peer_ms: u64) -> Option<Duration> {
    match (local_ms, peer_ms) {
        (0, 0) => None,
        (0, p) => Some(Duration::from_millis(p)),
        (l, 0) => Some(Duration::from_millis(l)),
        (l, p) => Some(Duration::from_millis(l.min(p))),
    }
}

/// checks shared by both decoded types (they are two instantiations of one generic struct; the
/// fields are public)
macro_rules! check_common {
    ($p:expr, $exp:expr, $role:expr) => {{
        let p = &$p;
        let exp: &Expected = $exp;
        let role: Role = $role;
        let field = |pi: usize, got: u64| -> Result<(), Fail> {
            if got != exp.ints[pi] {
                let kind = if exp.present[pi] { "value" } else { "default" };
                return fail(
                    format!("tp.{}.{}", kind, PARAMS[pi].name),
                    "",
                    format!(
                        "{}: decoded {} but the block {} {}",
                        PARAMS[pi].name,
                        got,
                        if exp.present[pi] { "declares" } else { "omits it and the RFC default is" },
                        exp.ints[pi]
                    ),
                );
            }
            Ok(())
        };
        field(P_IDLE, (*p.max_idle_timeout).as_u64())?;
        field(P_UDP, (*p.max_udp_payload_size).as_u64())?;
        field(P_MAX_DATA, (*p.initial_max_data).as_u64())?;
        field(P_BIDI_LOCAL, (*p.initial_max_stream_data_bidi_local).as_u64())?;
        field(P_BIDI_REMOTE, (*p.initial_max_stream_data_bidi_remote).as_u64())?;
        field(P_UNI, (*p.initial_max_stream_data_uni).as_u64())?;
        field(P_STREAMS_BIDI, (*p.initial_max_streams_bidi).as_u64())?;
        field(P_STREAMS_UNI, (*p.initial_max_streams_uni).as_u64())?;
        field(P_ACK_EXP, *p.ack_delay_exponent as u64)?;
        field(P_MAX_ACK_DELAY, (*p.max_ack_delay).as_u64())?;
        field(P_CID_LIMIT, (*p.active_connection_id_limit).as_u64())?;
        field(P_DATAGRAM, (*p.max_datagram_frame_size).as_u64())?;
        let flag = |pi: usize, got: bool| -> Result<(), Fail> {
            if got != exp.present[pi] {
                let kind = if exp.present[pi] { "value" } else { "default" };
                return fail(format!("tp.{}.{}", kind, PARAMS[pi].name), "", format!("{}: decoded as {} but present in the block = {}", PARAMS[pi].name, got, exp.present[pi]));
            }
            Ok(())
        };
        flag(P_NO_MIGRATION, p.migration_support == MigrationSupport::Disabled)?;
        flag(P_MTU_PROBING, p.mtu_probing_complete_support == MtuProbingCompleteSupport::Enabled)?;
        let iscid = p.initial_source_connection_id.as_ref().map(|c| c.as_bytes().to_vec());
        if iscid != exp.cids[P_ISCID] {
            return fail("tp.value.initial_source_connection_id".into(), "", format!("decoded {:?}, declared {:?}", iscid, exp.cids[P_ISCID]));
        }
        let dc: Vec<u32> = (&p.dc_supported_versions).into_iter().copied().collect();
        if dc != exp.dc_versions {
            return fail("tp.value.dc_supported_versions".into(), "", format!("decoded {:?}, declared {:?}", dc, exp.dc_versions));
        }

        // ---- applied values -----------------------------------------------------------------
        let fc = p.flow_control_limits();
        let applied = |what: &str, got: u64, want: u64| -> Result<(), Fail> {
            if got != want {
                return fail(format!("tp.applied.{}", what), "", format!("{} derived from the decoded parameters is {}, the peer declared {}", what, got, want));
            }
            Ok(())
        };
        applied("flow_control.max_data", fc.max_data.as_u64(), exp.ints[P_MAX_DATA])?;
        applied("flow_control.max_streams_bidi", fc.max_open_remote_bidirectional_streams.as_u64(), exp.ints[P_STREAMS_BIDI])?;
        applied("flow_control.max_streams_uni", fc.max_open_remote_unidirectional_streams.as_u64(), exp.ints[P_STREAMS_UNI])?;
        applied("flow_control.stream_bidi_local", fc.stream_limits.max_data_bidi_local.as_u64(), exp.ints[P_BIDI_LOCAL])?;
        applied("flow_control.stream_bidi_remote", fc.stream_limits.max_data_bidi_remote.as_u64(), exp.ints[P_BIDI_REMOTE])?;
        applied("flow_control.stream_uni", fc.stream_limits.max_data_uni.as_u64(), exp.ints[P_UNI])?;
        // §18.2: which streams each per-stream limit applies to, by the two low bits of the id,
        // from the point of view of the endpoint that SENT the parameters
        let sender = role.endpoint();
        let sl = p.stream_limits();
        for n in [0u64, 1, 7] {
            let own_bidi = StreamId::nth(sender, StreamType::Bidirectional, n).unwrap();
            let peer_bidi = StreamId::nth(sender.peer_type(), StreamType::Bidirectional, n).unwrap();
            let peer_uni = StreamId::nth(sender.peer_type(), StreamType::Unidirectional, n).unwrap();
            // own StreamId arithmetic check (§2.1): bit 0 = initiator (0 client), bit 1 = uni
            let low = |s: StreamId| s.as_varint().as_u64() & 3;
            let (c, s) = (0u64, 1u64);
            let me = if role == Role::Client { c } else { s };
            if low(own_bidi) != me || low(peer_bidi) != 1 - me || low(peer_uni) != (1 - me) | 2 {
                return fail("machinery.stream_id".into(), "", format!("unexpected stream ids {:?} {:?} {:?}", own_bidi, peer_bidi, peer_uni));
            }
            applied("stream_limit.bidi_local", sl.max_data(sender, own_bidi).as_u64(), exp.ints[P_BIDI_LOCAL])?;
            applied("stream_limit.bidi_remote", sl.max_data(sender, peer_bidi).as_u64(), exp.ints[P_BIDI_REMOTE])?;
            applied("stream_limit.uni", sl.max_data(sender, peer_uni).as_u64(), exp.ints[P_UNI])?;
        }
        let ack = p.ack_settings();
        if ack.max_ack_delay != Duration::from_millis(exp.ints[P_MAX_ACK_DELAY]) {
            return fail("tp.applied.ack_settings.max_ack_delay".into(), "", format!("ack::Settings.max_ack_delay = {:?}, declared {} ms", ack.max_ack_delay, exp.ints[P_MAX_ACK_DELAY]));
        }
        applied("ack_settings.ack_delay_exponent", ack.ack_delay_exponent as u64, exp.ints[P_ACK_EXP])?;
        // §19.3: "decoded by multiplying the value in the field by 2 to the power of the
        // ack_delay_exponent transport parameter sent by the sender of the ACK frame" (microseconds)
        for raw in [0u64, 1, 1000, 1 << 20] {
            let got = ack.decode_ack_delay(s2n_quic_core::varint::VarInt::new(raw).unwrap());
            let want = Duration::from_micros(raw << exp.ints[P_ACK_EXP]);
            if got != want {
                return fail("tp.applied.ack_settings.decode_ack_delay".into(), "", format!("ACK Delay field {} with exponent {} decodes to {:?}, RFC 9000 §19.3 gives {:?}", raw, exp.ints[P_ACK_EXP], got, want));
            }
        }
        // a DATAGRAM frame limit: exactly the declared one, unless the declared UDP payload limit
        // is tighter (a frame cannot be larger than the datagram carrying it)
        let dg = p.datagram_limits().max_datagram_payload;
        if dg > exp.ints[P_DATAGRAM] || (exp.ints[P_DATAGRAM] <= exp.ints[P_UDP] && dg != exp.ints[P_DATAGRAM]) || (exp.ints[P_DATAGRAM] > exp.ints[P_UDP] && dg < exp.ints[P_UDP]) {
            return fail(
                "tp.applied.datagram_limits".into(),
                "",
                format!("max_datagram_payload = {}, declared max_datagram_frame_size {} / max_udp_payload_size {}", dg, exp.ints[P_DATAGRAM], exp.ints[P_UDP]),
            );
        }
        let z = p.zero_rtt_parameters();
        applied("zero_rtt.active_connection_id_limit", z.active_connection_id_limit.as_u64(), exp.ints[P_CID_LIMIT])?;
        applied("zero_rtt.initial_max_data", z.initial_max_data.as_u64(), exp.ints[P_MAX_DATA])?;
        applied("zero_rtt.initial_max_stream_data_bidi_local", z.initial_max_stream_data_bidi_local.as_u64(), exp.ints[P_BIDI_LOCAL])?;
        applied("zero_rtt.initial_max_stream_data_bidi_remote", z.initial_max_stream_data_bidi_remote.as_u64(), exp.ints[P_BIDI_REMOTE])?;
        applied("zero_rtt.initial_max_stream_data_uni", z.initial_max_stream_data_uni.as_u64(), exp.ints[P_UNI])?;
        applied("zero_rtt.initial_max_streams_bidi", z.initial_max_streams_bidi.as_u64(), exp.ints[P_STREAMS_BIDI])?;
        applied("zero_rtt.initial_max_streams_uni", z.initial_max_streams_uni.as_u64(), exp.ints[P_STREAMS_UNI])?;
        applied("zero_rtt.max_datagram_frame_size", z.max_datagram_frame_size.as_u64(), exp.ints[P_DATAGRAM])?;
        // connection::Limits::load_peer: the idle timeout the connection then runs with
        for local_ms in [0u64, 5_000, 30_000, 600_000] {
            let mut limits = Limits::default().with_max_idle_timeout(Duration::from_millis(local_ms)).expect("local idle timeout");
            limits.load_peer(p);
            let want = rfc_idle(local_ms, exp.ints[P_IDLE]);
            if limits.max_idle_timeout() != want {
                return fail(
                    "tp.applied.limits.max_idle_timeout".into(),
                    "",
                    format!("local max_idle_timeout {} ms, peer declared {} ms: Limits::load_peer gives {:?}, RFC 9000 §10.1 gives {:?}", local_ms, exp.ints[P_IDLE], limits.max_idle_timeout(), want),
                );
            }
        }
        Ok::<(), Fail>(())
    }};
}

fn check_server_only(p: &ServerTransportParameters, exp: &Expected) -> Result<(), Fail> {
    let odcid = p.original_destination_connection_id.as_ref().map(|c| c.as_bytes().to_vec());
    if odcid != exp.cids[P_ODCID] {
        return fail("tp.value.original_destination_connection_id".into(), "", format!("decoded {:?}, declared {:?}", odcid, exp.cids[P_ODCID]));
    }
    let rscid = p.retry_source_connection_id.as_ref().map(|c| c.as_bytes().to_vec());
    if rscid != exp.cids[P_RSCID] {
        return fail("tp.value.retry_source_connection_id".into(), "", format!("decoded {:?}, declared {:?}", rscid, exp.cids[P_RSCID]));
    }
    let token = p.stateless_reset_token.map(|t| t.into_inner());
    if token != exp.token {
        return fail("tp.value.stateless_reset_token".into(), "", format!("decoded {:?}, declared {:?}", token, exp.token));
    }
    let pa = p.preferred_address.as_ref().map(|a| Preferred {
        v4: a.ipv4_address.map(|s| (<[u8; 4]>::from(*s.ip()), s.port())),
        v6: a.ipv6_address.map(|s| (<[u8; 16]>::from(*s.ip()), s.port())),
        cid: a.connection_id.as_bytes().to_vec(),
        token: a.stateless_reset_token.into_inner(),
    });
    if pa != exp.preferred {
        return fail("tp.value.preferred_address".into(), "", format!("decoded {:?}, declared {:?}", pa, exp.preferred));
    }
    Ok(())
}

fn entry_class(block: &[u8], id: u64, vr: &std::ops::Range<usize>) -> (&'static str, String) {
    match lookup(id) {
        None => ("unknown_parameter", format!("len_{}", vr.len())),
        Some(pi) => {
            let v = &block[vr.clone()];
            let class = match PARAMS[pi].form {
                Form::Int { .. } => {
                    let mut pos = 0;
                    match read_varint(v, &mut pos) {
                        Some(x) if v.len() > min_size(x) => "valid_value_nonminimal_varint".to_string(),
                        _ => "valid_value".to_string(),
                    }
                }
                Form::Cid { .. } => format!("valid_len_{}", v.len()),
                _ => "valid_value".to_string(),
            };
            (PARAMS[pi].name, class)
        }
    }
}

/// one (role, block) case; Ok = outcome class
fn check_block(role: Role, block: &[u8], stats: Option<&Stats>) -> Result<u64, Fail> {
    let verdict = table(role, block);
    let outcome;
    macro_rules! decode_and_compare {
        ($decode:ident, $extra:expr) => {{
            let real = $decode(block);
            match (&verdict, real) {
                (Verdict::Reject(_), Err(_)) => {
                    outcome = 1;
                }
                (Verdict::Reject(r), Ok(_)) => {
                    let culprit: Vec<u8> = match parse_block(block) {
                        Some(entries) if !r.entries.is_empty() => r.entries.iter().flat_map(|&i| block[entries[i].1.clone()].to_vec()).collect(),
                        _ => block.to_vec(),
                    };
                    return fail(
                        format!("tp.accept_mismatch.{}", r.param),
                        &r.class,
                        format!(
                            "block {} sent by a {} is ACCEPTED by the real decoder but invalid per RFC: {} [offending part {}]",
                            hex(block),
                            role.name(),
                            r.why,
                            hex(&culprit)
                        ),
                    );
                }
                (Verdict::Accept(_), Err(e)) => {
                    // attribute to the first entry that is refused on its own
                    let entries = parse_block(block).expect("accepted blocks parse");
                    let mut param = "block";
                    let mut class = "interaction".to_string();
                    let mut part = block.to_vec();
                    for (id, er, vr) in &entries {
                        let single = &block[er.clone()];
                        if matches!(table(role, single), Verdict::Accept(_)) && real_accepts(role, single).is_err() {
                            let (n, c) = entry_class(block, *id, vr);
                            param = n;
                            class = c;
                            part = single.to_vec();
                            break;
                        }
                    }
                    return fail(
                        format!("tp.accept_mismatch.{}", param),
                        &class,
                        format!("block {} sent by a {} is REJECTED by the real decoder ({}) but every parameter in it is permitted by the RFC [refused part {}]", hex(block), role.name(), e, hex(&part)),
                    );
                }
                (Verdict::Either(_, _), Err(_)) => {
                    outcome = 2;
                }
                (Verdict::Accept(exp), Ok(p)) | (Verdict::Either(exp, _), Ok(p)) => {
                    check_common!(p, exp, role)?;
                    let extra: fn(&_, &Expected) -> Result<(), Fail> = $extra;
                    extra(&p, exp)?;
                    outcome = if matches!(verdict, Verdict::Accept(_)) { 3 } else { 4 };
                }
            }
        }};
    }
    match role {
        Role::Client => decode_and_compare!(real_client, |_p: &ClientTransportParameters, _e| Ok(())),
        Role::Server => decode_and_compare!(real_server, check_server_only),
    }
    if let Some(s) = stats {
        let c = match outcome {
            1 => &s.rejected,
            2 => &s.either_rejected,
            3 => &s.accepted,
            _ => &s.either_accepted,
        };
        c.fetch_add(1, Ordering::Relaxed);
    }
    // vacuity classes: outcome, role, which class of rejection
    let sub = match &verdict {
        Verdict::Reject(r) => key128(&r.class) as u64 % 97,
        Verdict::Accept(e) | Verdict::Either(e, _) => e.present.iter().filter(|x| **x).count() as u64,
    };
    Ok(outcome | (role as u64) << 3 | sub << 4)
}

#[derive(Default)]
struct Stats {
    accepted: AtomicU64,
    rejected: AtomicU64,
    either_accepted: AtomicU64,
    either_rejected: AtomicU64,
}

// ------------------------------------------------------------------------------------------
// case generation
// ------------------------------------------------------------------------------------------

#[derive(Clone, Debug)]
struct Atom {
    tlv: Vec<u8>,
    label: String,
    /// 0 = only singles and pairs; 1 = also in the quick triples; 2 = also in the thorough triples
    tier: u8,
}

fn pattern(seed: u8, len: usize) -> Vec<u8> {
    (0..len).map(|i| seed.wrapping_add(i as u8).wrapping_mul(29) | 1).collect()
}

fn figure22(v4: Option<([u8; 4], u16)>, v6: Option<([u8; 16], u16)>, cid_len_field: u8, cid: &[u8], token_len: usize) -> Vec<u8> {
    let mut v = Vec::new();
    let (a4, p4) = v4.unwrap_or(([0; 4], 0));
    v.extend_from_slice(&a4);
    v.extend_from_slice(&p4.to_be_bytes());
    let (a6, p6) = v6.unwrap_or(([0; 16], 0));
    v.extend_from_slice(&a6);
    v.extend_from_slice(&p6.to_be_bytes());
    v.push(cid_len_field);
    v.extend_from_slice(cid);
    v.extend(pattern(0x51, token_len));
    v
}

fn int_values(lo: u64, hi: u64, soft_hi: Option<u64>, default: u64) -> Vec<u64> {
    let mut s: BTreeSet<u64> = BTreeSet::new();
    let mut add = |v: i128| {
        if (0..=VMAX as i128).contains(&v) {
            s.insert(v as u64);
        }
    };
    for b in [lo, hi, soft_hi.unwrap_or(hi), default] {
        for off in -1i128..=1 {
            add(b as i128 + off);
        }
    }
    add(0);
    add(VMAX as i128);
    // a typical value well inside the range
    add(if hi >= 100_000 { 1_000_000 } else { ((lo as i128 + hi as i128) / 2).max(lo as i128) });
    // the varint size boundaries inside the range
    for b in [63u64, 64, 16383, 16384, (1 << 30) - 1, 1 << 30] {
        add(b as i128);
    }
    s.into_iter().collect()
}

fn atoms() -> Vec<Atom> {
    let mut out: Vec<Atom> = Vec::new();
    let mut push = |tlv: Vec<u8>, label: String, tier: u8| out.push(Atom { tlv, label, tier });
    for p in PARAMS.iter() {
        let id = p.id;
        match p.form {
            Form::Int { lo, hi, soft_hi, default } => {
                let values = int_values(lo, hi, soft_hi, default);
                for &v in &values {
                    for size in [1usize, 2, 4, 8] {
                        if size < min_size(v) {
                            continue;
                        }
                        let minimal = size == min_size(v);
                        let boundary = v == lo || v == hi || v + 1 == lo || v == hi.wrapping_add(1) || Some(v) == soft_hi;
                        let tier = if minimal && boundary {
                            1
                        } else if v == default && size == 2 {
                            1
                        } else if minimal {
                            2
                        } else {
                            0
                        };
                        push(tlv(id, &enc_varint(v, size)), format!("{}={}/{}B", p.name, v, size), tier);
                    }
                }
                // malformed values
                let t = if hi >= 100_000 { 1000u64 } else { lo.max(1) };
                push(tlv(id, &[]), format!("{}:zero-length", p.name), 1);
                push(tlv(id, &[0x40]), format!("{}:2-byte varint cut to 1", p.name), 0);
                let mut longer = enc_varint(t, min_size(t));
                longer.push(0x00);
                push(tlv(id, &longer), format!("{}={}+trailing byte", p.name, t), 1);
                push(tlv(id, &[0x80, 0x00, 0x01]), format!("{}:4-byte varint cut to 3", p.name), 0);
                push(tlv(id, &[0xc0, 0, 0, 0, 0, 0, 0]), format!("{}:8-byte varint cut to 7", p.name), 0);
                let mut nine = enc_varint(t, 8);
                nine.push(0x01);
                push(tlv(id, &nine), format!("{}={}/8B+trailing byte", p.name, t), 0);
                // framing variants of a valid value: non-minimal id / length encodings (§16)
                let good = enc_varint(if t < lo { lo } else { t }, min_size(t.max(lo)));
                push(tlv_sized(id, 8.max(min_size(id)), &good, 1), format!("{}:id as 8-byte varint", p.name), 2);
                push(tlv_sized(id, min_size(id), &good, 2), format!("{}:length as 2-byte varint", p.name), 0);
                if min_size(id) == 1 {
                    push(tlv_sized(id, 2, &good, 4), format!("{}:id 2-byte, length 4-byte varint", p.name), 0);
                }
            }
            Form::Flag => {
                push(tlv(id, &[]), format!("{}:present", p.name), 1);
                push(tlv(id, &[0x00]), format!("{}:1 byte 00", p.name), 1);
                push(tlv(id, &[0x01]), format!("{}:1 byte 01", p.name), 0);
                push(tlv(id, &pattern(3, 8)), format!("{}:8 bytes", p.name), 0);
                push(tlv_sized(id, 8, &[], 2), format!("{}:present, id 8-byte, length 2-byte varint", p.name), 2);
            }
            Form::Cid { .. } => {
                for len in [0usize, 1, 3, 4, 5, 7, 8, 9, 19, 20, 21, 22, 255] {
                    let tier = match len {
                        8 | 21 => 1,
                        0 | 20 => 2,
                        _ => 0,
                    };
                    push(tlv(id, &pattern(0x11 + p.id as u8, len)), format!("{}:{} bytes", p.name, len), tier);
                }
                push(tlv_sized(id, 4, &pattern(0x77, 8), 2), format!("{}:8 bytes, id 4-byte, length 2-byte varint", p.name), 0);
            }
            Form::Token => {
                for len in [0usize, 1, 15, 16, 17, 32] {
                    let tier = match len {
                        16 => 1,
                        15 | 17 => 2,
                        _ => 0,
                    };
                    push(tlv(id, &pattern(0x21, len)), format!("{}:{} bytes", p.name, len), tier);
                }
                push(tlv(id, &[0u8; 16]), format!("{}:16 zero bytes", p.name), 0);
            }
            Form::PreferredAddress => {
                let v4 = Some(([192, 0, 2, 1], 4433u16));
                let v6 = Some(([0x20, 0x01, 0x0d, 0xb8, 0, 0, 0, 0, 0, 0, 0, 0, 0, 0, 0, 1], 443u16));
                let n = p.name;
                for len in [1usize, 4, 8, 20] {
                    push(tlv(id, &figure22(v4, v6, len as u8, &pattern(0x31, len), 16)), format!("{}:v4+v6, cid {} bytes", n, len), if len == 8 { 1 } else { 2 });
                }
                push(tlv(id, &figure22(v4, None, 8, &pattern(0x31, 8), 16)), format!("{}:v4 only", n), 2);
                push(tlv(id, &figure22(None, v6, 8, &pattern(0x31, 8), 16)), format!("{}:v6 only", n), 2);
                push(tlv(id, &figure22(Some(([0; 4], 443)), None, 8, &pattern(0x31, 8), 16)), format!("{}:v4 0.0.0.0:443 only", n), 0);
                push(tlv(id, &figure22(Some(([10, 0, 0, 1], 0)), None, 8, &pattern(0x31, 8), 16)), format!("{}:v4 10.0.0.1:0 only", n), 0);
                push(tlv(id, &figure22(None, Some(([0; 16], 1)), 8, &pattern(0x31, 8), 16)), format!("{}:v6 [::]:1 only", n), 0);
                push(tlv(id, &figure22(None, None, 8, &pattern(0x31, 8), 16)), format!("{}:both families zero", n), 0);
                push(tlv(id, &figure22(v4, v6, 0, &[], 16)), format!("{}:zero-length cid", n), 1);
                push(tlv(id, &figure22(v4, v6, 21, &pattern(0x31, 21), 16)), format!("{}:cid 21 bytes", n), 2);
                push(tlv(id, &figure22(v4, v6, 255, &pattern(0x31, 255), 16)), format!("{}:cid 255 bytes", n), 0);
                push(tlv(id, &figure22(v4, v6, 8, &pattern(0x31, 8), 15)), format!("{}:token 15 bytes", n), 2);
                push(tlv(id, &figure22(v4, v6, 8, &pattern(0x31, 8), 17)), format!("{}:token 17 bytes", n), 0);
                push(tlv(id, &figure22(v4, v6, 9, &pattern(0x31, 8), 16)), format!("{}:cid length field 9, 8 present", n), 0);
                push(tlv(id, &figure22(v4, v6, 7, &pattern(0x31, 8), 16)), format!("{}:cid length field 7, 8 present", n), 0);
                push(tlv(id, &figure22(v4, v6, 8, &pattern(0x31, 8), 0)), format!("{}:no token", n), 0);
                push(tlv(id, &figure22(v4, v6, 8, &[], 0)[..24]), format!("{}:24 bytes", n), 0);
                push(tlv(id, &[]), format!("{}:empty", n), 2);
            }
            Form::DcVersions => {
                let n = p.name;
                let list = |vs: &[(u64, usize)]| -> Vec<u8> { vs.iter().flat_map(|&(v, s)| enc_varint(v, s)).collect() };
                push(tlv(id, &[]), format!("{}:empty", n), 2);
                push(tlv(id, &list(&[(1, 1)])), format!("{}:[1]", n), 1);
                push(tlv(id, &list(&[(1, 2)])), format!("{}:[1 as 2-byte varint]", n), 0);
                push(tlv(id, &list(&[(1, 1), (2, 1), (3, 1), (4, 1)])), format!("{}:[1,2,3,4]", n), 2);
                push(tlv(id, &list(&[(1, 1), (2, 1), (3, 1), (4, 1), (5, 1)])), format!("{}:[1,2,3,4,5]", n), 0);
                let mut g = list(&[(1, 1), (2, 1), (3, 1), (4, 1)]);
                g.push(0xc0);
                push(tlv(id, &g), format!("{}:[1,2,3,4]+cut varint", n), 0);
                push(tlv(id, &list(&[(u32::MAX as u64, 8)])), format!("{}:[u32::MAX]", n), 2);
                push(tlv(id, &list(&[(u32::MAX as u64 + 1, 8)])), format!("{}:[u32::MAX+1]", n), 1);
                push(tlv(id, &list(&[(1, 1), (VMAX, 8)])), format!("{}:[1, 2^62-1]", n), 0);
                push(tlv(id, &[0x40]), format!("{}:cut varint", n), 2);
                push(tlv(id, &[0x01, 0x02, 0x80, 0x00]), format!("{}:[1,2,cut varint]", n), 0);
            }
        }
    }
    // unknown / reserved ids (§18.1: 31*N+27), lengths {0, 1, 8}
    let n_top = (VMAX - 27) / 31;
    let unknown: [(u64, &str); 12] = [
        (27, "grease N=0"),
        (58, "grease N=1"),
        (31 * 1000 + 27, "grease N=1000"),
        (31 * n_top + 27, "grease top"),
        (0x11, "0x11 version_information"),
        (0x1f, "0x1f"),
        (0x21, "0x21"),
        (0x2ab2, "grease_quic_bit"),
        (0xdc0001, "0xdc0001"),
        (0xdc0003, "0xdc0003"),
        (0xff04de1b, "min_ack_delay draft"),
        (VMAX, "2^62-1"),
    ];
    for (i, (id, name)) in unknown.iter().enumerate() {
        for len in [0usize, 1, 8] {
            let tier = if i == 0 && len == 1 {
                1
            } else if i < 2 || (i == 4 && len == 8) {
                2
            } else {
                0
            };
            push(tlv(*id, &pattern(0x41, len)), format!("unknown {}:{} bytes", name, len), tier);
        }
    }
    // an unknown parameter whose value looks like known parameters
    push(tlv(27, &[0x0a, 0x01, 0x15, 0x0b, 0x02, 0x40, 0x00]), "unknown grease carrying TLVs".into(), 0);
    push(tlv(58, &pattern(9, 300)), "unknown grease N=1:300 bytes".into(), 0);
    out
}

/// blocks whose framing is broken (or unusual) as a whole
fn specials(atoms: &[Atom]) -> Vec<(Vec<u8>, String)> {
    let mut out: Vec<(Vec<u8>, String)> = Vec::new();
    out.push((vec![], "empty block".into()));
    out.push((vec![0x40], "id varint cut".into()));
    out.push((vec![0xc0, 0, 0, 0, 0, 0, 0], "8-byte id varint cut to 7".into()));
    for a in atoms {
        let t = &a.tlv;
        // cut the block short by 1 byte / by the whole value, add a stray byte, add a huge length
        if t.len() > 2 {
            out.push((t[..t.len() - 1].to_vec(), format!("{} | last byte missing", a.label)));
        }
        let mut pos = 0;
        let id = read_varint(t, &mut pos).unwrap();
        let after_id = pos;
        let _ = read_varint(t, &mut pos).unwrap();
        out.push((t[..after_id].to_vec(), format!("{} | only the id", a.label)));
        if pos < t.len() {
            out.push((t[..pos].to_vec(), format!("{} | value missing", a.label)));
        }
        let mut stray = t.clone();
        stray.push(0x40);
        out.push((stray, format!("{} | followed by a cut id", a.label)));
        if a.tier >= 1 {
            let mut huge = enc_varint(id, min_size(id));
            huge.extend(enc_varint(VMAX, 8));
            huge.extend_from_slice(&t[pos..]);
            out.push((huge, format!("{} | length field 2^62-1", a.label)));
            let mut cutlen = enc_varint(id, min_size(id));
            cutlen.push(0x80);
            out.push((cutlen, format!("{} | length varint cut", a.label)));
        }
    }
    out
}

pub struct Cases {
    atoms: Vec<Atom>,
    tri: Vec<usize>,
    specials: Vec<(Vec<u8>, String)>,
    n_single: u64,
    n_pair: u64,
    n_tri: u64,
    n_special: u64,
    n_full: u64,
}

impl Cases {
    pub fn new(tier: Tier) -> Cases {
        let atoms = atoms();
        // both tiers enumerate the triples over all atoms of classes 1 and 2 (29 M blocks, a few seconds)
        let want = tier.pick(2u8, 2);
        let tri: Vec<usize> = (0..atoms.len()).filter(|&i| atoms[i].tier >= 1 && atoms[i].tier <= want).collect();
        let specials = specials(&atoms);
        let a = atoms.len() as u64;
        let t = tri.len() as u64;
        Cases { n_single: a, n_pair: a * a, n_tri: t * t * t, n_special: specials.len() as u64, n_full: 6, atoms, tri, specials }
    }
    fn per_role(&self) -> u64 {
        self.n_single + self.n_special + self.n_full + self.n_pair + self.n_tri
    }
    pub fn n(&self) -> u64 {
        2 * self.per_role()
    }
    /// (role, block, section, labels)
    fn case(&self, i: u64) -> (Role, Vec<u8>, &'static str, Vec<String>) {
        // the role alternates fastest so that both decoders see every block next to each other
        let role = if i % 2 == 0 { Role::Client } else { Role::Server };
        let mut j = i / 2;
        if j < self.n_single {
            let a = &self.atoms[j as usize];
            return (role, a.tlv.clone(), "single", vec![a.label.clone()]);
        }
        j -= self.n_single;
        if j < self.n_special {
            let (b, l) = &self.specials[j as usize];
            return (role, b.clone(), "framing", vec![l.clone()]);
        }
        j -= self.n_special;
        if j < self.n_full {
            let (b, l) = self.full_block(j);
            return (role, b, "full", vec![l]);
        }
        j -= self.n_full;
        if j < self.n_pair {
            let n = self.atoms.len() as u64;
            let (x, y) = (&self.atoms[(j / n) as usize], &self.atoms[(j % n) as usize]);
            let mut b = x.tlv.clone();
            b.extend_from_slice(&y.tlv);
            return (role, b, "pair", vec![x.label.clone(), y.label.clone()]);
        }
        j -= self.n_pair;
        let n = self.tri.len() as u64;
        let pick = |k: u64| &self.atoms[self.tri[k as usize]];
        let (x, y, z) = (pick(j / (n * n)), pick((j / n) % n), pick(j % n));
        let mut b = x.tlv.clone();
        b.extend_from_slice(&y.tlv);
        b.extend_from_slice(&z.tlv);
        (role, b, "triple", vec![x.label.clone(), y.label.clone(), z.label.clone()])
    }
    /// blocks carrying every parameter at once (a realistic handshake): every known parameter at
    /// a valid non-default value (+ grease), in table order, reversed, and with one parameter of
    /// each kind pushed out of range
    fn full_block(&self, k: u64) -> (Vec<u8>, String) {
        let mut parts: Vec<Vec<u8>> = Vec::new();
        for (pi, p) in PARAMS.iter().enumerate() {
            let v: Vec<u8> = match p.form {
                Form::Int { lo, hi, .. } => {
                    let v = if hi >= 100_000 { 70_000 + pi as u64 } else { lo + (hi - lo) / 3 };
                    enc_varint(v, min_size(v))
                }
                Form::Flag => vec![],
                Form::Cid { .. } => pattern(pi as u8, 8 + pi % 5),
                Form::Token => pattern(0x61, 16),
                Form::PreferredAddress => figure22(Some(([198, 51, 100, 7], 8443)), Some(([0xfd; 16], 8443)), 5, &pattern(0x71, 5), 16),
                Form::DcVersions => vec![0x01, 0x02],
            };
            parts.push(tlv(p.id, &v));
        }
        parts.push(tlv(31 * 7 + 27, &pattern(1, 3)));
        let label = match k {
            0 => "all parameters, table order",
            1 => {
                parts.reverse();
                "all parameters, reverse order"
            }
            2 => {
                parts[P_ACK_EXP] = tlv(0x0a, &[21]);
                "all parameters, ack_delay_exponent 21"
            }
            3 => {
                parts[P_CID_LIMIT] = tlv(0x0e, &[1]);
                "all parameters, active_connection_id_limit 1"
            }
            4 => {
                let dup = parts[P_MAX_DATA].clone();
                parts.push(dup);
                "all parameters, initial_max_data repeated at the end"
            }
            _ => {
                parts.retain(|t| {
                    let mut pos = 0;
                    let id = read_varint(t, &mut pos).unwrap();
                    lookup(id).map_or(true, |pi| !PARAMS[pi].server_only)
                });
                "all client-permitted parameters"
            }
        };
        (parts.concat(), label.to_string())
    }
    fn describe(&self, i: u64) -> Json {
        let (role, block, section, labels) = self.case(i);
        Json::obj().set("role", role.name()).set("block", hex(&block)).set("section", section).set("parameters", labels)
    }
}

// ------------------------------------------------------------------------------------------
// family
// ------------------------------------------------------------------------------------------

fn to_violation(f: &Fail, role: Role, block: &[u8]) -> Violation {
    // the accept/reject details already quote the block; value details get it as a prefix
    let detail = if f.clause.starts_with("tp.accept_mismatch") { f.detail.clone() } else { format!("block {} sent by a {}: {}", hex(block), role.name(), f.detail) };
    let mut v = Violation::new(&f.clause, detail);
    v.fingerprint = format!("seqmc|c14.table|{}|{}|{}|{}", f.clause, f.class, role.name(), hex(block));
    v
}

pub fn run(family: &str, tier: Tier, out: &mut Output) {
    match family {
        "table" => {
            let cases = Cases::new(tier);
            let stats = Stats::default();
            // (clause, class, role) -> lowest failing case
            let found: Mutex<BTreeMap<(String, String, Role), (u64, Fail)>> = Mutex::new(BTreeMap::new());
            let mut rep = enumerate(
                "seqmc",
                "c14.table",
                cases.n(),
                tier.pick(25.0, 250.0),
                &|i| {
                    let (role, block, _, _) = cases.case(i);
                    match check_block(role, &block, Some(&stats)) {
                        Ok(o) => Ok(o),
                        Err(f) => {
                            let key = (f.clause.clone(), f.class.clone(), role);
                            let mut g = found.lock().unwrap();
                            match g.get(&key) {
                                Some((j, _)) if *j <= i => {}
                                _ => {
                                    g.insert(key, (i, f));
                                }
                            }
                            Ok(5 | (role as u64) << 3)
                        }
                    }
                },
                &|i| cases.describe(i),
            );
            let mut found: Vec<(u64, Fail)> = found.into_inner().unwrap().into_values().collect();
            found.sort_by_key(|(i, _)| *i);
            rep.extra.push(("x_violation_classes".into(), found.len().into()));
            for (i, f) in found.into_iter().take(24) {
                let (role, block, _, _) = cases.case(i);
                let mut v = to_violation(&f, role, &block);
                v.replay = Json::obj()
                    .set("engine", "seqmc")
                    .set("family", "c14.table")
                    .set("clause", v.clause.as_str())
                    .set("detail", v.detail.as_str())
                    .set("case_index", i)
                    .set("case", cases.describe(i));
                rep.violations.push(v);
            }
            rep.extra.push(("x_atoms".into(), cases.atoms.len().into()));
            rep.extra.push(("x_triple_atoms".into(), cases.tri.len().into()));
            rep.extra.push(("x_singles".into(), (2 * cases.n_single).into()));
            rep.extra.push(("x_framing".into(), (2 * cases.n_special).into()));
            rep.extra.push(("x_pairs".into(), (2 * cases.n_pair).into()));
            rep.extra.push(("x_triples".into(), (2 * cases.n_tri).into()));
            rep.extra.push(("x_accepted".into(), stats.accepted.load(Ordering::Relaxed).into()));
            rep.extra.push(("x_rejected".into(), stats.rejected.load(Ordering::Relaxed).into()));
            rep.extra.push(("x_either_accepted".into(), stats.either_accepted.load(Ordering::Relaxed).into()));
            rep.extra.push(("x_either_rejected".into(), stats.either_rejected.load(Ordering::Relaxed).into()));
            rep.extra.push(("config".into(), Json::obj().set("tier", if tier == Tier::Quick { "quick" } else { "thorough" })));
            out.push(rep);
        }
        _ => panic!("unknown c14 family {}", family),
    }
}

/// Replay: `cfg` is the `case` object of the replay file (`role` + `block` hex are what is used);
/// `hist` is unused. The single block is decoded and compared again.
pub fn replay(family: &str, cfg: &Json, _hist: &[u16]) -> Result<Vec<String>, (Vec<String>, Violation)> {
    assert_eq!(family, "table", "unknown c14 family {}", family);
    let cfg = cfg.get("case").unwrap_or(cfg);
    let role = match cfg.get("role").and_then(|r| r.as_str()) {
        Some("client") => Role::Client,
        Some("server") => Role::Server,
        other => panic!("replay needs case.role = client|server, got {:?}", other),
    };
    let block = unhex(cfg.get("block").and_then(|b| b.as_str()).expect("replay needs case.block (hex)"));
    let trace = vec![format!("decode {} as sent by a {}: table says {}", hex(&block), role.name(), match table(role, &block) {
        Verdict::Accept(_) => "accept".to_string(),
        Verdict::Either(_, e) => format!("either ({})", e),
        Verdict::Reject(r) => format!("reject ({})", r.why),
    })];
    match guarded("case", || check_block(role, &block, None).map_err(|f| to_violation(&f, role, &block))) {
        Ok(_) => Ok(trace),
        Err(v) => Err((trace, v)),
    }
}
